"""bin/check entry point: python -m vf.cli <id> [--tier quick|thorough] [--replay FILE]

Exit codes: 0 property held on everything explored (KNOWN-FINDING lines possible)
            1 violation (a VIOLATION line was printed)
            3 checker fault (no verdict)
"""
import argparse
import importlib
import json
import os
import sys
import traceback

from vf.runner import Ctx


def main(argv=None):
    ap = argparse.ArgumentParser()
    ap.add_argument("prop")
    ap.add_argument("--tier", default=os.environ.get("VERIF_TIER") or "quick",
                    choices=["quick", "thorough"])
    ap.add_argument("--replay", default=None)
    ap.add_argument("--no-evidence", action="store_true",
                    help="do not rewrite evidence/<id>.json (used when checking scratch copies)")
    a = ap.parse_args(argv)
    seed = int(os.environ.get("VERIF_SEED") or 0)
    try:
        mod = importlib.import_module("props.%s" % a.prop)
    except ModuleNotFoundError:
        print("no check for property %s" % a.prop)
        return 3
    ctx = Ctx(a.prop, a.tier, seed, write_evidence=not a.no_evidence)
    try:
        if a.replay:
            data = json.load(open(a.replay))
            ok = mod.replay(ctx, data)
            print("REPLAY %s: %s" % (a.replay, "property holds on this input now" if ok
                                     else "violation reproduced"))
            return 0 if ok else 1
        mod.run(ctx)
        return ctx.finish()
    except SystemExit:
        raise
    except Exception:
        traceback.print_exc()
        print("CHECKER-FAULT property=%s (no verdict)" % a.prop)
        return 3


if __name__ == "__main__":
    sys.exit(main())
