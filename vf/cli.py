"""bin/check entry point: python -m vf.cli <id> [--tier quick|thorough] [--replay FILE]

Exit codes: 0 property held on everything explored (KNOWN-FINDING lines possible)
            1 violation (a VIOLATION line was printed)
            3 checker fault (no verdict)
"""
import argparse
import importlib
import json
import os
import sys
import traceback

from vf.runner import Ctx


def main(argv=None):
    ap = argparse.ArgumentParser()
    ap.add_argument("prop")
    ap.add_argument("--tier", default=os.environ.get("VERIF_TIER") or "quick",
                    choices=["quick", "thorough"])
    ap.add_argument("--replay", default=None)
    ap.add_argument("--no-evidence", action="store_true",
                    help="do not rewrite evidence/<id>.json (used when checking scratch copies)")
    a = ap.parse_args(argv)
    seed = int(os.environ.get("VERIF_SEED") or 0)
    try:
        mod = importlib.import_module("props.%s" % a.prop)
    except ModuleNotFoundError:
        print("no check for property %s" % a.prop)
        return 3
    except Exception:
        traceback.print_exc()
        print("CHECKER-FAULT property=%s (no verdict)" % a.prop)
        return 3
    ctx = Ctx(a.prop, a.tier, seed, write_evidence=not a.no_evidence)
    try:
        if a.replay:
            data = json.load(open(a.replay))
            ok = mod.replay(ctx, data)
            print("REPLAY %s: %s" % (a.replay, "property holds on this input now" if ok
                                     else "violation reproduced"))
            return 0 if ok else 1
        mod.run(ctx)
        return ctx.finish()
    except SystemExit:
        raise
    except Exception as e:
        # An exception that escapes from a check is a fault of the checker - unless it was raised INSIDE the library under
        # check while the (bounded) harness was exercising it: on the unchanged tree that never happens, so after a code change
        # it is the library behaving differently, and it is reported as such with the traceback.
        tb = traceback.extract_tb(e.__traceback__)
        repo = os.path.realpath(os.environ.get("VERIF_REPO", "/repo"))
        innermost = os.path.realpath(tb[-1].filename) if tb else ""
        via_generator = any("/vf/pyvc/" in fr.filename or "/vf/rx.py" in fr.filename for fr in tb)
        if innermost.startswith(repo + os.sep) and not via_generator and not a.replay:
            where = "%s:%d in %s" % (os.path.relpath(innermost, repo), tb[-1].lineno, tb[-1].name)
            harness = next((fr for fr in reversed(tb) if "/props/" in fr.filename or "/vf/" in fr.filename), None)
            ctx.violation("harness: %s raised inside the library at %s" % (type(e).__name__, where.split(":")[0]),
                          "bounded harness: unexpected %s raised inside the library (%s)" % (type(e).__name__, where),
                          "".join(traceback.format_exception(type(e), e, e.__traceback__))[-3000:],
                          inputs={"exception": repr(e), "raised_at": where,
                                  "harness_line": "%s:%d: %s" % (harness.filename, harness.lineno, harness.line) if harness else None},
                          confirmed=True)
            try:
                return ctx.finish()
            except Exception:
                pass
        traceback.print_exc()
        print("CHECKER-FAULT property=%s (no verdict)" % a.prop)
        return 3


if __name__ == "__main__":
    try:
        code = main()
    except SystemExit:
        raise
    except BaseException:        # nothing but a printed VIOLATION line may end with exit status 1
        traceback.print_exc()
        print("CHECKER-FAULT (no verdict)")
        code = 3
    sys.exit(code)
