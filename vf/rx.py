"""rx: compiled `re` patterns of the real modules -> SMT regular languages (DESIGN 2.3).

* The pattern is never re-typed: we take `pattern`/`flags` of the real compiled object and walk
  the parse tree of the running interpreter's own `re._parser`.
* Every single-character node (literal, class, category, `.`) is turned into the exact set of code
  points it accepts *by asking the running interpreter*: the node is compiled on its own and run
  over a string containing every code point once.  So `\\d`, `\\s`, `\\w`, IGNORECASE folds ... are
  whatever this CPython implements, over all of U+0000..U+10FFFF.
* Minterm compression: code points are partitioned by their membership signature over all sets in
  a query; each block gets one representative symbol.  Language queries over the compressed
  alphabet are exact for the original alphabet; witnesses are mapped back to real strings.
* Anchors are handled by continuation passing: T(items, K) is the language of *suffixes* of the
  subject that allow the rest of the pattern to match, K being what may follow the whole match
  (anything for match/search, nothing for fullmatch).  `$` intersects with (eps | "\\n"),
  `\\Z` with eps -- which is what makes `a|b\\Z` under match() come out as a.* | b.
"""
import re
import re._parser as sp
import re._compiler as sc
import re._constants as C

import z3

from vf.runner import Unsupported

MAXCP = 0x110000
_ALL_STR = None
_ALL_BYTES = bytes(range(256))


def _all_str():
    global _ALL_STR
    if _ALL_STR is None:
        _ALL_STR = "".join(map(chr, range(MAXCP)))
    return _ALL_STR


def _ranges(sorted_cps):
    out = []
    start = prev = None
    for c in sorted_cps:
        if start is None:
            start = prev = c
        elif c == prev + 1:
            prev = c
        else:
            out.append((start, prev))
            start = prev = c
    if start is not None:
        out.append((start, prev))
    return out


_atom_cache = {}


def atom_set(state, node, is_bytes, flags):
    """ranges of code points accepted by one single-character parse node (exact, from CPython)"""
    key = (repr(node), flags, is_bytes)
    if key in _atom_cache:
        return _atom_cache[key]
    st = sp.State()
    st.flags = flags
    st.str = b"" if is_bytes else ""
    p = sp.SubPattern(st, [node])
    pat = sc.compile(p, flags)
    if is_bytes:
        cps = [m.start() for m in pat.finditer(_ALL_BYTES)]
    else:
        cps = [m.start() for m in pat.finditer(_all_str())]
    r = tuple(_ranges(cps))
    _atom_cache[key] = r
    return r


class Pat:
    def __init__(self, pattern, flags, name):
        self.pattern = pattern
        self.is_bytes = isinstance(pattern, bytes)
        self.name = name
        self.tree = sp.parse(pattern, flags)
        self.compiled = re.compile(pattern, flags)
        self.flags = self.tree.state.flags
        self.groupindex = dict(self.tree.state.groupdict)


_SINGLE = {"LITERAL", "NOT_LITERAL", "IN", "ANY"}


def _opname(op):
    return str(op)


class Env:
    """One query context: add patterns / literal strings, then ask language questions."""

    def __init__(self, is_bytes=False):
        self.is_bytes = is_bytes
        self.pats = []
        self.atoms = {}         # key -> ranges
        self.extra_chars = set()
        self.final = False
        self.SORT = z3.StringSort()
        self.markers = {}       # label -> one-symbol RegLan (symbols outside the subject alphabet)

    # ---- collection
    def add(self, pattern, flags=0, name=None):
        if hasattr(pattern, "pattern"):
            name = name or repr(pattern.pattern)
            pattern, flags = pattern.pattern, pattern.flags
        p = Pat(pattern, flags, name or repr(pattern))
        if p.is_bytes != self.is_bytes:
            raise Unsupported("mixing str and bytes patterns in one rx query")
        self.pats.append(p)
        self._collect(p, p.tree)
        self.final = False
        return p

    def add_chars(self, chars):
        for c in chars:
            self.extra_chars.add(c if isinstance(c, int) else ord(c))
        self.final = False

    def _collect(self, p, items):
        for op, av in items:
            nm = _opname(op)
            if nm in _SINGLE:
                key = (repr((op, av)), p.flags)
                if key not in self.atoms:
                    self.atoms[key] = atom_set(p.tree.state, (op, av), p.is_bytes, p.flags & ~re.VERBOSE)
            elif nm == "SUBPATTERN":
                self._collect(p, av[3])
            elif nm in ("MAX_REPEAT", "MIN_REPEAT", "POSSESSIVE_REPEAT"):
                self._collect(p, av[2])
            elif nm == "BRANCH":
                for alt in av[1]:
                    self._collect(p, alt)
            elif nm == "AT":
                pass
            elif nm in ("ATOMIC_GROUP",):
                self._collect(p, av)
            else:
                raise Unsupported("regex construct %s in %s" % (nm, p.name))

    # ---- minterms
    def finalize(self):
        if self.final:
            return
        top = 256 if self.is_bytes else MAXCP
        sets = list(self.atoms.values()) + [((c, c),) for c in sorted(self.extra_chars)] + [((10, 10),)]
        cuts = {0, top}
        for rs in sets:
            for a, b in rs:
                cuts.add(a)
                cuts.add(b + 1)
        cuts = sorted(cuts)
        # membership signature of every elementary interval
        import bisect
        starts = [[a for a, b in rs] for rs in sets]
        sig_to_intervals = {}
        for i in range(len(cuts) - 1):
            lo = cuts[i]
            sig = []
            for k, rs in enumerate(sets):
                j = bisect.bisect_right(starts[k], lo) - 1
                sig.append(j >= 0 and rs[j][0] <= lo <= rs[j][1])
            sig_to_intervals.setdefault(tuple(sig), []).append((lo, cuts[i + 1] - 1))
        self.blocks = []          # list of (signature, intervals)
        for sig, ivs in sig_to_intervals.items():
            self.blocks.append((sig, ivs))
        # representative symbols: printable ASCII first, then U+0100.. (inside every solver's alphabet)
        reps = [chr(c) for c in range(0x30, 0x7B) if chr(c).isalnum()] + [chr(c) for c in range(0x100, 0x400)]
        if len(self.blocks) > len(reps):
            raise Unsupported("too many character classes in one rx query (%d)" % len(self.blocks))
        self.rep = {}
        self.block_of_rep = {}
        for k, (sig, ivs) in enumerate(self.blocks):
            self.rep[k] = reps[k]
            self.block_of_rep[reps[k]] = k
        self.set_index = {key: i for i, key in enumerate(self.atoms)}
        self.nl_index = len(sets) - 1
        self.char_index = {c: len(self.atoms) + i for i, c in enumerate(sorted(self.extra_chars))}
        self.final = True

    def _re_of_set(self, idx):
        syms = [self.rep[k] for k, (sig, ivs) in enumerate(self.blocks) if sig[idx]]
        return self._union([z3.Re(z3.StringVal(s)) for s in syms])

    def _union(self, rs):
        if not rs:
            return z3.Empty(z3.ReSort(self.SORT))
        if len(rs) == 1:
            return rs[0]
        return z3.Union(*rs)

    def sigma(self):
        return self._union([z3.Re(z3.StringVal(self.rep[k])) for k in range(len(self.blocks))])

    def sigma_star(self):
        return z3.Star(self.sigma())

    def eps(self):
        return z3.Re(z3.StringVal(""))

    def nl(self):
        return self._re_of_set(self.nl_index)

    def char(self, c):
        c = c if isinstance(c, int) else ord(c)
        return self._re_of_set(self.char_index[c])

    def literal(self, s):
        """language {s} for a concrete string whose characters were registered with add_chars"""
        if not s:
            return self.eps()
        parts = [self.char(c) for c in s]
        return parts[0] if len(parts) == 1 else z3.Concat(*parts)

    # ---- translation
    def lang(self, p, how="match"):
        """the set of *whole subjects* s for which p.<how>(s) succeeds"""
        self.finalize()
        K = self.eps() if how == "fullmatch" else self.sigma_star()
        items = list(p.tree)
        anchored = False
        while items and _opname(items[0][0]) == "AT" and _opname(items[0][1]) in ("AT_BEGINNING", "AT_BEGINNING_STRING"):
            if _opname(items[0][1]) == "AT_BEGINNING" and (p.flags & re.MULTILINE) and how == "search":
                raise Unsupported("^ with MULTILINE under search")
            anchored = True
            items = items[1:]
        body = self.T(p, items, K)
        if how == "search" and not anchored:
            return z3.Concat(self.sigma_star(), body)
        return body

    def group_lang(self, p, items):
        """language of a sub-sequence of the pattern on its own (no context)"""
        self.finalize()
        return self.T(p, list(items), self.eps())

    # ---- markers (capture lemmas): group boundaries become extra symbols, see marked_lang / erased_inverse
    def marker(self, label):
        if label not in self.markers:
            sym = chr(0x2400 + len(self.markers))
            self.markers[label] = (sym, z3.Re(z3.StringVal(sym)))
        return self.markers[label][1]

    def mstar(self):
        return z3.Star(self._union([r for _s, r in self.markers.values()])) if self.markers else self.eps()

    def marked_lang(self, p, groups, how="match"):
        """like lang(), but every participating group in `groups` (names or numbers) is bracketed by its
        two marker symbols: the set of (subject, group spans) over ALL ways the pattern can match.  What
        re returns is one of them, so a claim that holds for every marked word holds for the spans re reports."""
        self.finalize()
        gids = {p.groupindex.get(g, g): g for g in groups}
        mk = {"groups": {gid: (self.marker("<%s" % g), self.marker("%s>" % g)) for gid, g in gids.items()}, "shuffle": False}
        K = self.eps() if how == "fullmatch" else self.sigma_star()
        items = list(p.tree)
        while items and _opname(items[0][0]) == "AT" and _opname(items[0][1]) in ("AT_BEGINNING", "AT_BEGINNING_STRING"):
            items = items[1:]
        if how == "search":
            raise Unsupported("marked_lang under search")
        return self.T(p, items, K, mk)

    def erased_inverse(self, p):
        """all words over subject symbols and markers whose marker-free projection fullmatches p
        (call after every marker used in the query has been created)"""
        self.finalize()
        items = list(p.tree)
        return self.T(p, items, self.mstar(), {"groups": {}, "shuffle": True})

    def expected(self, parts):
        """concatenation of fullmatch languages; a part ('name', pat) is bracketed by the markers of group `name`"""
        out = []
        for part in parts:
            if isinstance(part, tuple):
                g, pat = part
                out += [self.marker("<%s" % g), self.lang(pat, "fullmatch"), self.marker("%s>" % g)]
            else:
                out.append(self.lang(part, "fullmatch"))
        return out[0] if len(out) == 1 else z3.Concat(*out)

    def T(self, p, items, K, mk=None):
        if not items:
            return K
        (op, av), rest = items[0], items[1:]
        nm = _opname(op)
        shuffle = bool(mk and mk["shuffle"])
        if nm in _SINGLE:
            cls = self._re_of_set(self.set_index[(repr((op, av)), p.flags)])
            if shuffle:
                cls = z3.Concat(self.mstar(), cls)
            return z3.Concat(cls, self.T(p, rest, K, mk))
        K2 = self.T(p, rest, K, mk)
        if nm == "SUBPATTERN":
            gid, add, dele, sub = av
            if add or dele:
                raise Unsupported("inline flag group")
            if mk and gid in mk["groups"]:
                o, c = mk["groups"][gid]
                return z3.Concat(o, self.T(p, list(sub), z3.Concat(c, K2), mk))
            return self.T(p, list(sub), K2, mk)
        if nm == "BRANCH":
            return self._union([self.T(p, list(alt), K2, mk) for alt in av[1]])
        if nm in ("MAX_REPEAT", "MIN_REPEAT", "POSSESSIVE_REPEAT"):
            lo, hi, sub = av
            if nm == "POSSESSIVE_REPEAT":
                raise Unsupported("possessive repetition (its language is not the language of the plain repetition)")
            if _has_anchor(sub):
                raise Unsupported("anchor inside a repetition")
            if mk and mk["groups"] and _has_group(sub, set(mk["groups"])):
                if hi != 1:
                    raise Unsupported("marked group inside a repetition")
                inner = self.T(p, list(sub), self.eps(), mk)
            else:
                inner = self.T(p, list(sub), self.eps(), {"groups": {}, "shuffle": True} if shuffle else None)
            if hi == C.MAXREPEAT:
                if lo == 0:
                    r = z3.Star(inner)
                elif lo == 1:
                    r = z3.Plus(inner)
                else:
                    r = z3.Concat(z3.Loop(inner, lo, lo), z3.Star(inner))
            elif lo == 0 and hi == 1:
                r = z3.Option(inner)
            else:
                r = z3.Loop(inner, lo, hi)
            return z3.Concat(r, K2)
        if nm == "AT":
            where = _opname(av)
            ms = self.mstar() if mk else None
            if where == "AT_END":
                if p.flags & re.MULTILINE:
                    if mk:
                        raise Unsupported("$ with MULTILINE in a marked translation")
                    endset = z3.Union(self.eps(), z3.Concat(self.nl(), self.sigma_star()))
                elif mk:
                    endset = z3.Concat(ms, z3.Option(z3.Concat(self.nl(), ms)))
                else:
                    endset = z3.Union(self.eps(), self.nl())
                return z3.Intersect(K2, endset)
            if where == "AT_END_STRING":
                return z3.Intersect(K2, ms if mk else self.eps())
            raise Unsupported("anchor %s inside the pattern" % where)
        raise Unsupported("regex construct %s" % nm)

    # ---- queries (return SMT-LIB text whose unsat answer means the claim holds)
    def smt_empty(self, r):
        x = z3.String("w")
        s = z3.Solver()
        s.add(z3.InRe(x, r))
        return s.to_smt2(), "w"

    def claim_subset(self, a, b):
        return self.smt_empty(z3.Intersect(a, z3.Complement(b)))

    def claim_equal(self, a, b):
        return self.smt_empty(z3.Union(z3.Intersect(a, z3.Complement(b)), z3.Intersect(b, z3.Complement(a))))

    def claim_disjoint(self, a, b):
        return self.smt_empty(z3.Intersect(a, b))

    # ---- witnesses back to real strings
    def realize(self, w, prefer=None):
        """map a witness over representative symbols to a real subject string"""
        out = []
        for ch in w:
            k = self.block_of_rep.get(ch)
            if k is None:
                out.append(ch)
                continue
            ivs = self.blocks[k][1]
            pick = None
            # prefer a printable ASCII member, else the smallest member
            for lo, hi in ivs:
                for c in range(max(lo, 0x20), min(hi, 0x7E) + 1):
                    pick = c
                    break
                if pick is not None:
                    break
            if pick is None:
                pick = ivs[0][0]
            out.append(pick)
        if self.is_bytes:
            return bytes(c if isinstance(c, int) else ord(c) for c in out)
        return "".join(chr(c) if isinstance(c, int) else c for c in out)

    def erase(self, w):
        """drop the marker symbols of a witness"""
        marks = {sym for sym, _r in self.markers.values()}
        return "".join(ch for ch in w if ch not in marks)

    def representatives(self):
        """one real string per alphabet block (for bounded enumeration over the minterm alphabet)"""
        self.finalize()
        return [self.realize(self.rep[k]) for k in range(len(self.blocks))]


class TranslationFault(Exception):
    """the SMT language built for a pattern disagrees with CPython's re on a concrete subject: the checker
    itself is wrong (no verdict may be derived from this run)"""


def crosscheck(env, pats=None, how="match", groups=None, limit=3000, max_len=6):
    """Guard of the translation itself (bounded, not part of any proof): all subjects up to the length that fits
    `limit`, over one representative character per alphabet block, are run through the real compiled pattern and
    through the SMT language (concrete membership is decided by z3's simplifier).  With `groups`, the spans that re
    reports must be one of the bracketings of marked_lang.  Returns the number of subjects compared."""
    import itertools
    env.finalize()
    reps = env.representatives()
    syms = [env.rep[k] for k in range(len(env.blocks))]
    n = 0
    for p in (pats if pats is not None else env.pats):
        fn = getattr(p.compiled, how)
        L = env.lang(p, how)
        gs = [g for g in (groups or {}).get(p.name, [])]
        ML = env.marked_lang(p, gs, how) if gs else None
        budget = limit
        for ln in range(0, max_len + 1):
            if len(reps) ** ln > budget:
                break
            budget -= len(reps) ** ln
            for tup in itertools.product(range(len(reps)), repeat=ln):
                if env.is_bytes:
                    real = b"".join(reps[i] for i in tup)
                else:
                    real = "".join(reps[i] for i in tup)
                sym = "".join(syms[i] for i in tup)
                m = fn(real)
                r = z3.simplify(z3.InRe(z3.StringVal(sym), L))
                n += 1
                if z3.is_true(r) != (m is not None) or not (z3.is_true(r) or z3.is_false(r)):
                    raise TranslationFault("pattern %s, subject %r: re says %s, SMT language says %s"
                                           % (p.name, real, m is not None, r))
                if m and ML is not None:
                    cuts = []
                    for g in gs:
                        a, b = m.span(g)
                        if a >= 0:
                            cuts.append((a, 0, env.markers["<%s" % g][0]))
                            cuts.append((b, 1, env.markers["%s>" % g][0]))
                    # nested / adjacent groups: closing markers of inner groups come first at equal positions only when
                    # the group is non-empty; the patterns this is used for have no adjacent empty groups
                    w, last = "", 0
                    for pos, _k, mark in sorted(cuts, key=lambda c: (c[0], c[1] == 0 and 1 or 0)):
                        w += sym[last:pos] + mark
                        last = pos
                    w += sym[last:]
                    r = z3.simplify(z3.InRe(z3.StringVal(w), ML))
                    if not z3.is_true(r):
                        raise TranslationFault("pattern %s, subject %r: group spans of re are not in the marked language"
                                               % (p.name, real))
    return n


def _has_anchor(items):
    for op, av in items:
        nm = _opname(op)
        if nm == "AT":
            return True
        if nm == "SUBPATTERN" and _has_anchor(av[3]):
            return True
        if nm in ("MAX_REPEAT", "MIN_REPEAT", "POSSESSIVE_REPEAT") and _has_anchor(av[2]):
            return True
        if nm == "BRANCH" and any(_has_anchor(a) for a in av[1]):
            return True
    return False


def _has_group(items, gids):
    for op, av in items:
        nm = _opname(op)
        if nm == "SUBPATTERN" and (av[0] in gids or _has_group(av[3], gids)):
            return True
        if nm in ("MAX_REPEAT", "MIN_REPEAT", "POSSESSIVE_REPEAT") and _has_group(av[2], gids):
            return True
        if nm == "BRANCH" and any(_has_group(a, gids) for a in av[1]):
            return True
    return False


def find_group(p, name_or_index):
    """(prefix_items, group_items, suffix_items, optional?, lazy?) for a top-level group of the pattern
    (possibly wrapped in an optional repeat / non-capturing group one level up)"""
    gid = p.groupindex.get(name_or_index, name_or_index)
    items = list(p.tree)
    return _find_group(items, gid)


def _find_group(items, gid):
    for i, (op, av) in enumerate(items):
        nm = _opname(op)
        if nm == "SUBPATTERN" and av[0] == gid:
            return items[:i], list(av[3]), items[i + 1:], None
        if nm == "SUBPATTERN":
            r = _find_group(list(av[3]), gid)
            if r is not None:
                pre, g, suf, rep = r
                return items[:i] + pre, g, suf + items[i + 1:], rep
        if nm in ("MAX_REPEAT", "MIN_REPEAT"):
            r = _find_group(list(av[2]), gid)
            if r is not None:
                pre, g, suf, rep = r
                if (av[0], av[1]) != (0, 1):
                    raise Unsupported("capturing group inside a repetition other than ?")
                return ("optional", nm, items[:i], pre, g, suf, items[i + 1:])
    return None
