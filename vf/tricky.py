"""Text fragments that independent reviewers' seeded changes keep turning on: strings that some reader, formatter or
Python str method treats specially although the Debian formats give them no meaning.  The bounded generators mix them
into values, names and tokens (each generator picks the ones that are inside the domain of its property)."""

# inside a value / line of text (no newline, no Python-only whitespace)
VALUE_BITS = ["%s", "%(a)d 5%%", "100%", "{0} {x}", "$HOME", "a;b", "a,b", "x, y", "a:b", "#hash", "\\n", "back\\slash", "'q' \"d\"",
              "-----BEGIN PGP SIGNATURE-----", "-----END PGP SIGNATURE-----", "-----BEGIN PGP SIGNED MESSAGE-----", "-----",
              "Hash: SHA256", ".", "..", "~", "+", "٣７²", "Kıſ", "éÉ", "x\x7fy", "<a> [b] (c)",
              "Rene\u0301 Mu\u0308ller", "\u212b \u2126 \ufb01"]      # not in any Unicode normal form: text is code points, never normalised

# characters Python treats as whitespace / line boundaries but the formats do not define (outside the domain of most
# properties; used where the property explicitly covers arbitrary text)
EXOTIC_SPACE = ["\x0b", "\x0c", "\x1c", "\x1d", "\x1e", "\x1f", "\x85", "\xa0", " ", " ", " ", "　"]

# single words without any whitespace
WORDS = ["%s", "100%", "{0}", "a;b", "a:b", "#h", "-----BEGIN", "X-----", "٣", "７", "K", "x\x7fy", "+", "~", ".", "a_b"]
