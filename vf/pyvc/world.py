"""World: modules under check, sidecar contracts, speclib; function verification driver."""
import ast
import os
import time

import z3

from vf.runner import Unsupported
from vf.pyvc import extract
from vf.pyvc.interp import (Ex, Frame, LoopSpec, Obl, PathEnd, PyRaise, VExc, _Return, _is_generator,
                            _walk_shallow)
from vf.pyvc.values import (V, VInt, VBool, NONE, VSeq, VBox, VTuple, VOpt, VObj, VPy, VFunc, VClass, unwrap,
                            fresh, fresh_name, reset_names, type_of, lift, wrap, unwrap, sort_of)


class Contract:
    """Sidecar contract of one real function.  Text fields are Python expressions over the
    parameters, `result`, `old(e)`, `forall(i, lo, hi, body)`, `implies(a, b)` and spec functions."""
    target = None           # "debian.arfile:ArMember.readline"
    modular = True          # callers use this contract instead of the body
    requires = ()
    ensures = ()
    raises = {}             # exception class name -> tuple of ensures texts (may be empty tuple)
    loops = {}              # ordinal -> LoopSpec
    modifies = ()           # heap locations as expressions ("self.__cur"); everything else is framed
    returns = None          # type descriptor of the result (for modular calls)
    yields = None           # element type descriptor when the function is a generator
    raises_modifies = {}    # exception class name -> modifies list for that exceptional exit (default: `modifies`)
    ghost_final = ()        # ((location, expression), ...): ghost assignments performed at the normal exit of the
                            # function under verification, before `ensures` is checked.  For a ghost array the
                            # expression gives the element at index `i` (total definition: always consistent).
    ghosts = ()             # ghost parameters of the contract (e.g. the number of members); a caller supplies
                            # the witness through a variable of the same name in its own contract
    locals_order = None     # first-binding order of parameters and locals when the contract was written (for pure renames)

    def setup(self, ex):
        """Build the symbolic pre-state; return {param: V}."""
        raise NotImplementedError

    @property
    def module(self):
        return self.target.split(":")[0]

    @property
    def qualname(self):
        return self.target.split(":")[1]


class World:
    def __init__(self, speclib, spec_env=None):
        self.speclib = speclib
        self.spec_env = dict(spec_env or {})
        self.contracts = {}         # (module, qualname) -> Contract
        self.heap_classes = {}      # class name -> {field: type}: instances are VRef, fields live in the array heap
        self.vcgen_budget = float(os.environ.get("VERIF_VCGEN_BUDGET") or 120)
        self.setattr_hooks = {}
        self._loop_ord = {}
        self._expr_cache = {}
        self._class_mod = {}
        self.modules = {}
        self.comp_funcs = {}
        self.comp_by_func = {}
        self.quantified_search = False   # emit the quantified half of the first-occurrence axioms
        self.range_facts = False         # emit "every byte is 0..255" / "every code point is valid"

    # -- modules
    def module(self, modname):
        if modname not in self.modules:
            m = extract.load(modname)
            self.modules[modname] = m
            for cn in list(m.classes):
                self._class_mod.setdefault(cn.replace("?cond:", ""), m)
        return self.modules[modname]

    def module_of_class(self, clsname):
        return self._class_mod.get(clsname)

    # -- contracts
    def add_contract(self, c):
        self.contracts[(c.module, c.qualname)] = c
        self.module(c.module)

    def contract_for_func(self, f):
        if f is None or f.module is None or f.node is None:
            return None
        return self.contracts.get((f.module.modname, f.name))

    def loop_ordinals(self, f):
        if f is None or f.node is None:
            return {}
        key = id(f.node)
        if key not in self._loop_ord:
            loops = [n for n in _walk_shallow(f.node) if isinstance(n, (ast.For, ast.While))]
            loops.sort(key=lambda n: (n.lineno, n.col_offset))
            self._loop_ord[key] = {id(n): i for i, n in enumerate(loops)}
        return self._loop_ord[key]

    def parse_expr(self, text):
        if text not in self._expr_cache:
            self._expr_cache[text] = ast.parse(text.strip(), mode="eval").body
        return self._expr_cache[text]

    def spec_func(self, fn, name=None, rec=None):
        """Register a Python function of the sidecar as a spec function: its own AST is executed
        by the same executor (symbolic reading); CPython executes it for replays (native twin)."""
        import inspect
        import textwrap
        src = textwrap.dedent(inspect.getsource(fn))
        node = ast.parse(src).body[0]
        node.decorator_list = []
        vf = VFunc("user", "spec:" + (name or fn.__name__), node=node, module=None)
        vf.native = fn
        if rec is not None:
            vf.rec = rec
        self.spec_env[name or fn.__name__] = vf
        return fn

    # -- modular call
    def modular_call(self, ex, c, f, args, kwargs, node=None):
        vals = ex.bind_args(f, args, kwargs)
        fr = Frame(VFunc("user", f.name, node=f.node, cls=f.cls, module=f.module), None)
        fr.vars.update(vals)
        for g in c.ghosts:
            gv = None
            for fr_ in reversed(ex.frames):          # the nearest enclosing (inlined) caller that has a witness
                gv = fr_.lookup(g)
                if gv is not None:
                    break
            if gv is None:
                raise Unsupported("modular call of %s: no witness for ghost parameter %r in the caller" % (c.qualname, g))
            fr.vars[g] = gv
        ex.frames.append(fr)
        ex.spec_mode += 1
        saved_old, saved_mode = ex.old, ex.old_mode
        try:
            for i, r in enumerate(c.requires):
                ex.oblige("call %s requires[%d]" % (c.qualname, i), ex.truth(ex.eval_text(r)), kind="call-pre")
            snap = ex.snapshot(list(vals.values()))
            for k, v in vals.items():
                snap["var:" + k] = v
            # exceptional outcomes whose frame is empty are decided before the normal-exit havoc
            for ename, posts in c.raises.items():
                if c.raises_modifies.get(ename, None) == ():
                    flag = z3.Bool(fresh_name("raises_%s_%s" % (c.qualname.replace(".", "_"), ename)))
                    if ex.branch(flag):
                        ex.old = snap
                        for p in posts:
                            ex.assume(ex.truth(ex.eval_text(p)))
                        import builtins
                        pycls = getattr(builtins, ename, None) or getattr(f.module.real(), ename)
                        raise PyRaise(VExc(pycls, []))
            # havoc the frame
            for loc in c.modifies:
                n = ast.parse(loc, mode="eval").body
                if isinstance(n, ast.Attribute) and isinstance(n.value, ast.Name) and n.value.id in self.heap_classes:
                    # a whole heap field of a reference class: "LinkedListNode.next_node"
                    key = (n.value.id, n.attr)
                    ex.heap_array(*key)
                    ex.heap[key] = z3.Const(fresh_name("heap_%s_%s" % key), ex.heap[key].sort())
                    continue
                if isinstance(n, ast.Name) and n.id == "allocation":
                    cur = ex.alloc_counter()
                    ex.next_ref = z3.Int(fresh_name("next_ref"))
                    ex.assume(ex.next_ref >= cur)
                    continue
                if isinstance(n, ast.Attribute):
                    obj = ex.eval(n.value)
                    if isinstance(obj, VOpt):
                        obj = obj.val
                    from vf.pyvc.interp import mangle
                    name = mangle(n.attr, f.cls)
                    if obj is NONE:
                        continue        # e.g. self.__fp.pos while self.__fp is None: nothing to havoc
                    ty = getattr(c, "field_types", {}).get(name)
                    if isinstance(obj, VObj) and ty is not None:
                        obj.fields[name] = self.speclib.fresh_typed(ex, ty, name)
                    elif isinstance(obj, VObj) and name in obj.fields:
                        obj.fields[name] = ex.havoc_value(obj.fields[name], name)
                    elif isinstance(obj, VObj):
                        raise Unsupported("modifies %s: no such field" % loc)
                elif isinstance(n, ast.Name):
                    b = fr.lookup(n.id)
                    if isinstance(b, VBox):
                        ex.havoc_box(b, n.id)
                else:
                    raise Unsupported("modifies %s" % loc)
            ex.old = snap
            # exceptional outcomes
            for ename, posts in c.raises.items():
                if c.raises_modifies.get(ename, None) == ():
                    continue
                flag = z3.Bool(fresh_name("raises_%s_%s" % (c.qualname.replace(".", "_"), ename)))
                if ex.branch(flag):
                    for p in posts:
                        ex.assume(ex.truth(ex.eval_text(p)))
                    import builtins
                    pycls = getattr(builtins, ename, None) or getattr(f.module.real(), ename)
                    raise PyRaise(VExc(pycls, []))
            result = NONE
            if c.returns is not None:
                result = self.speclib.fresh_typed(ex, c.returns, "ret_" + c.qualname.split(".")[-1])
            fr.vars["result"] = result
            for p in c.ensures:
                ex.assume(ex.truth(ex.eval_text(p)))
            return result
        finally:
            ex.old, ex.old_mode = saved_old, saved_mode
            ex.spec_mode -= 1
            ex.frames.pop()

    # -- verification of one function against its contract
    def verify(self, c, max_paths=4000):
        """Returns (obligations: [Obl], stats).  Raises Unsupported when the current text of the
        function is outside the encoded subset."""
        mod = self.module(c.module)
        node, cname = mod.lookup(c.qualname)
        if node is None:
            raise Unsupported("function %s not found in %s" % (c.qualname, mod.path))
        f = VFunc("user", c.qualname, node=node, cls=cname, module=mod)
        stack = [[]]
        all_obls = []
        t_start = time.time()
        stats = dict(paths=0, normal=0, exceptional=0, cut=0, feasible_normal=False)
        while stack:
            prefix = stack.pop()
            stats["paths"] += 1
            if stats["paths"] > max_paths:
                raise Unsupported("more than %d paths in %s" % (max_paths, c.qualname))
            if time.time() - t_start > self.vcgen_budget:
                raise Unsupported("path exploration of %s exceeded %d s (%d paths so far)" % (c.qualname, self.vcgen_budget, stats["paths"]))
            reset_names()
            ex = Ex(self, prefix)
            ex.contract = c
            if c.locals_order:
                from vf.pyvc.interp import binding_order
                actual = binding_order(node)
                if actual != list(c.locals_order) and len(actual) == len(c.locals_order):
                    ex.rename_map = {a: b for a, b in zip(c.locals_order, actual) if a != b}
            try:
                self.run_path(ex, c, f, stats)
            except PathEnd:
                stats["cut"] += 1
            stack.extend(ex.forks)
            tag = "".join("T" if d else "F" for d in ex.decisions[:ex.dpos])
            for o in ex.obls:
                o.name = "%s %s [path %s]" % (c.qualname, o.name, tag or "-")
                all_obls.append(o)
        return all_obls, stats

    def run_path(self, ex, c, f, stats):
        fr = Frame(f, None)
        ex.frames.append(fr)
        ex.spec_mode += 1
        try:
            params = c.setup(ex)
            fr.vars.update(params)
            for r in c.requires:
                ex.assume(ex.truth(ex.eval_text(r)))
        finally:
            ex.spec_mode -= 1
        snap = ex.snapshot(list(params.values()))
        for k, v in params.items():
            snap["var:" + k] = v
        ex.old = snap
        gen = _is_generator(f.node)
        if gen:
            ex.yields = VBox("list", VSeq("list", c.yields, z3.Empty(sort_of(("list", c.yields)))), "yields")
        outcome, value = "normal", NONE
        try:
            ex.exec_block(f.node.body)
        except _Return as r:
            value = r.value
        except PyRaise as pr:
            outcome, value = "raise", pr.exc
        if gen and outcome == "normal":
            value = ex.yields
        fr.vars["result"] = value
        ex.spec_mode += 1
        try:
            if outcome == "normal":
                stats["normal"] += 1
                if ex.sat_now():
                    stats["feasible_normal"] = True
                self.apply_ghost_final(ex, c, fr)
                for i, text in enumerate(c.ensures):
                    for j, conj in enumerate(_conjuncts(self.parse_expr(text))):
                        _mark_goal(conj)
                        ex.oblige("ensures[%d.%d] %s" % (i, j, _short(conj)), ex.truth(ex.eval(conj)), kind="post")
                self.frame_check(ex, c, f, snap)
                # vacuity probe: "this normal path is infeasible" must NOT be provable for at least one
                # normal path of the function (infeasible paths the pruning solver could not see are fine)
                if stats.get("probes", 0) < getattr(c, "max_probes", 3):
                    stats["probes"] = stats.get("probes", 0) + 1
                    ex.oblige("vacuity probe: path condition of a normal path is satisfiable", False, kind="probe")
            else:
                stats["exceptional"] += 1
                ename = None
                for k in c.raises:
                    import builtins
                    pk = getattr(builtins, k, None) or getattr(f.module.real(), k, None)
                    if pk is not None and issubclass(value.pycls, pk):
                        ename = k
                        break
                where = getattr(value.node, "lineno", "?")
                if ename is None:
                    ex.oblige("no %s (raised at line %s)" % (value.pycls.__name__, where), False, kind="no-raise")
                else:
                    for i, text in enumerate(c.raises[ename]):
                        for j, conj in enumerate(_conjuncts(self.parse_expr(text))):
                            _mark_goal(conj)
                            ex.oblige("raises %s[%d.%d] %s" % (ename, i, j, _short(conj)),
                                      ex.truth(ex.eval(conj)), kind="exc-post")
                    self.frame_check(ex, c, f, snap, exceptional=ename)
        finally:
            ex.spec_mode -= 1
            ex.frames.pop()

    def apply_ghost_final(self, ex, c, fr):
        from vf.pyvc.values import VArr, VRef
        from vf.pyvc.interp import mangle
        todo = []
        for loc, expr in c.ghost_final:
            n = ast.parse(loc, mode="eval").body
            if not isinstance(n, ast.Attribute):
                raise Unsupported("ghost_final location %s" % loc)
            obj = ex.eval(n.value)
            cur = obj.fields.get(n.attr)
            if isinstance(cur, VArr):
                iv = z3.Int(fresh_name("gi"))
                saved = fr.vars.get("i")
                idx_cls = getattr(c, "ghost_index", {}).get(loc)       # arrays indexed by references: `i` is a reference
                fr.vars["i"] = VRef(idx_cls, iv) if idx_cls else VInt(iv)
                try:
                    val = ex.eval_guarded(ast.parse(expr, mode="eval").body, z3.BoolVal(True))
                finally:
                    if saved is None:
                        fr.vars.pop("i", None)
                    else:
                        fr.vars["i"] = saved
                new = z3.Const(fresh_name("ghost_" + n.attr), cur.t.sort())
                todo.append((obj, n.attr, VArr(cur.ety, new),
                             z3.ForAll([iv], z3.Select(new, iv) == unwrap(cur.ety, val), patterns=[z3.Select(new, iv)])))
            else:
                todo.append((obj, n.attr, ex.eval_text(expr), None))
        for obj, attr, val, ax in todo:          # simultaneous assignment: all right-hand sides saw the old ghost state
            obj.fields[attr] = val
            if ax is not None:
                ex.define(ax)

    def frame_check(self, ex, c, f, snap, exceptional=None):
        """Everything reachable from the parameters that is not listed in `modifies` is unchanged."""
        from vf.pyvc.interp import mangle
        allowed = set()
        mods = list(c.raises_modifies.get(exceptional, c.modifies)) if exceptional else list(c.modifies)
        for loc in mods:
            n = ast.parse(loc, mode="eval").body
            if isinstance(n, ast.Attribute):
                prev = ex.old_mode
                ex.old_mode = True
                try:
                    obj = ex.eval(n.value)
                finally:
                    ex.old_mode = prev
                if isinstance(obj, VOpt):
                    obj = obj.val
                allowed.add((id(obj), mangle(n.attr, f.cls)))
                fv = snap.get(id(obj), {}).get(mangle(n.attr, f.cls)) if isinstance(snap.get(id(obj)), dict) else None
                if isinstance(fv, VBox):
                    allowed.add((id(fv), None))      # a mutable container held in the field: its content may change too
            elif isinstance(n, ast.Name):
                b = ex.frame().lookup(n.id)
                allowed.add((id(b), None))
        heap_allowed = set()
        for loc in mods:
            n = ast.parse(loc, mode="eval").body
            if isinstance(n, ast.Attribute) and isinstance(n.value, ast.Name) and n.value.id in self.heap_classes:
                heap_allowed.add((n.value.id, n.attr))
        for key, arr in sorted(ex.heap.items()):
            before = snap.get("$heap", {}).get(key)
            if before is None:
                before = z3.Const("heap0_%s_%s" % key, arr.sort())
            if key not in heap_allowed and not arr.eq(before):
                ex.oblige("frame heap field %s.%s unchanged" % key, arr == before, kind="frame")
        seen = set()

        def walk(v, path):
            if id(v) in seen:
                return
            seen.add(id(v))
            if isinstance(v, VObj) and id(v) in snap:
                before = snap[id(v)]
                for name in sorted(set(before) | set(v.fields)):
                    b, a = before.get(name), v.fields.get(name)
                    if (id(v), name) not in allowed and b is not a:
                        if b is None:
                            # an attribute the contract's object model does not have: the contract cannot say whether it matters
                            raise Unsupported("the function stores %s.%s, an attribute the contract's object model does not have"
                                              % (path, name))
                        if a is None:
                            ex.oblige("frame %s.%s unchanged" % (path, name), False, kind="frame")
                        else:
                            try:
                                ex.oblige("frame %s.%s unchanged" % (path, name), ex.eq(a, b), kind="frame")
                            except Unsupported:
                                ex.oblige("frame %s.%s unchanged" % (path, name), False, kind="frame")
                    if isinstance(b, V):
                        walk(b, path + "." + name)
            elif isinstance(v, VBox) and id(v) in snap:
                if (id(v), None) not in allowed and snap[id(v)] is not v.val:
                    a, b = v.val, snap[id(v)]
                    if isinstance(a, VSeq) and isinstance(b, VSeq):
                        ex.oblige("frame %s unchanged" % path, ex.eq(a, b), kind="frame")
                    elif isinstance(a, tuple) and v.kind == "iter":
                        ex.oblige("frame %s unchanged" % path, a[1].t == b[1].t, kind="frame")
                    else:
                        r = self.speclib.box_equal(ex, v, a, b)
                        ex.oblige("frame %s unchanged" % path, r, kind="frame")
            elif isinstance(v, VOpt):
                walk(v.val, path)
            elif isinstance(v, VTuple):
                for i, x in enumerate(v.items):
                    walk(x, "%s[%d]" % (path, i))
        for k in sorted(k for k in snap if isinstance(k, str) and k.startswith("var:")):
            walk(snap[k], k[4:])


def _conjuncts(node):
    if isinstance(node, ast.BoolOp) and isinstance(node.op, ast.And):
        out = []
        for v in node.values:
            out.extend(_conjuncts(v))
        return out
    return [node]


def _mark_goal(node):
    # a top-level `a == b` of an ensures clause is in goal position: a sufficient condition on
    # view bounds may be used for it (see Ex.eq)
    if isinstance(node, ast.Compare) and len(node.ops) == 1 and isinstance(node.ops[0], ast.Eq):
        node._goal = True


def _short(node):
    s = ast.unparse(node)
    return s if len(s) <= 70 else s[:67] + "..."


def to_smt2(obl, extra_axioms=()):
    s = z3.Solver()
    for a in extra_axioms:
        s.add(a)
    for a in getattr(obl, "axioms", ()):
        s.add(a)
    for p in obl.pc:
        s.add(p)
    s.add(z3.Not(obl.goal))
    text = s.to_smt2()
    # z3's simplifier splits seq.nth into its in-range / out-of-range halves (seq.nth_i, seq.nth_u),
    # which only z3 understands; seq.nth == ite(in range, nth_i, nth_u), so mapping both back to
    # seq.nth restores the original term and keeps the VC portable (cvc5).
    return text.replace("seq.nth_i", "seq.nth").replace("seq.nth_u", "seq.nth")
