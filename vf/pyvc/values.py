"""Symbolic value universe of the VC generator (DESIGN 2.2).

int   -> mathematical Int          bool -> Bool          None -> NONE
str   -> Seq Int of code points    bytes -> Seq Int of 0..255
list  -> Seq T (mutable *box*: aliasing is Python object identity of the box)
tuple -> VTuple (fixed arity)      Optional[T] -> VOpt(isnone, T)
objects with concrete identity -> VObj boxes (field dict); symbolic references -> VRef + array heap
Slices of str/bytes/list values are *views* (buf, lo, hi) over an un-nested buffer term.
"""
import z3

I = z3.IntSort()
B = z3.BoolSort()
SeqI = z3.SeqSort(I)
SeqSeqI = z3.SeqSort(SeqI)

_cnt = [0]


def fresh_name(base):
    _cnt[0] += 1
    return "%s!%d" % (base, _cnt[0])


def reset_names():
    _cnt[0] = 0


class V:
    pass


class VInt(V):
    def __init__(self, t):
        self.t = z3.IntVal(t) if isinstance(t, int) else t

    def py(self):
        s = z3.simplify(self.t)
        return s.as_long() if z3.is_int_value(s) else None

    def __repr__(self):
        return "VInt(%s)" % self.t


class VBool(V):
    def __init__(self, t):
        self.t = z3.BoolVal(t) if isinstance(t, bool) else t

    def __repr__(self):
        return "VBool(%s)" % self.t


class _None(V):
    def __repr__(self):
        return "NONE"


NONE = _None()


class VSeq(V):
    """str / bytes / list.  `t` is always an un-nested z3 term for the content; when `view` is
    set, content == extract(buf, lo, hi-lo) with 0 <= lo <= hi <= len(buf) (asserted as facts
    by whoever created the view)."""

    def __init__(self, kind, ety, t, view=None, py=None):
        self.kind = kind      # 'str' | 'bytes' | 'list'
        self.ety = ety        # element type descriptor ('int' for str/bytes)
        self._t = t
        self.view = view      # (buf_term, lo_term, hi_term) or None
        self.pyval = py       # concrete Python value when known (constants)

    @property
    def t(self):
        if self._t is None:
            buf, lo, hi = self.view
            self._t = z3.SubSeq(buf, lo, hi - lo)
        return self._t

    def length(self):
        if self.pyval is not None:
            return z3.IntVal(len(self.pyval))
        if self.view is not None:
            return self.view[2] - self.view[1]
        return z3.Length(self._t)

    def __repr__(self):
        if self.pyval is not None:
            return "VSeq(%s %r)" % (self.kind, self.pyval)
        return "VSeq(%s %s)" % (self.kind, self.view if self.view else self._t)


class VBox(V):
    """Mutable container with identity: list / iterator / dict / set created or received by the
    function under verification.  `val` is the current immutable symbolic content."""

    def __init__(self, kind, val, name="box"):
        self.kind = kind      # 'list' | 'iter' | 'dict' | 'set'
        self.val = val
        self.name = name

    def __repr__(self):
        return "VBox(%s %s)" % (self.kind, self.val)


class VTuple(V):
    def __init__(self, items):
        self.items = list(items)

    def __repr__(self):
        return "VTuple(%s)" % (self.items,)


class VOpt(V):
    def __init__(self, isnone, val):
        self.isnone = isnone
        self.val = val

    def __repr__(self):
        return "VOpt(%s, %s)" % (self.isnone, self.val)


class VObj(V):
    """Object with concrete identity; fields hold V values."""

    def __init__(self, cls, fields=None, name="obj"):
        self.cls = cls          # class name (str)
        self.fields = fields if fields is not None else {}
        self.name = name

    def __repr__(self):
        return "VObj(%s %s)" % (self.cls, self.name)


class VRef(V):
    """Reference to an object of a heap-allocated class (world.heap_classes): a mathematical integer, 0 is None.
    Fields live in one array per (class, field) in the executor's heap; identity is integer equality."""

    def __init__(self, cls, t):
        self.cls = cls
        self.t = z3.IntVal(t) if isinstance(t, int) else t

    def __repr__(self):
        return "VRef(%s %s)" % (self.cls, self.t)


class VArr(V):
    """Ghost array (specification only): total map Int -> T, used for the abstract sequence of a linked structure
    (ns[i] = i-th node) together with an explicit length."""

    def __init__(self, ety, t):
        self.ety = ety
        self.t = t

    def __repr__(self):
        return "VArr(%s %s)" % (self.ety, self.t)


class DictVal:
    """immutable content of a dict box: key set + value array (values at absent keys are junk that is
    carried along unchanged, so equality of two DictVals implies equality of the dicts)"""

    def __init__(self, kty, vty, keys, vals):
        self.kty, self.vty, self.keys, self.vals = kty, vty, keys, vals


def empty_dict(kty, vty):
    ks, vs = sort_of(kty), sort_of(vty)
    junk = z3.Const("dict0_%s_%s" % (str(ks).replace(" ", ""), str(vs).replace(" ", "")), z3.ArraySort(ks, vs))
    return DictVal(kty, vty, z3.K(ks, z3.BoolVal(False)), junk)


class VPy(V):
    """A concrete Python object the code only passes around / calls speclib on
    (compiled patterns, modules, exception classes, real classes)."""

    def __init__(self, obj):
        self.obj = obj

    def __repr__(self):
        return "VPy(%r)" % (self.obj,)


class VFunc(V):
    def __init__(self, kind, name, fn=None, node=None, closure=None, cls=None, selfv=None, module=None):
        self.kind = kind        # 'user' | 'builtin'
        self.name = name
        self.fn = fn            # builtin: callable(ex, args, kwargs)
        self.node = node        # user: ast.FunctionDef / ast.Lambda
        self.closure = closure  # user: enclosing Frame or None
        self.cls = cls          # lexically enclosing class name (for name mangling)
        self.selfv = selfv      # bound receiver
        self.module = module

    def bind(self, selfv):
        return VFunc(self.kind, self.name, self.fn, self.node, self.closure, self.cls, selfv, self.module)

    def __repr__(self):
        return "VFunc(%s)" % self.name


class VClass(V):
    def __init__(self, name, info):
        self.name = name
        self.info = info

    def __repr__(self):
        return "VClass(%s)" % self.name


# --------------------------------------------------------------------------- type descriptors

_tuple_sorts = {}

# Classes whose instances may be stored in lists / dicts *by value* (struct of their fields): sound
# for functions that do not mutate such an object after storing it and do not compare identities.
# cls -> [(field name, type)], type in int/bool/str/bytes/('opt', T)/'objnone' (only the None-ness of
# an object-valued field is kept).
REC_CLASSES = {}
_rec_sorts = {}


def rec_sort(cls):
    if cls not in _rec_sorts:
        dt = z3.Datatype("Rec_" + cls)
        comps = []
        for fname, ty in REC_CLASSES[cls]:
            base = fname.strip("_").replace("__", "_")
            if ty == "objnone":
                comps.append((base + "_none", B))
            elif isinstance(ty, tuple) and ty[0] == "opt":
                comps.append((base + "_none", B))
                comps.append((base + "_val", sort_of(ty[1])))
            else:
                comps.append((base, sort_of(ty)))
        dt.declare("mk_" + cls, *comps)
        srt = dt.create()
        _rec_sorts[cls] = (srt, srt.constructor(0), [srt.accessor(0, i) for i in range(len(comps))])
    return _rec_sorts[cls]


_opt_sorts = {}


def _opt_sort(inner):
    key = repr(inner)
    if key not in _opt_sorts:
        nm = "Opt_" + "".join(ch if ch.isalnum() else "_" for ch in str(sort_of(inner)))
        _opt_sorts[key] = z3.TupleSort(nm, [B, sort_of(inner)])
    return _opt_sorts[key]


_dict_sorts = {}


def _dict_sort(kty, vty):
    """a dict held BY VALUE inside another container (key set + value array); identity and aliasing are not modelled, the
    interpreter refuses to mutate a dict that was read out of / stored into a by-value position"""
    key = repr((kty, vty))
    if key not in _dict_sorts:
        ks, vs = sort_of(kty), sort_of(vty)
        nm = "Dict_" + "".join(ch if ch.isalnum() else "_" for ch in "%s_%s" % (ks, vs))
        _dict_sorts[key] = z3.TupleSort(nm, [z3.ArraySort(ks, B), z3.ArraySort(ks, vs)])
    return _dict_sorts[key]


def _default(ty):
    if isinstance(ty, tuple) and ty[0] in ("opt", "rec", "tuple"):
        return z3.Const("junk_" + "".join(ch if ch.isalnum() else "_" for ch in str(sort_of(ty))), sort_of(ty))
    if ty == "int":
        return z3.IntVal(0)
    if ty == "bool":
        return z3.BoolVal(False)
    return z3.Empty(sort_of(ty))


def sort_of(ty):
    if ty in ("int",):
        return I
    if ty == "bool":
        return B
    if ty in ("str", "bytes"):
        return SeqI
    if isinstance(ty, tuple) and ty[0] == "list":
        return z3.SeqSort(sort_of(ty[1]))
    if isinstance(ty, tuple) and ty[0] == "ref":
        return I
    if isinstance(ty, tuple) and ty[0] == "arr":
        return z3.ArraySort(I, sort_of(ty[1]))
    if isinstance(ty, tuple) and ty[0] == "rec":
        return rec_sort(ty[1])[0]
    if isinstance(ty, tuple) and ty[0] == "dict":
        return _dict_sort(ty[1], ty[2])[0]
    if isinstance(ty, tuple) and ty[0] == "opt":
        return _opt_sort(ty[1])[0]
    if isinstance(ty, tuple) and ty[0] == "tuple":
        key = tuple(ty[1])
        if key not in _tuple_sorts:
            nm = "Tup_" + "_".join(str(sort_of(x)).replace(" ", "").replace("(", "L").replace(")", "R")
                                   for x in key)
            _tuple_sorts[key] = z3.TupleSort(nm, [sort_of(x) for x in key])
        return _tuple_sorts[key][0]
    raise TypeError("no sort for type %r" % (ty,))


def wrap(ty, term):
    """z3 term of sort_of(ty) -> V"""
    if ty == "int":
        return VInt(term)
    if ty == "bool":
        return VBool(term)
    if ty in ("str", "bytes"):
        return VSeq(ty, "int", term)
    if isinstance(ty, tuple) and ty[0] == "list":
        return VSeq("list", ty[1], term)
    if isinstance(ty, tuple) and ty[0] == "ref":
        return VRef(ty[1], term)
    if isinstance(ty, tuple) and ty[0] == "arr":
        return VArr(ty[1], term)
    if isinstance(ty, tuple) and ty[0] == "tuple":
        _, mk, accs = _tuple_sorts[tuple(ty[1])] if tuple(ty[1]) in _tuple_sorts else (sort_of(ty), None, None)
        _, mk, accs = _tuple_sorts[tuple(ty[1])]
        return VTuple([wrap(t, a(term)) for t, a in zip(ty[1], accs)])
    if isinstance(ty, tuple) and ty[0] == "opt":
        srt, mk, accs = _opt_sort(ty[1])
        return VOpt(accs[0](term), wrap(ty[1], accs[1](term)))
    if isinstance(ty, tuple) and ty[0] == "dict":
        srt, mk, accs = _dict_sort(ty[1], ty[2])
        b = VBox("dict", DictVal(ty[1], ty[2], accs[0](term), accs[1](term)), "byvalue")
        b.frozen = True
        return b
    if isinstance(ty, tuple) and ty[0] == "rec":
        srt, mk, accs = rec_sort(ty[1])
        fields = {}
        i = 0
        for fname, fty in REC_CLASSES[ty[1]]:
            if fty == "objnone":
                fields[fname] = VOpt(accs[i](term), VPy("<object not kept in a by-value record>"))
                i += 1
            elif isinstance(fty, tuple) and fty[0] == "opt":
                fields[fname] = VOpt(accs[i](term), wrap(fty[1], accs[i + 1](term)))
                i += 2
            else:
                fields[fname] = wrap(fty, accs[i](term))
                i += 1
        o = VObj(ty[1], fields, "rec")
        o.frozen = True
        return o
    raise TypeError("wrap %r" % (ty,))


def unwrap(ty, v):
    """V -> z3 term of sort_of(ty)"""
    if ty == "int":
        if isinstance(v, VBool):
            return z3.If(v.t, 1, 0)
        return v.t
    if ty == "bool":
        return v.t
    if ty in ("str", "bytes"):
        return v.t
    if isinstance(ty, tuple) and ty[0] == "ref":
        if v is NONE:
            return z3.IntVal(0)
        if isinstance(v, VOpt):
            return z3.If(v.isnone, 0, v.val.t)
        return v.t
    if isinstance(ty, tuple) and ty[0] == "arr":
        return v.t
    if isinstance(ty, tuple) and ty[0] == "list":
        if isinstance(v, VBox):
            v = v.val
        if v.pyval == [] and v._t is None and v.view is None:
            return z3.Empty(sort_of(ty))       # the polymorphic empty list
        return v.t
    if isinstance(ty, tuple) and ty[0] == "tuple":
        sort_of(ty)
        _, mk, accs = _tuple_sorts[tuple(ty[1])]
        return mk(*[unwrap(t, x) for t, x in zip(ty[1], v.items)])
    if isinstance(ty, tuple) and ty[0] == "opt":
        srt, mk, accs = _opt_sort(ty[1])
        if v is NONE:
            return mk(z3.BoolVal(True), _default(ty[1]))
        if isinstance(v, VOpt):
            return mk(v.isnone, z3.If(v.isnone, _default(ty[1]), unwrap(ty[1], v.val)))
        return mk(z3.BoolVal(False), unwrap(ty[1], v))
    if isinstance(ty, tuple) and ty[0] == "dict":
        srt, mk, accs = _dict_sort(ty[1], ty[2])
        d = v.val if v.val is not None else empty_dict(ty[1], ty[2])
        v.frozen = True              # from now on a second reference exists that the model does not track
        return mk(d.keys, d.vals)
    if isinstance(ty, tuple) and ty[0] == "rec":
        srt, mk, accs = rec_sort(ty[1])
        if isinstance(v, VOpt):
            v = v.val
        comps = []
        for fname, fty in REC_CLASSES[ty[1]]:
            x = v.fields.get(fname, NONE)
            if fty == "objnone":
                comps.append(z3.BoolVal(True) if x is NONE else (x.isnone if isinstance(x, VOpt) else z3.BoolVal(False)))
            elif isinstance(fty, tuple) and fty[0] == "opt":
                if x is NONE:
                    comps += [z3.BoolVal(True), _default(fty[1])]
                elif isinstance(x, VOpt):
                    # canonical junk for None so that records with equal Python values are equal terms
                    comps += [x.isnone, z3.If(x.isnone, _default(fty[1]), unwrap(fty[1], x.val))]
                else:
                    comps += [z3.BoolVal(False), unwrap(fty[1], x)]
            else:
                if isinstance(x, VOpt):
                    x = x.val
                comps.append(unwrap(fty, x))
        return mk(*comps)
    raise TypeError("unwrap %r" % (ty,))


def type_of(v):
    if isinstance(v, VInt):
        return "int"
    if isinstance(v, VBool):
        return "bool"
    if isinstance(v, VBox) and v.kind == "list":
        return ("list", v.val.ety)
    if isinstance(v, VSeq):
        return v.kind if v.kind in ("str", "bytes") else ("list", v.ety)
    if isinstance(v, VTuple):
        return ("tuple", [type_of(x) for x in v.items])
    if isinstance(v, VRef):
        return ("ref", v.cls)
    if isinstance(v, VBox) and v.kind == "dict" and isinstance(v.val, DictVal):
        return ("dict", v.val.kty, v.val.vty)
    if isinstance(v, VArr):
        return ("arr", v.ety)
    if isinstance(v, VObj) and v.cls in REC_CLASSES:
        return ("rec", v.cls)
    if isinstance(v, VOpt) and isinstance(v.val, VObj) and v.val.cls in REC_CLASSES:
        return ("rec", v.val.cls)
    if isinstance(v, VOpt) and isinstance(v.val, (VInt, VBool, VSeq)):
        return ("opt", type_of(v.val))
    raise TypeError("type_of %r" % (v,))


def fresh(ty, base, facts=None):
    """A fresh symbolic value of type `ty`; range facts (bytes in 0..255, code points) are
    appended to `facts`."""
    nm = fresh_name(base)
    if ty == "int":
        return VInt(z3.Int(nm))
    if ty == "bool":
        return VBool(z3.Bool(nm))
    if ty in ("str", "bytes"):
        return VSeq(ty, "int", z3.Const(nm, SeqI))
    if isinstance(ty, tuple) and ty[0] == "list":
        return VBox("list", VSeq("list", ty[1], z3.Const(nm, sort_of(ty))), base)
    if isinstance(ty, tuple) and ty[0] == "tuple":
        return VTuple([fresh(t, "%s_%d" % (base, i), facts) for i, t in enumerate(ty[1])])
    if isinstance(ty, tuple) and ty[0] == "opt":
        return VOpt(z3.Bool(nm + "?none"), fresh(ty[1], base, facts))
    if isinstance(ty, tuple) and ty[0] == "ref":
        return VRef(ty[1], z3.Int(nm))
    if isinstance(ty, tuple) and ty[0] == "arr":
        return VArr(ty[1], z3.Const(nm, sort_of(ty)))
    if isinstance(ty, tuple) and ty[0] == "dict":
        ks, vs = sort_of(ty[1]), sort_of(ty[2])
        return VBox("dict", DictVal(ty[1], ty[2], z3.Const(nm + "_keys", z3.ArraySort(ks, B)),
                                    z3.Const(nm + "_vals", z3.ArraySort(ks, vs))), base)
    raise TypeError("fresh %r" % (ty,))


def const_seq(kind, pyval):
    """Concrete str/bytes constant."""
    if kind == "str":
        codes = [ord(c) for c in pyval]
    else:
        codes = list(pyval)
    if not codes:
        t = z3.Empty(SeqI)
    elif len(codes) == 1:
        t = z3.Unit(z3.IntVal(codes[0]))
    else:
        t = z3.Concat(*[z3.Unit(z3.IntVal(c)) for c in codes])
    return VSeq(kind, "int", t, py=pyval)


def lift(pyval):
    """Python constant -> V"""
    if pyval is None:
        return NONE
    if isinstance(pyval, bool):
        return VBool(pyval)
    if isinstance(pyval, int):
        return VInt(pyval)
    if isinstance(pyval, str):
        return const_seq("str", pyval)
    if isinstance(pyval, bytes):
        return const_seq("bytes", pyval)
    if isinstance(pyval, tuple):
        return VTuple([lift(x) for x in pyval])
    return VPy(pyval)
