"""Path-wise symbolic executor over the `ast` of the real source (DESIGN 2.2).

One run of `Ex` follows ONE path; `explore()` re-runs with decision prefixes until every feasible
path has been followed (depth-first).  Obligations are collected as (name, path-condition, goal).
"""
import ast
import re
import builtins as _bi

import z3

from vf.runner import Unsupported
from vf.pyvc.values import (V, VInt, VBool, NONE, VSeq, VBox, VTuple, VOpt, VObj, VPy, VFunc, VClass, VRef, VArr,
                            I, B, SeqI, wrap, unwrap, type_of, fresh, fresh_name, const_seq, lift, sort_of)


class PathEnd(Exception):
    """path cut (loop back edge, infeasible, assumption false)"""


class PyRaise(Exception):
    def __init__(self, exc):
        Exception.__init__(self, exc)
        self.exc = exc


class VExc(V):
    def __init__(self, pycls, args=(), node=None):
        self.pycls = pycls      # real Python exception class
        self.args = list(args)
        self.node = node

    def __repr__(self):
        return "VExc(%s)" % self.pycls.__name__


class VPoison(V):
    """value of a local after a loop havoc when the contract gives it no type: any use is outside
    the encoded subset (the body must assign it before reading it)"""

    def __init__(self, name):
        self.name = name


class _Return(Exception):
    def __init__(self, value):
        self.value = value


class _Break(Exception):
    pass


class _Continue(Exception):
    pass


class Frame:
    def __init__(self, func, parent=None):
        self.vars = {}
        self.func = func        # VFunc
        self.parent = parent    # closure frame

    def lookup(self, name):
        f = self
        while f is not None:
            if name in f.vars:
                return f.vars[name]
            f = f.parent
        return None

    def owner(self, name):
        f = self
        while f is not None:
            if name in f.vars:
                return f
            f = f.parent
        return None


class LoopSpec:
    def __init__(self, invariants, modifies=(), decreases=None, index=None, var_types=None, entry=None, exit=()):
        self.entry = dict(entry or {})           # ghost names bound to expressions evaluated at loop entry
        self.exit = list(exit)                   # consequences of invariants + negated condition: proved at the exit, then assumed
                                                 # (an intermediate step for the solver, never an assumption)
        self.invariants = list(invariants)
        self.modifies = list(modifies)    # extra heap locations: "obj.field" strings (python exprs)
        self.decreases = decreases
        self.index = index                # name of the ghost index variable for `for` loops
        self.var_types = dict(var_types or {})   # types of locals that are None / [] before the loop


class Obl:
    def __init__(self, name, pc, goal, kind="post", info=None):
        self.name = name
        self.pc = list(pc)
        self.goal = goal
        self.kind = kind
        self.info = info or {}


def mangle(name, cls):
    if cls and name.startswith("__") and not name.endswith("__"):
        return "_%s%s" % (cls.lstrip("_"), name)
    return name


class SafeSolver:
    """In-process z3 used only for pruning and context-aware simplification.

    It never sees sequence terms: every formula is first *abstracted* to linear integer
    arithmetic + propositional structure (an Int/Bool-valued subterm with a non-arithmetic
    operator or a sequence-sorted argument becomes an opaque constant, keyed by the term).  The
    abstraction only forgets facts, so "infeasible" answers stay sound for the original formula,
    while the solver stays inside its most robust fragment (z3 5.1 returned an unsound `unsat` and
    internal errors on sequence + quantifier queries during construction, see DESIGN).
    Any internal error or timeout degrades to "don't know" (never to a verdict)."""

    _ARITH = {z3.Z3_OP_ADD, z3.Z3_OP_SUB, z3.Z3_OP_MUL, z3.Z3_OP_UMINUS, z3.Z3_OP_LE, z3.Z3_OP_LT,
              z3.Z3_OP_GE, z3.Z3_OP_GT, z3.Z3_OP_AND, z3.Z3_OP_OR, z3.Z3_OP_NOT, z3.Z3_OP_IMPLIES,
              z3.Z3_OP_ITE, z3.Z3_OP_EQ, z3.Z3_OP_DISTINCT, z3.Z3_OP_IFF, z3.Z3_OP_XOR, z3.Z3_OP_TRUE,
              z3.Z3_OP_FALSE, z3.Z3_OP_ANUM, z3.Z3_OP_IDIV, z3.Z3_OP_MOD}

    def __init__(self, timeout_ms=500):
        self.s = z3.Solver()
        self.s.set("timeout", timeout_ms)
        self.broken = False
        self.memo = {}
        self.keep = []

    def abstract(self, t):
        k = t.get_id()
        r = self.memo.get(k)
        if r is not None:
            return r
        r = self._abs(t)
        self.memo[k] = r
        self.keep.append(t)
        return r

    def _opaque(self, t):
        srt = t.sort()
        if srt == B:
            return z3.Bool("abs!b%d" % t.get_id())
        c = z3.Int("abs!i%d" % t.get_id())
        if z3.is_app(t) and t.decl().kind() == z3.Z3_OP_SEQ_LENGTH:
            self.s.add(c >= 0)
        return c

    def _abs(self, t):
        if not z3.is_app(t):
            return self._opaque(t) if t.sort() in (B, I) else None
        srt = t.sort()
        if srt != B and srt != I:
            return None
        kind = t.decl().kind()
        if kind == z3.Z3_OP_UNINTERPRETED and t.num_args() == 0:
            return t
        if kind not in self._ARITH:
            return self._opaque(t)
        if kind == z3.Z3_OP_MUL:
            # keep linear products only
            args = [t.arg(i) for i in range(t.num_args())]
            if sum(0 if z3.is_int_value(a) else 1 for a in args) > 1:
                return self._opaque(t)
        kids = []
        for i in range(t.num_args()):
            a = self.abstract(t.arg(i))
            if a is None:
                return self._opaque(t)
            kids.append(a)
        if not kids:
            return t
        try:
            return t.decl()(*kids)
        except z3.Z3Exception:
            return self._opaque(t)

    def _do(self, fn, *a):
        if self.broken:
            return None
        try:
            return fn(*a)
        except z3.Z3Exception:
            self.broken = True
            return None

    def add(self, f):
        g = self._do(self.abstract, f)
        if g is not None:
            self._do(self.s.add, g)

    def push(self):
        self._do(self.s.push)

    def pop(self):
        self._do(self.s.pop)

    def check(self, *a):
        gs = []
        for f in a:
            g = self._do(self.abstract, f)
            if g is None:
                return z3.unknown
            gs.append(g)
        r = self._do(self.s.check, *gs)
        return z3.unknown if r is None else r


class Ex:
    MAX_UNROLL = 12

    def __init__(self, world, decisions=()):
        self.world = world              # World: modules, contracts, speclib
        self.decisions = list(decisions)
        self.dpos = 0
        self.forks = []                 # alternative prefixes discovered on this run
        self.pc = []
        self.solver = SafeSolver(500)
        self.obls = []
        self.frames = []
        self.old = None                 # snapshot for old()
        self.old_mode = False
        self.spec_mode = 0              # >0 while evaluating contract text
        self.yields = None              # ghost box for generators
        self.contract = None            # contract of the function under verification
        self.loop_ordinal = {}
        self.trace = []
        self.taint = None
        self.depth = 0
        self.events = []                # ghost event list (warnings, calls of interest)
        self.axioms = []                # definitional facts about uninterpreted symbols: valid on
        self._axiom_keys = set()        # every path, never retracted (kept across guarded scopes)
        self._scopes = []
        self._rec_depth = 0
        self.rename_map = {}
        self._pure_memo = {}
        self._solver_broken = False
        self._keep = []                 # keeps z3 asts alive whose ids are used as keys
        self.no_ctx = False
        self.heap = {}                  # (class, field) -> z3 array Int -> sort(field); created lazily from fixed entry names
        self.next_ref = None            # allocation counter: refs 1 .. next_ref-1 are allocated

    # ------------------------------------------------------------------ heap of reference objects (VRef)
    def heap_field_type(self, cls, name):
        return self.world.heap_classes.get(cls, {}).get(name)

    def heap_array(self, cls, name, old=False):
        ty = self.heap_field_type(cls, name)
        key = (cls, name)
        if old and self.old is not None:
            h = self.old.get("$heap", {})
            if key in h:
                return h[key]
            return z3.Const("heap0_%s_%s" % key, z3.ArraySort(I, sort_of(ty)))
        if key not in self.heap:
            self.heap[key] = z3.Const("heap0_%s_%s" % key, z3.ArraySort(I, sort_of(ty)))
        return self.heap[key]

    def alloc_counter(self, old=False):
        if old and self.old is not None and "$next_ref" in self.old:
            return self.old["$next_ref"]
        if self.next_ref is None:
            self.next_ref = z3.Int("next_ref0")
            self.define(self.next_ref >= 1)      # an axiom about the entry state: must survive guarded scopes
        return self.next_ref

    def allocated(self, ref_t, old=False):
        return z3.And(ref_t >= 1, ref_t < self.alloc_counter(old))

    def new_ref(self, cls):
        n = self.alloc_counter()
        r = z3.Int(fresh_name("new_" + cls))
        self.assume(r == n)
        self.next_ref = n + 1
        return VRef(cls, r)

    # ------------------------------------------------------------------ facts / branching
    def assume(self, fact):
        if isinstance(fact, bool):
            fact = z3.BoolVal(fact)
        fact = z3.simplify(fact)
        if z3.is_true(fact):
            return
        self.pc.append(fact)
        self.solver.add(fact)
        if z3.is_false(fact):
            raise PathEnd()

    def define(self, fact, key=None):
        """Add an unconditional definitional axiom (instance)."""
        k = key if key is not None else fact.sexpr()
        if k in self._axiom_keys:
            return
        self._axiom_keys.add(k)
        self.axioms.append(fact)
        if z3.is_quantifier(fact):
            # quantified axioms only go into the final VCs: the in-process solver is used for
            # pruning / simplification, where fewer assumptions are always sound
            return
        self.solver.add(fact)
        for sc in self._scopes:
            sc.append(fact)

    def lemma(self, name, formula):
        """A valid fact about the symbols it mentions: it becomes an obligation of its own (proved
        with an empty path condition) and is then available as an axiom on this path."""
        key = ("lemma", formula.get_id())
        if key in self._axiom_keys:
            return
        self._keep.append(formula)
        o = Obl(name, [], formula, "lemma", {})
        o.axioms = []
        self.obls.append(o)
        self.define(formula, key=key)

    def push_scope(self, guard):
        self.solver.push()
        self.solver.add(guard)
        self.pc.append(guard)
        self._scopes.append([])
        return len(self.pc) - 1

    def pop_scope(self, mark):
        del self.pc[mark:]
        self.solver.pop()
        lost = self._scopes.pop()
        for f in lost:           # axioms added inside the scope stay valid outside
            self.solver.add(f)

    def sat_now(self):
        return self.solver.check() == z3.sat

    def feasible(self, cond):
        return self.solver.check(cond) != z3.unsat

    def branch(self, cond):
        """Decide a symbolic condition; returns a Python bool and records it in the pc."""
        if isinstance(cond, bool):
            return cond
        c = z3.simplify(cond)
        if z3.is_true(c):
            return True
        if z3.is_false(c):
            return False
        ft = self.feasible(c)
        ff = self.feasible(z3.Not(c))
        if ft and not ff:
            self.assume(c)
            return True
        if ff and not ft:
            self.assume(z3.Not(c))
            return False
        if not ft and not ff:
            raise PathEnd()
        if self.dpos < len(self.decisions):
            d = self.decisions[self.dpos]
        else:
            d = True
            self.forks.append(self.decisions[:self.dpos] + [False])
            self.decisions.append(True)
        self.dpos += 1
        self.assume(c if d else z3.Not(c))
        return d

    def may_raise(self, cond):
        """branch on the condition of an implicit exception (None dereference, index out of range,
        arity ...).  Specification text is total: it never takes such a branch (and must not fork or
        depend on the path condition, which would also poison the memoisation of spec evaluations)."""
        if self.spec_mode:
            return False
        return self.branch(cond)

    def oblige(self, name, goal, kind="post", info=None):
        if isinstance(goal, bool):
            goal = z3.BoolVal(goal)
        g = z3.simplify(goal)
        if z3.is_true(g):
            # trivially true goals are still counted (as discharged by the simplifier) so that
            # the obligation count does not depend on how much the simplifier sees
            self.obls.append(Obl(name, [], g, kind, dict(info or {}, trivial=True)))
            return
        o = Obl(name, self.pc, goal, kind, info)
        o.axioms = self.axioms      # shared list: axioms defined later on the path are valid too
        self.obls.append(o)

    # ------------------------------------------------------------------ truthiness / equality
    def truth(self, v):
        if isinstance(v, VBool):
            return v.t
        if isinstance(v, VInt):
            return v.t != 0
        if v is NONE:
            return z3.BoolVal(False)
        if isinstance(v, VSeq):
            return v.length() > 0
        if isinstance(v, VBox):
            if v.kind in ("list",):
                return v.val.length() > 0
            if v.kind == "dict":
                from vf.pyvc.values import DictVal
                if v.val is None:
                    return z3.BoolVal(False)
                if isinstance(v.val, DictVal):
                    # non-empty iff the key set is not the empty set (extensional array equality)
                    return z3.Not(v.val.keys == z3.K(v.val.keys.sort().domain(), z3.BoolVal(False)))
                if isinstance(v.val, dict):
                    return z3.BoolVal(len(v.val) > 0)
            if v.kind in ("dict", "set"):
                return self.world.speclib.container_len(self, v) > 0
            return z3.BoolVal(True)
        if isinstance(v, VOpt):
            return z3.And(z3.Not(v.isnone), self.truth(v.val))
        if isinstance(v, VTuple):
            return z3.BoolVal(len(v.items) > 0)
        if isinstance(v, VPy):
            return z3.BoolVal(bool(v.obj))
        if isinstance(v, VObj):
            # user classes: __bool__, then __len__, decide truthiness
            mod = self.world.module_of_class(v.cls)
            if mod is not None:
                for special in ("__bool__", "__len__"):
                    hit = mod.mro_lookup(v.cls, special)
                    if hit is not None and hit[0] == "method":
                        f = VFunc("user", "%s.%s" % (hit[2].name, special), node=hit[1], cls=hit[2].name, module=mod)
                        return self.truth(self.call(f.bind(v), [], {}))
            return z3.BoolVal(True)
        if isinstance(v, (VFunc, VClass, VExc)):
            return z3.BoolVal(True)
        if isinstance(v, VRef):
            mod = self.world.module_of_class(v.cls)
            if mod is not None and any(mod.mro_lookup(v.cls, sp) for sp in ("__bool__", "__len__")):
                raise Unsupported("truth of a reference object with __bool__ / __len__")
            return v.t != 0
        raise Unsupported("truth of %r" % (v,))

    def is_none(self, v):
        if v is NONE:
            return z3.BoolVal(True)
        if isinstance(v, VRef):
            return v.t == 0
        if isinstance(v, VOpt):
            return v.isnone
        return z3.BoolVal(False)

    def eq(self, a, b, goal=False):
        """Python == as a z3 Bool (exact).  goal=True may return a sufficient condition."""
        if isinstance(a, VBox) and a.kind == "list":
            a = a.val
        if isinstance(b, VBox) and b.kind == "list":
            b = b.val
        if a is NONE or b is NONE:
            other = b if a is NONE else a
            return self.is_none(other)
        if isinstance(a, VOpt) or isinstance(b, VOpt):
            if isinstance(a, VOpt) and isinstance(b, VOpt):
                return z3.Or(z3.And(a.isnone, b.isnone),
                             z3.And(z3.Not(a.isnone), z3.Not(b.isnone), self.eq(a.val, b.val, goal)))
            o, x = (a, b) if isinstance(a, VOpt) else (b, a)
            return z3.And(z3.Not(o.isnone), self.eq(o.val, x, goal))
        if isinstance(a, (VInt, VBool)) and isinstance(b, (VInt, VBool)):
            if isinstance(a, VBool) and isinstance(b, VBool):
                return a.t == b.t
            return unwrap("int", a) == unwrap("int", b)
        if isinstance(a, VSeq) and isinstance(b, VSeq):
            if a.kind != b.kind:
                return z3.BoolVal(False)
            if a.pyval is not None and b.pyval is not None:
                return z3.BoolVal(a.pyval == b.pyval)
            a, b = _coerce_empty(a, b)
            if goal and a.view is not None and b.view is not None and a.view[0].eq(b.view[0]):
                (_, l1, h1), (_, l2, h2) = a.view, b.view
                return z3.Or(z3.And(l1 == l2, h1 == h2), z3.And(l1 == h1, l2 == h2))
            if a.pyval is not None or b.pyval is not None:
                c, s = (a, b) if a.pyval is not None else (b, a)
                if s.view is not None and len(c.pyval) <= 8:
                    buf, lo, hi = s.view
                    codes = [ord(x) for x in c.pyval] if c.kind == "str" else list(c.pyval)
                    return z3.And(hi - lo == len(codes), *[buf[lo + i] == k for i, k in enumerate(codes)])
            return a.t == b.t
        if isinstance(a, VRef) and isinstance(b, VRef):
            mod = self.world.module_of_class(a.cls)
            if mod is not None and mod.mro_lookup(a.cls, "__eq__"):
                raise Unsupported("== on reference objects with __eq__")
            return a.t == b.t
        if isinstance(a, VArr) and isinstance(b, VArr):
            return a.t == b.t
        if isinstance(a, VTuple) and isinstance(b, VTuple):
            if len(a.items) != len(b.items):
                return z3.BoolVal(False)
            return z3.And(*[self.eq(x, y, goal) for x, y in zip(a.items, b.items)]) if a.items else z3.BoolVal(True)
        if isinstance(a, VTuple) and isinstance(b, VSeq) or isinstance(a, VSeq) and isinstance(b, VTuple):
            return z3.BoolVal(False)
        if isinstance(a, VBox) and a.kind == "dict" or isinstance(b, VBox) and b.kind == "dict":
            av = a.val if isinstance(a, VBox) else a
            bv = b.val if isinstance(b, VBox) else b
            if self.old_mode and isinstance(a, VBox):
                av = self.box_val(a)
            return self.world.speclib.box_equal(self, a, av, bv)
        if self.spec_mode and isinstance(a, VObj) and isinstance(b, VObj) and a.cls == b.cls and a is not b:
            from vf.pyvc.values import REC_CLASSES
            if a.cls in REC_CLASSES and (getattr(a, "frozen", False) or getattr(b, "frozen", False)):
                # objects kept by value: in specification text `==` compares the recorded fields
                return unwrap(("rec", a.cls), a) == unwrap(("rec", b.cls), b)
        if isinstance(a, (VObj, VBox)) or isinstance(b, (VObj, VBox)):
            return z3.BoolVal(a is b)
        if isinstance(a, VPy) and isinstance(b, VPy):
            return z3.BoolVal(a.obj == b.obj)
        if type(a) is not type(b):
            if isinstance(a, (VInt, VBool, VSeq, VTuple)) and isinstance(b, (VInt, VBool, VSeq, VTuple)):
                return z3.BoolVal(False)
        raise Unsupported("== between %r and %r" % (a, b))

    def identical(self, a, b):
        if a is NONE or b is NONE:
            return self.is_none(b if a is NONE else a)
        if isinstance(a, VOpt) and isinstance(b, VOpt):
            return z3.Or(z3.And(a.isnone, b.isnone),
                         z3.And(z3.Not(a.isnone), z3.Not(b.isnone), self.identical(a.val, b.val)))
        if isinstance(a, VOpt):
            return z3.And(z3.Not(a.isnone), self.identical(a.val, b))
        if isinstance(b, VOpt):
            return z3.And(z3.Not(b.isnone), self.identical(a, b.val))
        if isinstance(a, (VObj, VBox)) and isinstance(b, (VObj, VBox)):
            return z3.BoolVal(a is b)
        if isinstance(a, VRef) and isinstance(b, VRef):
            return a.t == b.t
        if self.spec_mode and isinstance(a, (VRef, VInt)) and isinstance(b, (VRef, VInt)) and (isinstance(a, VRef) or isinstance(b, VRef)):
            return a.t == b.t        # specification text: a quantified integer standing for a reference
        if isinstance(a, VBool) and isinstance(b, VBool):
            return a.t == b.t
        if isinstance(a, VPy) and isinstance(b, VPy):
            return z3.BoolVal(a.obj is b.obj)
        hook = getattr(self.world.speclib, "identical", None)
        if hook:
            r = hook(self, a, b)
            if r is not None:
                return r
        raise Unsupported("`is` between %r and %r" % (a, b))

    # ------------------------------------------------------------------ names
    def frame(self):
        return self.frames[-1]

    def lookup_name(self, name, node=None):
        fr = self.frame()
        if self.spec_mode and self.rename_map and name in self.rename_map and fr.lookup(name) is None:
            # the contract names a local by the name it had when the contract was written; after a pure
            # rename the local at the same first-binding position is meant
            name = self.rename_map[name]
        v = fr.lookup(name)
        if v is not None:
            if isinstance(v, VPoison):
                raise Unsupported("local %r is read after a loop havoc without a declared type" % name)
            return v
        return self.lookup_global(name, fr.func.module if fr.func else None)

    def lookup_global(self, name, mod):
        w = self.world
        if self.spec_mode and name == "yields" and self.yields is not None:
            return self.yields
        if self.spec_mode and name in w.spec_env:
            return w.spec_env[name]
        if mod is not None:
            if name in mod.functions:
                return VFunc("user", name, node=mod.functions[name], module=mod)
            ci = mod.cls(name)
            if ci is not None:
                return VClass(name, ci)
            if name in mod.assigns or name in mod.imports or hasattr(mod.real(), name):
                real = getattr(mod.real(), name, None)
                b = w.speclib.lookup_real(self, real, name)
                if b is not None:
                    return b
                if real is not None or name in mod.assigns:
                    return lift(real)
        if name in w.spec_env:
            return w.spec_env[name]
        b = w.speclib.builtin(name)
        if b is not None:
            if name in _TYPE_NAMES:
                return VPy(getattr(_bi, name))
            return b
        if name in _TYPE_NAMES:
            return VPy(getattr(_bi, name))
        if hasattr(_bi, name):
            obj = getattr(_bi, name)
            if isinstance(obj, type) and issubclass(obj, BaseException):
                return VPy(obj)
        raise Unsupported("name %r" % name)

    # ------------------------------------------------------------------ snapshots (old)
    def snapshot(self, roots):
        snap = {}
        seen = set()

        def walk(v):
            if id(v) in seen:
                return
            seen.add(id(v))
            if isinstance(v, VObj):
                snap[id(v)] = dict(v.fields)
                for x in list(v.fields.values()):
                    walk(x)
            elif isinstance(v, VBox):
                snap[id(v)] = v.val
                walk(v.val)
            elif isinstance(v, VTuple):
                for x in v.items:
                    walk(x)
            elif isinstance(v, VOpt):
                walk(v.val)
            elif isinstance(v, dict):
                for x in v.values():
                    walk(x)
        for r in roots:
            walk(r)
        snap["$heap"] = dict(self.heap)
        snap["$next_ref"] = self.alloc_counter() if self.world.heap_classes else None
        return snap

    def box_val(self, box):
        if self.old_mode and self.old is not None and id(box) in self.old:
            return self.old[id(box)]
        return box.val

    def get_field(self, obj, name):
        if self.old_mode and self.old is not None and id(obj) in self.old:
            return self.old[id(obj)].get(name)
        return obj.fields.get(name)

    # ------------------------------------------------------------------ raising helpers
    def raise_(self, pycls, *args, node=None):
        raise PyRaise(VExc(pycls, args, node))

    # ------------------------------------------------------------------ statements
    def exec_block(self, stmts):
        for st in stmts:
            self.exec_stmt(st)

    def exec_stmt(self, st):
        m = getattr(self, "s_" + type(st).__name__, None)
        if m is None:
            raise Unsupported("statement %s at line %d" % (type(st).__name__, st.lineno))
        return m(st)

    def s_Pass(self, st):
        pass

    def s_Expr(self, st):
        if isinstance(st.value, ast.Constant):
            return      # docstring
        self.eval(st.value)

    def s_Return(self, st):
        raise _Return(self.eval(st.value) if st.value is not None else NONE)

    def s_Global(self, st):
        raise Unsupported("global statement")

    def s_Nonlocal(self, st):
        pass

    def s_Import(self, st):
        for a in st.names:
            self.frame().vars[a.asname or a.name.split(".")[0]] = VPy(__import__(a.name))

    def s_ImportFrom(self, st):
        import importlib
        m = importlib.import_module(st.module)
        for a in st.names:
            real = getattr(m, a.name)
            b = self.world.speclib.lookup_real(self, real, a.name)
            self.frame().vars[a.asname or a.name] = b if b is not None else VPy(real)

    def s_FunctionDef(self, st):
        fr = self.frame()
        self.frame().vars[st.name] = VFunc("user", st.name, node=st, closure=fr, cls=fr.func.cls,
                                           module=fr.func.module)

    def s_Assert(self, st):
        v = self.eval(st.test)
        c = self.truth(v)
        if self.spec_mode:
            self.assume(c)
            return
        self.oblige("assert@%d" % st.lineno, c, kind="assert")
        self.assume(c)

    def s_If(self, st):
        c = self.truth(self.eval(st.test))
        if self.branch(c):
            self.exec_block(st.body)
        else:
            self.exec_block(st.orelse)

    def s_Raise(self, st):
        if st.exc is None:
            if getattr(self, "_handling", None) is not None:
                raise PyRaise(self._handling)
            raise Unsupported("bare raise outside handler")
        e = st.exc
        # the message payload is not evaluated (extraction drop: exception message arguments)
        if isinstance(e, ast.Call):
            c = self.eval(e.func)
        else:
            c = self.eval(e)
        if isinstance(c, VExc):
            raise PyRaise(c)
        pycls = self.exc_class(c)
        raise PyRaise(VExc(pycls, [], st))

    def exc_class(self, c):
        if isinstance(c, VPy) and isinstance(c.obj, type) and issubclass(c.obj, BaseException):
            return c.obj
        if isinstance(c, VClass):
            real = getattr(c.info.module.real(), c.name)
            return real
        raise Unsupported("raise of %r" % (c,))

    def s_Try(self, st):
        try:
            try:
                self.exec_block(st.body)
            except PyRaise as pr:
                for h in st.handlers:
                    if self.handler_matches(h, pr.exc):
                        if h.name:
                            self.frame().vars[h.name] = pr.exc
                        prev = getattr(self, "_handling", None)
                        self._handling = pr.exc
                        try:
                            self.exec_block(h.body)
                        finally:
                            self._handling = prev
                        break
                else:
                    raise
            else:
                self.exec_block(st.orelse)
        except PathEnd:
            raise
        except (PyRaise, _Return, _Break, _Continue):
            if st.finalbody:
                self.exec_block(st.finalbody)
            raise
        else:
            if st.finalbody:
                self.exec_block(st.finalbody)

    def handler_matches(self, h, exc):
        if h.type is None:
            return True
        t = self.eval(h.type)
        ts = t.items if isinstance(t, VTuple) else [t]
        for x in ts:
            if issubclass(exc.pycls, self.exc_class(x)):
                return True
        return False

    def s_With(self, st):
        if len(st.items) != 1:
            raise Unsupported("with: several items")
        it = st.items[0]
        cm = self.eval(it.context_expr)
        entered = self.world.speclib.with_enter(self, cm)
        if it.optional_vars is not None:
            self.assign(it.optional_vars, entered)
        try:
            self.exec_block(st.body)
        except PathEnd:
            raise
        except (PyRaise, _Return, _Break, _Continue):
            self.world.speclib.with_exit(self, cm, exceptional=True)
            raise
        self.world.speclib.with_exit(self, cm, exceptional=False)

    def s_Delete(self, st):
        for t in st.targets:
            if isinstance(t, ast.Name):
                self.frame().vars.pop(t.id, None)
            elif isinstance(t, ast.Subscript):
                obj = self.eval(t.value)
                if isinstance(t.slice, ast.Slice):
                    raise Unsupported("del slice")
                self.world.speclib.delitem(self, obj, self.eval(t.slice))
            else:
                raise Unsupported("del target")

    def s_Assign(self, st):
        v = self.eval(st.value)
        for t in st.targets:
            self.assign(t, v)

    def s_AnnAssign(self, st):
        if st.value is not None:
            self.assign(st.target, self.eval(st.value))

    def s_AugAssign(self, st):
        cur = self.eval(_load(st.target))
        rhs = self.eval(st.value)
        if isinstance(cur, VBox) and cur.kind in ("set", "list"):
            self.world.speclib.inplace(self, cur, st.op, rhs)
            return
        self.assign(st.target, self.binop(st.op, cur, rhs, st))

    def assign(self, target, v):
        if isinstance(target, ast.Name):
            fr = self.frame()
            own = None
            if fr.func is not None and fr.func.node is not None and target.id in _nonlocals(fr.func.node):
                own = fr.parent.owner(target.id) if fr.parent else None
            (own or fr).vars[target.id] = v
            if self.taint is not None:
                self.taint.on_assign(self, target.id, v)
            return
        if isinstance(target, (ast.Tuple, ast.List)):
            items = self.unpack(v, len(target.elts), target)
            for t, x in zip(target.elts, items):
                self.assign(t, x)
            return
        if isinstance(target, ast.Attribute):
            obj = self.eval(target.value)
            self.setattr(obj, mangle(target.attr, self.frame().func.cls), v)
            return
        if isinstance(target, ast.Subscript):
            obj = self.eval(target.value)
            if isinstance(target.slice, ast.Slice):
                lo = self.eval(target.slice.lower) if target.slice.lower else NONE
                hi = self.eval(target.slice.upper) if target.slice.upper else NONE
                if target.slice.step is not None:
                    raise Unsupported("slice step")
                self.world.speclib.setslice(self, obj, lo, hi, v)
            else:
                self.world.speclib.setitem(self, obj, self.eval(target.slice), v)
            return
        if isinstance(target, ast.Starred):
            raise Unsupported("starred assignment target")
        raise Unsupported("assignment target %s" % type(target).__name__)

    def unpack(self, v, n, node=None):
        if isinstance(v, VTuple):
            if len(v.items) != n:
                self.raise_(ValueError, node=node)
            return v.items
        if isinstance(v, VBox) and v.kind == "list":
            v = v.val
        if isinstance(v, VSeq):
            ln = v.length()
            if not self.may_raise(ln == n):
                self.raise_(ValueError, node=node)
            return [self.world.speclib.seq_index(self, v, VInt(i), checked=False) for i in range(n)]
        if isinstance(v, VOpt):
            if self.may_raise(v.isnone):
                self.raise_(TypeError, node=node)
            return self.unpack(v.val, n, node)
        raise Unsupported("unpack of %r" % (v,))

    def setattr(self, obj, name, v, raw=False):
        if isinstance(obj, VOpt):
            if self.may_raise(obj.isnone):
                self.raise_(AttributeError)
            obj = obj.val
        if isinstance(obj, (VRef, VObj)) and not raw:
            # a property with a setter
            mod = self.world.module_of_class(obj.cls)
            ci = mod.cls(obj.cls) if mod is not None else None
            seen = set()
            while ci is not None and ci.name not in seen:
                seen.add(ci.name)
                if name in ci.setters:
                    f = VFunc("user", "%s.%s.setter" % (ci.name, name), node=ci.setters[name], cls=ci.name, module=ci.module)
                    self.call(f.bind(obj), [v], {})
                    return
                ci = next((mod.cls(b) for b in ci.bases if mod.cls(b) is not None), None)
        if isinstance(obj, VRef):
            ty = self.heap_field_type(obj.cls, name)
            if ty is None:
                raise Unsupported("store to undeclared field %s of heap class %s" % (name, obj.cls))
            if self.may_raise(obj.t == 0):
                self.raise_(AttributeError)
            arr = self.heap_array(obj.cls, name)
            self.heap[(obj.cls, name)] = z3.Store(arr, obj.t, unwrap(ty, v))
            return
        if isinstance(obj, VObj):
            hook = self.world.setattr_hooks.get(obj.cls)
            if hook is not None and not self.spec_mode:
                if hook(self, obj, name, v):
                    return
            # a class that defines __setattr__ intercepts every attribute store
            if not raw and not self.spec_mode:
                mod = self.world.module_of_class(obj.cls)
                hit = mod.mro_lookup(obj.cls, "__setattr__") if mod is not None else None
                if hit is not None and hit[0] == "method":
                    f = VFunc("user", "%s.__setattr__" % hit[2].name, node=hit[1], cls=hit[2].name, module=mod)
                    self.call(f.bind(obj), [lift(name), v], {})
                    return
            if self.taint is not None:
                self.taint.on_store(self, obj, name, v)
            if getattr(obj, "frozen", False):
                raise Unsupported("mutation of an object that was read back from a by-value list / dict")
            obj.fields[name] = v
            return
        raise Unsupported("attribute store on %r" % (obj,))

    # ------------------------------------------------------------------ loops
    def loop_key(self, st):
        fr = self.frame()
        fn = fr.func.name if fr.func else "?"
        ords = self.world.loop_ordinals(fr.func)
        return fn, ords.get(id(st), -1)

    def loop_spec(self, st):
        fn, k = self.loop_key(st)
        c = self.world.contract_for_func(self.frame().func)
        if self.contract is not None and len(self.frames) == 1:
            c = self.contract            # the function under verification: its own contract variant
        if c is None:
            return None, fn, k
        return c.loops.get(k), fn, k

    def s_While(self, st):
        spec, fn, k = self.loop_spec(st)
        if spec is None:
            n = 0
            while True:
                c = self.truth(self.eval(st.test))
                if not self.branch(c):
                    self.exec_block(st.orelse)
                    return
                n += 1
                if n > self.MAX_UNROLL:
                    raise Unsupported("loop %s#%d needs an invariant (line %d)" % (fn, k, st.lineno))
                try:
                    self.exec_block(st.body)
                except _Break:
                    return
                except _Continue:
                    continue
        self.cut_loop(st, spec, fn, k,
                      cond=lambda: self.truth(self.eval(st.test)), bind=lambda: None)

    def cut_loop(self, st, spec, fn, k, cond, bind, after_body=None):
        tag = "%s#loop%d" % (fn, k)
        self.spec_mode += 1
        try:
            for gname, gexpr in spec.entry.items():
                self.frame().vars[gname] = self.eval_text(gexpr)
        finally:
            self.spec_mode -= 1
        self.spec_mode += 1
        try:
            for i, inv in enumerate(spec.invariants):
                self.oblige("%s.inv%d.establish" % (tag, i), self.truth(self.eval_text(inv)), kind="inv-establish")
        finally:
            self.spec_mode -= 1
        # havoc everything the body may modify
        self.havoc_loop(st, spec)
        measure0 = None
        self.spec_mode += 1
        try:
            for inv in spec.invariants:
                self.assume(self.truth(self.eval_text(inv)))
            if spec.decreases:
                measure0 = self.eval_text(spec.decreases)
        finally:
            self.spec_mode -= 1
        if not self.branch(cond()):
            if spec.exit:
                self.spec_mode += 1
                try:
                    for i, fact in enumerate(spec.exit):
                        g = self.truth(self.eval_text(fact))
                        self.oblige("%s.exit%d" % (tag, i), g, kind="loop-exit")
                        self.assume(g)
                finally:
                    self.spec_mode -= 1
            self.exec_block(st.orelse)
            return
        bind()
        try:
            try:
                self.exec_block(st.body)
            except _Continue:
                pass
        except _Break:
            return
        if after_body:
            after_body()
        self.spec_mode += 1
        try:
            for i, inv in enumerate(spec.invariants):
                self.oblige("%s.inv%d.preserve" % (tag, i), self.truth(self.eval_text(inv)), kind="inv-preserve")
            if spec.decreases:
                m1 = self.eval_text(spec.decreases)
                self.oblige("%s.decreases" % tag, z3.And(measure0.t >= 0, m1.t < measure0.t), kind="decreases")
            if getattr(self.contract, "cover_loop_paths", False):
                # opt-in per contract: every path through the loop body must be satisfiable (a contradictory model of a callee
                # or of a data structure would otherwise discharge the obligations of that path vacuously)
                self.oblige("vacuity probe: this path through the body of %s is satisfiable" % tag, False, kind="probe")
        finally:
            self.spec_mode -= 1
        raise PathEnd()

    def havoc_loop(self, st, spec):
        names = _assigned_names(st.body) | _mutated_names(st.body)
        if isinstance(st, ast.For):
            names |= _target_names(st.target)
        fr = self.frame()
        done = set()
        if self.yields is not None and any(isinstance(n, (ast.Yield, ast.YieldFrom)) for s_ in st.body for n in ast.walk(s_)):
            self.havoc_box(self.yields, "yields")
        for nm in sorted(names):
            v = fr.lookup(nm)
            if v is None:
                continue
            ty = spec.var_types.get(nm)
            if ty is None and self.rename_map:
                for cname, actual in self.rename_map.items():
                    if actual == nm and cname in spec.var_types:
                        ty = spec.var_types[cname]
            if isinstance(v, VBox):
                if id(v) not in done:
                    done.add(id(v))
                    if ty is not None and v.kind == "list":
                        v.val = VSeq("list", ty[1], z3.Const(fresh_name(nm), sort_of(ty)))
                    elif ty is not None and v.kind == "dict" and ty[0] == "dict":
                        v.val = fresh(ty, nm).val
                    else:
                        self.havoc_box(v, nm)
                if nm not in _assigned_names(st.body):
                    continue
            if nm in _assigned_names(st.body) or (isinstance(st, ast.For) and nm in _target_names(st.target)):
                own = fr.owner(nm)
                if ty is not None and not isinstance(v, VBox):
                    nv = self.world.speclib.fresh_typed(self, ty, nm)
                elif v is NONE or isinstance(v, VPoison) or (nm in spec.var_types and ty is None):
                    nv = VPoison(nm)
                else:
                    nv = self.havoc_value(v, nm)
                own.vars[nm] = nv
        self.spec_mode += 1
        try:
            for loc in spec.modifies:
                node = ast.parse(loc, mode="eval").body
                if isinstance(node, ast.Attribute):
                    obj = self.eval(node.value)
                    name = mangle(node.attr, self.frame().func.cls)
                    if isinstance(obj, VOpt):
                        obj = obj.val
                    if obj is NONE:
                        continue
                    c = self.world.contract_for_func(self.frame().func)
                    ty = getattr(c, "field_types", {}).get(name) if c is not None else None
                    if isinstance(obj, VObj):
                        cur_ = obj.fields.get(name)
                        if isinstance(cur_, VBox):
                            # a mutable container held in the field: the loop may have changed its CONTENT (the object stays)
                            if id(cur_) not in done:
                                done.add(id(cur_))
                                self.havoc_box(cur_, name)
                        elif ty is not None:
                            obj.fields[name] = self.world.speclib.fresh_typed(self, ty, name)
                        else:
                            obj.fields[name] = self.havoc_value(obj.fields[name], name)
                elif isinstance(node, ast.Name):
                    v = fr.lookup(node.id)
                    if isinstance(v, VBox):
                        self.havoc_box(v, node.id)
                else:
                    raise Unsupported("loop modifies %s" % loc)
        finally:
            self.spec_mode -= 1

    def havoc_box(self, box, nm):
        if box.kind == "list":
            box.val = VSeq("list", box.val.ety, z3.Const(fresh_name(nm), sort_of(("list", box.val.ety))))
        elif box.kind == "iter":
            seq, cur = box.val
            nc = z3.Int(fresh_name(nm + "_cur"))
            self.assume(z3.And(nc >= cur.t, nc <= seq.length()))   # iterators only advance
            box.val = (seq, VInt(nc))
        else:
            self.world.speclib.havoc_box(self, box, nm)

    def havoc_value(self, v, nm):
        if isinstance(v, VBox):
            return v       # identity kept; content havocked separately
        if isinstance(v, VObj) or isinstance(v, (VPy, VFunc, VClass)):
            return v
        if v is NONE:
            raise Unsupported("havoc of None-initialised variable %s: give it a type in the contract" % nm)
        if isinstance(v, VOpt):
            return VOpt(z3.Bool(fresh_name(nm + "?none")), self.havoc_value(v.val, nm))
        ty = type_of(v)
        nv = fresh(ty, nm)
        if isinstance(nv, VBox):
            nv = nv.val
        return nv

    def s_For(self, st):
        enum_start = None
        iter_node = st.iter
        if isinstance(iter_node, ast.Call) and isinstance(iter_node.func, ast.Name) and iter_node.func.id == "enumerate" \
                and self.frame().lookup("enumerate") is None and 1 <= len(iter_node.args) <= 2 \
                and isinstance(st.target, (ast.Tuple, ast.List)) and len(st.target.elts) == 2:
            # for i, x in enumerate(seq[, start]): the index is the iterator's cursor
            enum_start = self.eval(iter_node.args[1]) if len(iter_node.args) == 2 else VInt(0)
            for kw_ in iter_node.keywords:
                if kw_.arg == "start":
                    enum_start = self.eval(kw_.value)
            iter_node = iter_node.args[0]
        it = self.eval(iter_node)
        spec, fn, k = self.loop_spec(st)
        # shared iterator object: the cursor lives in the box
        if isinstance(it, VBox) and it.kind == "iter":
            box = it
        else:
            box = self.world.speclib.make_iter(self, it)
        if box is None:
            raise Unsupported("for over %r" % (it,))
        if isinstance(box, list):           # concrete finite sequence of V values
            for n_, x in enumerate(box):
                if enum_start is not None:
                    x = VTuple([VInt(enum_start.t + n_), x])
                self.assign(st.target, x)
                try:
                    self.exec_block(st.body)
                except _Break:
                    return
                except _Continue:
                    continue
            self.exec_block(st.orelse)
            return

        def live():
            lv = getattr(box, "live", None)
            if lv is not None:
                box.val = (lv.val, box.val[1])      # the iterator sees the list as it is now
            return box.val

        def has_next():
            seq, cur = live()
            return cur.t < seq.length()

        def take():
            seq, cur = live()
            x = self.world.speclib.seq_index(self, seq, cur, checked=False)
            box.val = (seq, VInt(cur.t + 1))
            if getattr(box, "take_fact", None) is not None:
                self.assume(box.take_fact(cur.t, x))
            if enum_start is not None:
                x = VTuple([VInt(z3.simplify(enum_start.t + cur.t)), x])
            self.assign(st.target, x)

        if spec is None:
            n = 0
            while True:
                if not self.branch(has_next()):
                    self.exec_block(st.orelse)
                    return
                n += 1
                if n > self.MAX_UNROLL:
                    raise Unsupported("loop %s#%d needs an invariant (line %d)" % (fn, k, st.lineno))
                take()
                try:
                    self.exec_block(st.body)
                except _Break:
                    return
                except _Continue:
                    continue
        # with invariant: the iterator box is part of the havocked state
        fr = self.frame()
        fr.vars["__it%d" % k] = box
        if spec.index:
            fr.vars[spec.index] = box.val[1]
        fr.vars["__seq%d" % k] = box.val[0]
        if getattr(box, "pos_fn", None) is not None:
            fr.vars["__pos%d" % k] = box.pos_fn        # iteration over a dict: ghost position of a key in the iteration order

        def cond():
            if spec.index:
                fr.vars[spec.index] = box.val[1]
            return has_next()

        old_havoc = self.havoc_loop

        shared = box is it           # an iterator object the program itself holds: inner loops may advance it too

        def havoc(st_, spec_):
            old_havoc(st_, spec_)
            if st_ is st or shared:
                self.havoc_box(box, "__it%d" % k)
            if spec.index:
                fr.vars[spec.index] = box.val[1]
        self.havoc_loop = havoc
        try:
            def after():
                if spec.index:
                    fr.vars[spec.index] = box.val[1]
            self.cut_loop(st, spec, fn, k, cond=cond, bind=take, after_body=after)
        finally:
            self.havoc_loop = old_havoc

    def s_Break(self, st):
        raise _Break()

    def s_Continue(self, st):
        raise _Continue()

    # ------------------------------------------------------------------ expressions
    def eval(self, e):
        m = getattr(self, "e_" + type(e).__name__, None)
        if m is None:
            raise Unsupported("expression %s at line %s" % (type(e).__name__, getattr(e, "lineno", "?")))
        return m(e)

    def eval_text(self, text, extra=None):
        node = self.world.parse_expr(text)
        if extra:
            fr = self.frame()
            saved = {k: fr.vars.get(k) for k in extra}
            fr.vars.update(extra)
            try:
                return self.eval(node)
            finally:
                for k, v in saved.items():
                    if v is None:
                        fr.vars.pop(k, None)
                    else:
                        fr.vars[k] = v
        return self.eval(node)

    def e_Constant(self, e):
        if e.value is Ellipsis:
            return VPy(Ellipsis)
        return lift(e.value)

    def e_Name(self, e):
        v = self.lookup_name(e.id, e)
        if self.old_mode and isinstance(v, VBox) and self.old is not None and id(v) in self.old:
            return VBox(v.kind, self.old[id(v)], v.name + "@old")     # read-only view of the entry content
        return v

    def e_Tuple(self, e):
        return VTuple([self.eval(x) for x in e.elts])

    def e_List(self, e):
        items = [self.eval(x) for x in e.elts]
        return self.world.speclib.make_list(self, items)

    def e_Set(self, e):
        return self.world.speclib.make_set(self, [self.eval(x) for x in e.elts])

    def e_Dict(self, e):
        return self.world.speclib.make_dict(self, [(self.eval(k), self.eval(v)) for k, v in zip(e.keys, e.values)])

    def e_JoinedStr(self, e):
        raise Unsupported("f-string")

    def e_Yield(self, e):
        if self.yields is None:
            raise Unsupported("yield outside the function under verification")
        v = self.eval(e.value) if e.value is not None else NONE
        ety = self.yields.val.ety
        self.yields.val = VSeq("list", ety, z3.Concat(self.yields.val.t, z3.Unit(unwrap(ety, v))))
        return NONE

    def e_ListComp(self, e):
        """[ELT for x in SEQ]  ->  a recursive function of SEQ (uninterpreted symbol + defining
        equation instantiated per application, like recursive spec functions):
            comp(s) = [] if len(s) == 0 else [ELT(s[0])] + comp(s[1:])
        ELT is the real element expression (callees inlined, branches merged).  Values captured from
        the enclosing scope must be concrete (classes, patterns, constants)."""
        if len(e.generators) != 1 or e.generators[0].ifs or e.generators[0].is_async or \
                not isinstance(e.generators[0].target, ast.Name):
            raise Unsupported("list comprehension shape at line %d" % e.lineno)
        gen = e.generators[0]
        seq = self.eval(gen.iter)
        if isinstance(seq, VBox) and seq.kind == "list":
            seq = seq.val
        # a concrete iterable (module-level constant list, tuple display): evaluate the element expression per item
        items = None
        if isinstance(seq, VPy) and isinstance(seq.obj, (list, tuple)):
            items = [lift(x) for x in seq.obj]
        elif isinstance(seq, VTuple):
            items = list(seq.items)
        elif isinstance(seq, VSeq) and seq.kind == "list" and isinstance(seq.pyval, list):
            items = [lift(x) for x in seq.pyval]
        if items is not None:
            out = []
            fr = self.frame()
            saved = fr.vars.get(gen.target.id)
            try:
                for x in items:
                    fr.vars[gen.target.id] = x
                    out.append(self.eval(e.elt))
            finally:
                if saved is None:
                    fr.vars.pop(gen.target.id, None)
                else:
                    fr.vars[gen.target.id] = saved
            return self.world.speclib.make_list(self, out)
        if isinstance(seq, VRef) and seq.cls in getattr(self.world, "abstract_iter", {}):
            seq = self.world.speclib.seqval(self.call(self.world.spec_env[self.world.abstract_iter[seq.cls]], [seq], {}))
        if not isinstance(seq, VSeq):
            raise Unsupported("list comprehension over %r" % (seq,))
        fr = self.frame()
        # a contract may name the comprehension: comprehensions = {k: (spec_map, spec_elt)} says that the k-th comprehension of
        # the function is spec_map(seq), where spec_map is the sidecar's recursive  [spec_elt(x) for x in seq].  The element
        # expression of the real code is then checked against spec_elt on an arbitrary element (an obligation); mapping two
        # pointwise equal functions over the same sequence gives the same list.
        c_ = self.contract if (self.contract is not None and len(self.frames) == 1) else self.world.contract_for_func(fr.func)
        named = getattr(c_, "comprehensions", None)
        if named or (c_ is None and len(self.frames) > 1 and getattr(self.contract, "comprehensions", None)):
            comps_ = [n for n in _walk_shallow(fr.func.node) if isinstance(n, ast.ListComp)]
            comps_.sort(key=lambda n: (n.lineno, n.col_offset))
            k_ = comps_.index(e) if e in comps_ else -1
            if not named:
                # an inlined helper without a contract: a comprehension the contract of the function under verification names
                # may have been moved into it ("extract helper").  The names the function itself no longer has a comprehension
                # for are given, in order, to the comprehensions met in inlined helpers; the element obligation keeps this honest.
                top = self.frames[0].func.node
                own = [n for n in _walk_shallow(top) if isinstance(n, ast.ListComp)]
                missing = sorted(k for k in self.contract.comprehensions if k >= len(own))
                seen = self.__dict__.setdefault("_inlined_comps", [])
                if id(e) not in seen:
                    seen.append(id(e))
                j = seen.index(id(e))
                named = {k_: self.contract.comprehensions[missing[j]]} if j < len(missing) else {}
            if k_ in named:
                map_name, elt_name = named[k_]
                lam = ast.Lambda(args=ast.arguments(posonlyargs=[], args=[ast.arg(arg=gen.target.id)], kwonlyargs=[],
                                                    kw_defaults=[], defaults=[]), body=e.elt)
                ast.fix_missing_locations(lam)
                elt_fn = VFunc("user", "<comprehension element>", node=lam, closure=fr, cls=fr.func.cls, module=fr.func.module)
                x = wrap(seq.ety, z3.Const(fresh_name("any_elem"), sort_of(seq.ety)))
                self.spec_mode += 1
                try:
                    real_v = self.call_pure_lambda(elt_fn, [x])
                    spec_v = self.call(self.world.spec_env[elt_name], [x], {})
                    self.oblige("comprehension %d: its element expression is %s(x) for every x" % (k_, elt_name),
                                self.eq(real_v, spec_v), kind="comp-elt")
                    r = self.world.speclib.seqval(self.call(self.world.spec_env[map_name], [seq], {}))
                finally:
                    self.spec_mode -= 1
                self.define(z3.Length(r.t) == seq.length(), key=("comp-len", r.t.get_id()))
                self._keep.append(r.t)
                return VBox("list", r)
        key = ("comp", id(e))
        vf = self.world.comp_funcs.get(key)
        if vf is None:
            var = gen.target.id
            for n in ast.walk(e.elt):
                if isinstance(n, ast.Name) and n.id != var:
                    v = fr.lookup(n.id)
                    if v is not None and not isinstance(v, (VPy, VClass, VFunc)) and not \
                            (isinstance(v, VSeq) and v.pyval is not None) and not \
                            (isinstance(v, (VInt, VBool)) and z3.is_int_value(z3.simplify(unwrap("int", v)))):
                        raise Unsupported("list comprehension captures the symbolic local %r" % n.id)
            lam = ast.Lambda(args=ast.arguments(posonlyargs=[], args=[ast.arg(arg=var)], kwonlyargs=[], kw_defaults=[],
                                                defaults=[]), body=e.elt)
            ast.fix_missing_locations(lam)
            elt_fn = VFunc("user", "<comprehension element>", node=lam, closure=fr, cls=fr.func.cls, module=fr.func.module)
            # element type: evaluate once on a fresh element
            probe = self.world.speclib.seq_index(self, VSeq(seq.kind, seq.ety, z3.Const(fresh_name("comp_probe"),
                                                 sort_of(seq.kind if seq.kind != "list" else ("list", seq.ety)))),
                                                 VInt(0), checked=False)
            self.spec_mode += 1
            try:
                ety = type_of(self.call_pure_lambda(elt_fn, [probe]))
            finally:
                self.spec_mode -= 1
            ords = self.world.loop_ordinals(fr.func)  # noqa (keeps ordinals computed)
            comps = [n for n in _walk_shallow(fr.func.node) if isinstance(n, ast.ListComp)]
            comps.sort(key=lambda n: (n.lineno, n.col_offset))
            k = comps.index(e) if e in comps else len(self.world.comp_funcs)
            fname = "comp_%s_%d" % (fr.func.name.replace(".", "_"), k)
            src = ("def %s(s):\n    if len(s) == 0:\n        return __empty\n"
                   "    return [__elt(s[0])] + %s(s[1:])\n" % (fname, fname))
            node = ast.parse(src).body[0]
            cfr = Frame(VFunc("user", "<comprehension>", cls=fr.func.cls, module=fr.func.module), None)
            vf = VFunc("user", "spec:" + fname, node=node, closure=cfr, module=None)
            kind = seq.kind if seq.kind != "list" else ("list", seq.ety)
            vf.rec = dict(args=[kind], ret=("list", ety))
            cfr.vars["__elt"] = elt_fn
            cfr.vars["__empty"] = VSeq("list", ety, z3.Empty(sort_of(("list", ety))))
            cfr.vars[fname] = vf
            self.world.comp_funcs[key] = vf
            self.world.comp_by_func.setdefault(fr.func.name, {})[k] = vf
            self.world.speclib.use("list comprehension [%s for %s in ...] as a recursive function of the sequence"
                                   % (ast.unparse(e.elt), var))
        r = self.world.speclib.seqval(self.pure_call(vf, [seq], {}))
        # a comprehension yields exactly one element per element of the sequence
        self.define(z3.Length(r.t) == seq.length(), key=("comp-len", r.t.get_id()))
        self._keep.append(r.t)
        return VBox("list", r)

    def call_pure_lambda(self, f, args):
        vals = self.bind_args(f, args, {})
        fr = Frame(f, f.closure)
        fr.vars.update(vals)
        self.frames.append(fr)
        try:
            return self.eval(f.node.body)
        finally:
            self.frames.pop()

    def e_IfExp(self, e):
        c = self.truth(self.eval(e.test))
        if self.spec_mode:
            one = self.decided(c)
            if one is True:
                return self.eval(e.body)
            if one is False:
                return self.eval(e.orelse)
            return self.ite(c, self.eval_guarded(e.body, c), self.eval_guarded(e.orelse, z3.Not(c)))
        if self.branch(c):
            return self.eval(e.body)
        return self.eval(e.orelse)

    def e_Lambda(self, e):
        fr = self.frame()
        return VFunc("user", "<lambda>", node=e, closure=fr, cls=fr.func.cls if fr.func else None,
                     module=fr.func.module if fr.func else None)

    def e_BoolOp(self, e):
        if self.spec_mode:
            # pure reading: boolean result, later operands evaluated under the guard of the earlier
            acc = None
            for xi, x in enumerate(e.values):
                if acc is None:
                    first = self.eval(x)
                    if not isinstance(first, VBool):
                        # value semantics (`e or "0"`): the deciding operand, merged without forking
                        val = first
                        for y in e.values[1:]:
                            tv = self.truth(val)
                            one = self.decided(tv)
                            if isinstance(e.op, ast.Or):
                                if one is True:
                                    return val
                                nxt = self.eval_guarded(y, z3.Not(tv))
                                val = nxt if one is False else self.ite(tv, val, nxt)
                            else:
                                if one is False:
                                    return val
                                nxt = self.eval_guarded(y, tv)
                                val = nxt if one is True else self.ite(tv, nxt, val)
                        return val
                    acc = self.truth(first)
                    continue
                one = self.decided(acc)
                if isinstance(e.op, ast.And):
                    if one is False:
                        return VBool(False)
                    acc = z3.And(acc, self.truth(self.eval_guarded(x, acc)))
                else:
                    if one is True:
                        return VBool(True)
                    acc = z3.Or(acc, self.truth(self.eval_guarded(x, z3.Not(acc))))
            return VBool(acc)
        # Python semantics: value of the deciding operand
        last = None
        for i, x in enumerate(e.values):
            last = self.eval(x)
            if i == len(e.values) - 1:
                return last
            t = self.truth(last)
            if isinstance(e.op, ast.And):
                if not self.branch(t):
                    return last
            else:
                if self.branch(t):
                    return last
        return last

    def e_UnaryOp(self, e):
        v = self.eval(e.operand)
        if isinstance(e.op, ast.Not):
            return VBool(z3.Not(self.truth(v)))
        if isinstance(e.op, ast.USub):
            return VInt(-unwrap("int", v))
        if isinstance(e.op, ast.UAdd):
            return VInt(unwrap("int", v))
        raise Unsupported("unary %s" % type(e.op).__name__)

    def e_BinOp(self, e):
        return self.binop(e.op, self.eval(e.left), self.eval(e.right), e)

    def deopt(self, v, node=None):
        if isinstance(v, VOpt):
            if not self.spec_mode and self.branch(v.isnone):     # specifications are total
                self.raise_(TypeError, node=node)
            return v.val
        return v

    def binop(self, op, a, b, node=None):
        a, b = self.deopt(a, node), self.deopt(b, node)
        if isinstance(a, VBox) and a.kind == "list":
            a = a.val
            if isinstance(op, ast.Add) and isinstance(b, (VBox, VSeq)):
                bb = b.val if isinstance(b, VBox) else b
                a, bb = _coerce_empty(a, bb)
                return VBox("list", VSeq("list", a.ety, z3.Concat(a.t, bb.t)))
        if isinstance(a, VSeq) and a.kind == "list" and isinstance(op, ast.Add) and isinstance(b, (VBox, VSeq)):
            bb = b.val if isinstance(b, VBox) else b
            a, bb = _coerce_empty(a, bb)
            return VBox("list", VSeq("list", a.ety, z3.Concat(a.t, bb.t)))
        if isinstance(a, (VInt, VBool)) and isinstance(b, (VInt, VBool)):
            x, y = unwrap("int", a), unwrap("int", b)
            if isinstance(op, ast.Add):
                return VInt(x + y)
            if isinstance(op, ast.Sub):
                return VInt(x - y)
            if isinstance(op, ast.Mult):
                return VInt(x * y)
            if isinstance(op, (ast.FloorDiv, ast.Mod)):
                if self.may_raise(y == 0):
                    self.raise_(ZeroDivisionError, node=node)
                # Python floors (result has the divisor's sign); SMT-LIB div/mod are euclidean and
                # coincide with floor for positive divisors: for y < 0 use (-x) div (-y).
                if isinstance(op, ast.FloorDiv):
                    return VInt(z3.If(y > 0, x / y, (-x) / (-y)))
                return VInt(z3.If(y > 0, x % y, -((-x) % (-y))))
            raise Unsupported("int op %s" % type(op).__name__)
        if isinstance(a, VSeq) and isinstance(b, VSeq) and isinstance(op, ast.Add):
            if a.kind != b.kind:
                self.raise_(TypeError, node=node)
            py = a.pyval + b.pyval if a.pyval is not None and b.pyval is not None else None
            return VSeq(a.kind, a.ety, z3.Concat(a.t, b.t), py=py)
        if isinstance(op, ast.Mod) and isinstance(a, VSeq) and a.kind == "str":
            return self.world.speclib.str_format(self, a, b)
        if isinstance(a, VSeq) and isinstance(b, (VInt,)) and isinstance(op, ast.Mult) or \
                isinstance(b, VSeq) and isinstance(a, (VInt,)) and isinstance(op, ast.Mult):
            s, n = (a, b) if isinstance(a, VSeq) else (b, a)
            return self.world.speclib.seq_repeat(self, s, n)
        r = self.world.speclib.binop(self, op, a, b)
        if r is not None:
            return r
        raise Unsupported("binop %s on %r, %r" % (type(op).__name__, a, b))

    def e_Compare(self, e):
        left = self.eval(e.left)
        result = None
        for op, rn in zip(e.ops, e.comparators):
            right = self.eval(rn)
            c = self.compare(op, left, right, e)
            result = c if result is None else z3.And(result, c)
            if len(e.ops) > 1:
                # chained comparison short-circuits
                if not self.branch(c):
                    return VBool(False)
                result = z3.BoolVal(True)
            left = right
        return VBool(result)

    def compare(self, op, a, b, node=None):
        if isinstance(op, (ast.Eq, ast.NotEq)) and isinstance(a, VObj) and not self.spec_mode:
            # a user class that defines __eq__ / __ne__: the comparison is that method
            from vf.pyvc.values import REC_CLASSES as _RC
            mod_ = self.world.module_of_class(a.cls) if a.cls not in _RC else None
            nm_ = "__eq__" if isinstance(op, ast.Eq) else "__ne__"
            hit_ = mod_.mro_lookup(a.cls, nm_) if mod_ is not None else None
            if hit_ is None and nm_ == "__ne__" and mod_ is not None and mod_.mro_lookup(a.cls, "__eq__") is not None:
                return z3.Not(self.compare(ast.Eq(), a, b, node))
            if hit_ is not None and hit_[0] == "method":
                return self.truth(self.call(self.getattr(a, nm_), [b], {}))
        if isinstance(op, ast.Eq):
            return self.eq(a, b, goal=getattr(node, "_goal", False))
        if isinstance(op, ast.NotEq):
            return z3.Not(self.eq(a, b))
        if isinstance(op, ast.Is):
            return self.identical(a, b)
        if isinstance(op, ast.IsNot):
            return z3.Not(self.identical(a, b))
        if isinstance(op, (ast.In, ast.NotIn)):
            c = self.world.speclib.contains(self, b, a)
            return c if isinstance(op, ast.In) else z3.Not(c)
        if isinstance(a, VOpt) or isinstance(b, VOpt):
            for o in (a, b):
                if isinstance(o, VOpt) and self.may_raise(o.isnone):
                    self.raise_(TypeError, node=node)
            a = a.val if isinstance(a, VOpt) else a
            b = b.val if isinstance(b, VOpt) else b
        if isinstance(a, (VInt, VBool)) and isinstance(b, (VInt, VBool)):
            x, y = unwrap("int", a), unwrap("int", b)
            if isinstance(op, ast.Lt):
                return x < y
            if isinstance(op, ast.LtE):
                return x <= y
            if isinstance(op, ast.Gt):
                return x > y
            if isinstance(op, ast.GtE):
                return x >= y
        if a is NONE or b is NONE:
            self.raise_(TypeError, node=node)
        r = self.world.speclib.compare(self, op, a, b)
        if r is not None:
            return r
        raise Unsupported("compare %s on %r, %r" % (type(op).__name__, a, b))

    def e_Subscript(self, e):
        obj = self.eval(e.value)
        if isinstance(e.slice, ast.Slice):
            lo = self.eval(e.slice.lower) if e.slice.lower else NONE
            hi = self.eval(e.slice.upper) if e.slice.upper else NONE
            if e.slice.step is not None:
                raise Unsupported("slice step")
            return self.world.speclib.getslice(self, obj, lo, hi)
        return self.world.speclib.getitem(self, obj, self.eval(e.slice), node=e)

    def e_Attribute(self, e):
        obj = self.eval(e.value)
        fr = self.frame()
        return self.getattr(obj, mangle(e.attr, fr.func.cls if fr.func else None), e)

    def getattr(self, obj, name, node=None):
        w = self.world
        if isinstance(obj, VOpt):
            if self.spec_mode:
                # specifications are total: e.attr on a possibly-None value denotes the attribute
                # of the underlying value (unspecified when it is None)
                pass
            elif self.may_raise(obj.isnone):
                self.raise_(AttributeError, node=node)
            obj = obj.val
        if obj is NONE:
            self.raise_(AttributeError, node=node)
        if isinstance(obj, VRef):
            ty = self.heap_field_type(obj.cls, name)
            if ty is None:
                return self.class_attr(obj.cls, name, obj, node)
            if not self.spec_mode and self.may_raise(obj.t == 0):
                self.raise_(AttributeError, node=node)
            return wrap(ty, z3.Select(self.heap_array(obj.cls, name, old=self.old_mode), obj.t))
        if isinstance(obj, VObj):
            v = self.get_field(obj, name)
            if v is not None:
                if self.old_mode and isinstance(v, VBox) and self.old is not None and id(v) in self.old:
                    return VBox(v.kind, self.old[id(v)], v.name + "@old")      # read-only view of the entry content
                return v
            m = w.speclib.model_method(obj.cls, name)
            if m is not None:
                return m.bind(obj)
            if re.match(r"_[A-Za-z0-9]+__\w*[^_]_?$", name) and not self.spec_mode:
                mod_ = w.module_of_class(obj.cls)
                if mod_ is not None and mod_.mro_lookup(obj.cls, name) is None and mod_.mro_lookup(obj.cls, "__" + name[1:].split("__", 1)[1]) is None:
                    # private state of the class that the contract's object model does not list: the contract is out of date with
                    # the class (not an AttributeError of the real object, whose __init__ sets it)
                    raise Unsupported("private attribute %s is not part of the contract's object model of %s" % (name, obj.cls))
            return self.class_attr(obj.cls, name, obj, node)
        if isinstance(obj, VClass):
            return self.class_attr(obj.name, name, None, node, mod=obj.info.module, via_class=obj)
        if isinstance(obj, VExc):
            if name == "args":
                return VTuple(obj.args)
            raise Unsupported("exception attribute %s" % name)
        m = w.speclib.method(self, obj, name)
        if m is not None:
            return m
        raise Unsupported("attribute %s of %r" % (name, obj))

    def class_attr(self, clsname, name, inst, node=None, mod=None, via_class=None):
        w = self.world
        mod = mod or w.module_of_class(clsname)
        if mod is None:
            raise Unsupported("class %s unknown (attribute %s)" % (clsname, name))
        hit = mod.mro_lookup(clsname, name)
        if hit is None and name.startswith("_") and "__" in name[1:]:
            # a private method is defined under its unmangled name in the class body
            owner, rest = name[1:].split("__", 1)
            hit = mod.mro_lookup(clsname, "__" + rest)
            if hit is not None and hit[2].name.lstrip("_") != owner:
                hit = None
            if hit is not None:
                name = "__" + rest
        if hit is None:
            # __getattr__ fallback
            ga = mod.mro_lookup(clsname, "__getattr__") if inst is not None else None
            if ga is not None and ga[0] == "method":
                f = VFunc("user", "%s.__getattr__" % ga[2].name, node=ga[1], cls=ga[2].name, module=mod)
                return self.call(f.bind(inst), [lift(name)], {})
            if inst is not None:
                self.raise_(AttributeError, node=node)
            raise Unsupported("class attribute %s.%s" % (clsname, name))
        kind, n, ci = hit
        if kind == "method":
            decs = ci.decorators.get(name, [])
            f = VFunc("user", "%s.%s" % (ci.name, name), node=n, cls=ci.name, module=ci.module)
            if "staticmethod" in decs:
                return f
            if "classmethod" in decs:
                return f.bind(via_class or VClass(clsname, mod.cls(clsname)))
            if "property" in decs:
                if inst is None:
                    raise Unsupported("property on class")
                return self.call(f.bind(inst), [], {})
            return f.bind(inst) if inst is not None else f
        # class-level assignment
        if isinstance(n, ast.Call) and isinstance(n.func, ast.Name) and n.func.id == "property" and inst is not None:
            fr = Frame(VFunc("user", "<class %s>" % ci.name, cls=ci.name, module=mod))
            self.frames.append(fr)
            try:
                getter = self.eval(n.args[0])
            finally:
                self.frames.pop()
            return self.call(getter, [inst], {})
        real = getattr(getattr(mod.real(), ci.name), name, None)
        b = w.speclib.lookup_real(self, real, name)
        if b is not None:
            return b
        return lift(real)

    def e_Call(self, e):
        # cast(T, v) / sys.intern(s): identity (extraction drops)
        if isinstance(e.func, ast.Name) and e.func.id == "cast" and len(e.args) == 2:
            return self.eval(e.args[1])
        if isinstance(e.func, ast.Attribute) and e.func.attr == "intern" and isinstance(e.func.value, ast.Name) \
                and e.func.value.id == "sys":
            return self.eval(e.args[0])
        if isinstance(e.func, ast.Name) and e.func.id == "super":
            return self.world.speclib.make_super(self)
        if self.spec_mode and isinstance(e.func, ast.Name) and e.func.id in ("old", "forall", "exists", "implies", "forall_any"):
            return self.spec_call(e)
        f = self.eval(e.func)
        args = []
        for a in e.args:
            if isinstance(a, ast.Starred):
                sv = self.eval(a.value)
                if isinstance(sv, VTuple):
                    args.extend(sv.items)
                else:
                    raise Unsupported("star-args of non-tuple")
            else:
                args.append(self.eval(a))
        kwargs = {}
        for k in e.keywords:
            if k.arg is None:
                raise Unsupported("**kwargs call")
            kwargs[k.arg] = self.eval(k.value)
        return self.call(f, args, kwargs, e)

    def spec_call(self, e):
        nm = e.func.id
        if nm == "old":
            prev = self.old_mode
            self.old_mode = True
            try:
                # old(x) for a parameter name: the entry value of the variable
                if isinstance(e.args[0], ast.Name) and self.old is not None and \
                        ("var:" + e.args[0].id) in self.old:
                    v = self.old["var:" + e.args[0].id]
                    if isinstance(v, VBox) and id(v) in self.old:
                        return VBox(v.kind, self.old[id(v)], v.name + "@old")
                    return v
                return self.eval(e.args[0])
            finally:
                self.old_mode = prev
        if nm == "implies":
            a = self.truth(self.eval(e.args[0]))
            if self.decided(a) is False:
                return VBool(True)          # the consequent is not evaluated (it may not even be well typed)
            # evaluate the consequent under the antecedent without forking the path
            return VBool(z3.Implies(a, self.truth(self.eval_guarded(e.args[1], a))))
        if nm == "forall_any":
            # forall_any(x, body): x ranges over all integers (opaque item values, references)
            var = e.args[0].id
            iv = z3.Int(fresh_name(var))
            fr = self.frame()
            saved = fr.vars.get(var)
            fr.vars[var] = VInt(iv)
            try:
                body = self.truth(self.eval_guarded(e.args[1], z3.BoolVal(True)))
            finally:
                if saved is None:
                    fr.vars.pop(var, None)
                else:
                    fr.vars[var] = saved
            return VBool(z3.ForAll([iv], body))
        if nm in ("forall", "exists"):
            # forall(i, lo, hi, body)
            var = e.args[0].id
            lo = self.eval(e.args[1]).t
            hi = self.eval(e.args[2]).t
            iv = z3.Int(fresh_name(var))
            fr = self.frame()
            saved = fr.vars.get(var)
            fr.vars[var] = VInt(iv)
            try:
                rng = z3.And(lo <= iv, iv < hi)
                body = self.truth(self.eval_guarded(e.args[3], rng))
            finally:
                if saved is None:
                    fr.vars.pop(var, None)
                else:
                    fr.vars[var] = saved
            if nm == "forall":
                return VBool(z3.ForAll([iv], z3.Implies(rng, body)))
            return VBool(z3.Exists([iv], z3.And(rng, body)))
        raise Unsupported(nm)

    def eval_guarded(self, node, guard):
        """Evaluate a pure spec expression under an extra assumption that must not leak into the
        path condition: run in a sub-executor state and merge results as ite-free value (the
        expression must not fork)."""
        mark = self.push_scope(guard)
        forks0, dec0, dpos0 = len(self.forks), len(self.decisions), self.dpos
        try:
            v = self.eval(node)
            if len(self.forks) != forks0 or self.dpos != dpos0:
                raise Unsupported("spec expression under implies/forall must not branch: %s" % ast.unparse(node))
            return v
        finally:
            self.pop_scope(mark)

    # ------------------------------------------------------------------ calls
    def call(self, f, args, kwargs, node=None):
        w = self.world
        if isinstance(f, VFunc):
            if f.kind == "builtin":
                a = ([f.selfv] if f.selfv is not None else []) + list(args)
                return f.fn(self, a, kwargs)
            # user function
            if f.name.startswith("spec:"):
                return self.pure_call(f, args, kwargs)
            c = w.contract_for_func(f)
            if c is not None and c.modular and not self.spec_mode:
                return w.modular_call(self, c, f, args, kwargs, node)
            if self.spec_mode and not isinstance(f.node, ast.Lambda) and not _is_generator(f.node):
                # real code called from specification context (e.g. the element expression of a
                # comprehension): evaluate with merged branches, no path forks
                return self.pure_call(f, args, kwargs, norec=True)
            return self.inline(f, args, kwargs, node)
        if isinstance(f, VClass):
            return self.instantiate(f, args, kwargs, node)
        if isinstance(f, VPy):
            if isinstance(f.obj, type) and f.obj.__name__ in _TYPE_NAMES and f.obj.__name__ in w.speclib.builtins:
                return w.speclib.builtins[f.obj.__name__](self, list(args), kwargs)
            r = w.speclib.call_real(self, f.obj, args, kwargs)
            if r is not None:
                return r
            if isinstance(f.obj, type) and issubclass(f.obj, BaseException):
                return VExc(f.obj, args, node)
        if isinstance(f, VOpt):
            if self.may_raise(f.isnone):
                self.raise_(TypeError, node=node)
            return self.call(f.val, args, kwargs, node)
        if isinstance(f, VRef) and not args and not kwargs and getattr(f, "weak", False) is not None:
            # dereferencing a weak reference: weakref.ref(x) is modelled as x itself (the referent is assumed alive)
            if self.may_raise(f.t == 0):
                self.raise_(TypeError, node=node)
            w.speclib.use("weakref.ref(x)() is x: referents of weak references are assumed to be alive")
            return f
        raise Unsupported("call of %r" % (f,))

    def bind_args(self, f, args, kwargs):
        a = f.node.args
        params = [x.arg for x in a.posonlyargs + a.args]
        vals = {}
        allargs = ([f.selfv] if f.selfv is not None else []) + list(args)
        if len(allargs) > len(params) and a.vararg is None:
            self.raise_(TypeError)
        for p, v in zip(params, allargs):
            vals[p] = v
        if a.vararg is not None:
            vals[a.vararg.arg] = VTuple(allargs[len(params):])
        defaults = a.defaults
        dstart = len(params) - len(defaults)
        for k, v in kwargs.items():
            if k in vals:
                self.raise_(TypeError)
            vals[k] = v
        for i, p in enumerate(params):
            if p not in vals:
                if i >= dstart:
                    vals[p] = self.eval_default(f, defaults[i - dstart])
                else:
                    self.raise_(TypeError)
        for ka, kd in zip(a.kwonlyargs, a.kw_defaults):
            if ka.arg not in vals:
                if kd is None:
                    self.raise_(TypeError)
                vals[ka.arg] = self.eval_default(f, kd)
        return vals

    def eval_default(self, f, node):
        fr = Frame(VFunc("user", "<defaults>", cls=f.cls, module=f.module), f.closure)
        self.frames.append(fr)
        try:
            return self.eval(node)
        finally:
            self.frames.pop()

    def inline(self, f, args, kwargs, node=None):
        if self.depth > 12:
            raise Unsupported("call depth (recursion?) at %s" % f.name)
        if isinstance(f.node, ast.Lambda):
            vals = self.bind_args(f, args, kwargs)
            fr = Frame(f, f.closure)
            fr.vars.update(vals)
            self.frames.append(fr)
            self.depth += 1
            try:
                return self.eval(f.node.body)
            finally:
                self.depth -= 1
                self.frames.pop()
        if _is_generator(f.node):
            return self.world.speclib.call_generator(self, f, args, kwargs)
        vals = self.bind_args(f, args, kwargs)
        fr = Frame(f, f.closure)
        fr.vars.update(vals)
        self.frames.append(fr)
        self.depth += 1
        try:
            try:
                self.exec_block(f.node.body)
            except _Return as r:
                return r.value
            return NONE
        finally:
            self.depth -= 1
            self.frames.pop()

    # ------------------------------------------------------------------ pure (merging) evaluation
    def decided(self, c):
        """True / False when the path condition decides c, else None"""
        c = z3.simplify(c)
        if z3.is_true(c):
            return True
        if z3.is_false(c):
            return False
        if self.no_ctx:
            return None
        if not self.feasible(z3.Not(c)):
            return True
        if not self.feasible(c):
            return False
        return None

    def ite(self, c, a, b):
        if a is b:
            return a
        if isinstance(a, VBox) and a.kind == "list":
            a = a.val
        if isinstance(b, VBox) and b.kind == "list":
            b = b.val
        if isinstance(a, (VInt, VBool)) and isinstance(b, (VInt, VBool)):
            if isinstance(a, VBool) and isinstance(b, VBool):
                return VBool(z3.If(c, a.t, b.t))
            return VInt(z3.If(c, unwrap("int", a), unwrap("int", b)))
        if a is NONE and b is NONE:
            return NONE
        if isinstance(a, VRef) or isinstance(b, VRef):
            # references: None is the reference 0
            cls = a.cls if isinstance(a, VRef) else b.cls
            if all(x is NONE or (isinstance(x, VRef) and x.cls == cls) for x in (a, b)):
                return VRef(cls, z3.If(c, unwrap(("ref", cls), a), unwrap(("ref", cls), b)))
        if a is NONE or b is NONE or isinstance(a, VOpt) or isinstance(b, VOpt):
            an = self.is_none(a)
            bn = self.is_none(b)
            av = a.val if isinstance(a, VOpt) else a
            bv = b.val if isinstance(b, VOpt) else b
            if av is NONE:
                val = bv
            elif bv is NONE:
                val = av
            else:
                val = self.ite(c, av, bv)
            return VOpt(z3.If(c, an, bn), val)
        if isinstance(a, VSeq) and isinstance(b, VSeq) and a.kind == b.kind:
            a, b = _coerce_empty(a, b)
            if a.view is not None and b.view is not None and a.view[0].eq(b.view[0]):
                return VSeq(a.kind, a.ety, None, view=(a.view[0], z3.If(c, a.view[1], b.view[1]),
                                                       z3.If(c, a.view[2], b.view[2])))
            return VSeq(a.kind, a.ety, z3.If(c, a.t, b.t))
        if isinstance(a, VTuple) and isinstance(b, VTuple) and len(a.items) == len(b.items):
            return VTuple([self.ite(c, x, y) for x, y in zip(a.items, b.items)])
        if isinstance(a, VBox) and isinstance(b, VBox) and a.kind == b.kind == "dict":
            from vf.pyvc.values import DictVal, empty_dict
            av, bv = a.val, b.val
            if av is None and bv is not None:
                av = empty_dict(bv.kty, bv.vty)
            if bv is None and av is not None:
                bv = empty_dict(av.kty, av.vty)
            if av is not None:
                return VBox("dict", DictVal(av.kty, av.vty, z3.If(c, av.keys, bv.keys), z3.If(c, av.vals, bv.vals)), "ite")
        raise Unsupported("ite merge of %r and %r" % (a, b))

    def _memo_key(self, v):
        if isinstance(v, (VInt, VBool)):
            t = z3.simplify(v.t)
            self._keep.append(t)
            return ("t", t.get_id())
        if v is NONE:
            return ("none",)
        if isinstance(v, VSeq):
            if v.pyval is not None and not isinstance(v.pyval, list):
                return ("c", v.kind, v.pyval)
            if v.view is not None:
                ids = []
                for x in v.view:
                    x = z3.simplify(x)
                    self._keep.append(x)
                    ids.append(x.get_id())
                return ("v", v.kind, tuple(ids))
            if v._t is None:
                return None
            self._keep.append(v._t)         # ids are only unique among live terms
            return ("s", v.kind, str(v.ety), v._t.get_id())
        if isinstance(v, VTuple):
            ks = [self._memo_key(x) for x in v.items]
            return None if any(k is None for k in ks) else ("tu", tuple(ks))
        if isinstance(v, VOpt):
            k = self._memo_key(v.val)
            n_ = z3.simplify(v.isnone)
            self._keep.append(n_)
            return None if k is None else ("o", n_.get_id(), k)
        if isinstance(v, VPy):
            return ("py", id(v.obj))
        return None         # mutable objects: not memoised

    def pure_call(self, f, args, kwargs, norec=False):
        if not norec:
            rec = self.world.speclib.rec_spec(self, f, args, kwargs)
            if rec is not None:
                return rec
        # (a per-path memoisation of pure spec evaluations was tried and abandoned: with it the vacuity
        # probe of C18 became refutable, i.e. some cached result was context dependent; see DESIGN)
        return self._pure_call(f, args, kwargs)

    def _pure_call(self, f, args, kwargs):
        vals = self.bind_args(f, args, kwargs)
        fr = Frame(f, f.closure)
        fr.vars.update(vals)
        self.frames.append(fr)
        self.spec_mode += 1
        self.depth += 1
        try:
            if self.depth > 40:
                raise Unsupported("spec recursion too deep in %s" % f.name)
            r = self.pure_block(f.node.body, fr)
            return NONE if r is None else r
        finally:
            self.depth -= 1
            self.spec_mode -= 1
            self.frames.pop()

    def pure_block(self, stmts, fr):
        for i, st in enumerate(stmts):
            if isinstance(st, ast.Return):
                return self.eval(st.value) if st.value is not None else NONE
            if isinstance(st, (ast.Assign, ast.AugAssign, ast.AnnAssign)):
                self.exec_stmt(st)
                continue
            if isinstance(st, ast.Expr) and isinstance(st.value, ast.Constant):
                continue
            if isinstance(st, ast.Pass):
                continue
            if isinstance(st, ast.Assert):
                continue
            if isinstance(st, ast.If):
                c = self.truth(self.eval(st.test))
                one = self.decided(c)
                rest = stmts[i + 1:]
                if one is True:
                    return self.pure_block(list(st.body) + rest, fr)
                if one is False:
                    return self.pure_block(list(st.orelse) + rest, fr)
                saved = dict(fr.vars)
                rt = self.pure_guarded(list(st.body) + rest, fr, c)
                fr.vars.clear()
                fr.vars.update(saved)
                rf = self.pure_guarded(list(st.orelse) + rest, fr, z3.Not(c))
                fr.vars.clear()
                fr.vars.update(saved)
                if rt is None or rf is None:
                    raise Unsupported("spec function %s: a branch falls off the end" % fr.func.name)
                return self.ite(c, rt, rf)
            raise Unsupported("statement %s in spec function %s" % (type(st).__name__, fr.func.name))
        return None

    def pure_guarded(self, stmts, fr, guard):
        mark = self.push_scope(guard)
        try:
            return self.pure_block(stmts, fr)
        finally:
            self.pop_scope(mark)

    def instantiate(self, c, args, kwargs, node=None):
        mod = c.info.module
        real = getattr(mod.real(), c.name, None)
        if isinstance(real, type) and issubclass(real, BaseException):
            return VExc(real, args, node)
        if c.name in self.world.heap_classes:
            obj = self.new_ref(c.name)
        else:
            obj = VObj(c.name, {}, fresh_name(c.name.lower()))
        init = mod.mro_lookup(c.name, "__init__")
        if init is not None and init[0] == "method":
            f = VFunc("user", "%s.__init__" % init[2].name, node=init[1], cls=init[2].name, module=mod)
            self.call(f.bind(obj), args, kwargs, node)
        return obj


def _coerce_empty(a, b):
    """the polymorphic empty list [] takes the element type of the list it meets"""
    if a.kind == "list" and a.ety is None and a.pyval == [] and b.ety is not None:
        a = VSeq("list", b.ety, z3.Empty(sort_of(("list", b.ety))))
    if b.kind == "list" and b.ety is None and b.pyval == [] and a.ety is not None:
        b = VSeq("list", a.ety, z3.Empty(sort_of(("list", a.ety))))
    return a, b


_TYPE_NAMES = ("bytes", "str", "int", "tuple", "list", "bool", "dict", "set", "object", "frozenset")


def binding_order(fn):
    """parameters, then local names in order of their first binding occurrence"""
    out = [a.arg for a in fn.args.posonlyargs + fn.args.args + fn.args.kwonlyargs]
    seen = set(out)

    def add(t):
        if isinstance(t, ast.Name):
            if t.id not in seen:
                seen.add(t.id)
                out.append(t.id)
        elif isinstance(t, (ast.Tuple, ast.List)):
            for x in t.elts:
                add(x)
        elif isinstance(t, ast.Starred):
            add(t.value)

    class W(ast.NodeVisitor):
        def visit_FunctionDef(self, n):
            if n is not fn:
                if n.name not in seen:
                    seen.add(n.name)
                    out.append(n.name)
                return
            self.generic_visit(n)

        def visit_Lambda(self, n):
            pass

        def visit_Assign(self, n):
            self.visit(n.value)
            for t in n.targets:
                add(t)

        def visit_AugAssign(self, n):
            self.visit(n.value)
            add(n.target)

        def visit_For(self, n):
            self.visit(n.iter)
            add(n.target)
            for s_ in n.body + n.orelse:
                self.visit(s_)

        def visit_With(self, n):
            for it in n.items:
                self.visit(it.context_expr)
                if it.optional_vars is not None:
                    add(it.optional_vars)
            for s_ in n.body:
                self.visit(s_)

        def visit_ExceptHandler(self, n):
            if n.name and n.name not in seen:
                seen.add(n.name)
                out.append(n.name)
            self.generic_visit(n)
    W().visit(fn)
    return out


def _same_func(a, b):
    return a.node is b.node


def _load(target):
    import copy
    t = copy.copy(target)
    t.ctx = ast.Load()
    return t


def _is_generator(fn):
    for n in _walk_shallow(fn):
        if isinstance(n, (ast.Yield, ast.YieldFrom)):
            return True
    return False


def _walk_shallow(fn):
    """walk a function body without descending into nested function definitions"""
    todo = list(fn.body) if not isinstance(fn, ast.Lambda) else [fn.body]
    while todo:
        n = todo.pop()
        yield n
        for c in ast.iter_child_nodes(n):
            if isinstance(c, (ast.FunctionDef, ast.Lambda, ast.ClassDef)):
                continue
            todo.append(c)


def _nonlocals(fn):
    out = set()
    if isinstance(fn, ast.Lambda):
        return out
    for n in _walk_shallow(fn):
        if isinstance(n, ast.Nonlocal):
            out.update(n.names)
    return out


def _target_names(t):
    if isinstance(t, ast.Name):
        return {t.id}
    if isinstance(t, (ast.Tuple, ast.List)):
        out = set()
        for x in t.elts:
            out |= _target_names(x)
        return out
    return set()


def _assigned_names(stmts):
    out = set()

    class W(ast.NodeVisitor):
        def visit_FunctionDef(self, n):
            out.add(n.name)

        def visit_Lambda(self, n):
            pass

        def visit_Assign(self, n):
            for t in n.targets:
                out.update(_target_names(t))
            self.generic_visit(n)

        def visit_AugAssign(self, n):
            out.update(_target_names(n.target))
            self.generic_visit(n)

        def visit_AnnAssign(self, n):
            out.update(_target_names(n.target))
            self.generic_visit(n)

        def visit_For(self, n):
            out.update(_target_names(n.target))
            self.generic_visit(n)

        def visit_With(self, n):
            for it in n.items:
                if it.optional_vars is not None:
                    out.update(_target_names(it.optional_vars))
            self.generic_visit(n)

        def visit_ExceptHandler(self, n):
            if n.name:
                out.add(n.name)
            self.generic_visit(n)

        def visit_NamedExpr(self, n):
            out.update(_target_names(n.target))
            self.generic_visit(n)
    for s in stmts:
        W().visit(s)
    return out


_MUTATORS = {"append", "pop", "extend", "insert", "remove", "clear", "add", "discard", "update",
             "sort", "reverse", "popleft", "appendleft", "setdefault", "__next__", "write"}


def _mutated_names(stmts):
    """names whose *object* may be mutated in place by the statements (method call with a
    mutating name, subscript store / delete, augmented assignment, `for x in name` on an iterator)"""
    out = set()
    for s in stmts:
        for n in ast.walk(s):
            if isinstance(n, ast.Call) and isinstance(n.func, ast.Attribute) and isinstance(n.func.value, ast.Name) \
                    and n.func.attr in _MUTATORS:
                out.add(n.func.value.id)
            if isinstance(n, ast.Call) and isinstance(n.func, ast.Name) and n.func.id == "next" and n.args \
                    and isinstance(n.args[0], ast.Name):
                out.add(n.args[0].id)
            if isinstance(n, (ast.Assign, ast.AugAssign, ast.Delete)):
                ts = n.targets if not isinstance(n, ast.AugAssign) else [n.target]
                for t in ts:
                    if isinstance(t, ast.Subscript) and isinstance(t.value, ast.Name):
                        out.add(t.value.id)
                    if isinstance(n, ast.AugAssign) and isinstance(t, ast.Name):
                        out.add(t.id)
            if isinstance(n, ast.For) and isinstance(n.iter, ast.Name):
                out.add(n.iter.id)
    return out
