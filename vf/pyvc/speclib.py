"""speclib: the trusted models of builtins / stdlib used by functions under contract (DESIGN 2.4).

Every entry here is *trusted* and is validated against CPython by vf.pyvc.selftest (executable twin
agreement on bounded-exhaustive inputs).  Entries are listed by name in the evidence of each check
that used them (ex.world.speclib.used).
"""
import ast
import re as _re

import z3

from vf.runner import Unsupported
from vf.pyvc.values import (V, VInt, VBool, NONE, VSeq, VBox, VTuple, VOpt, VObj, VPy, VFunc, VClass, VRef, VArr, DictVal, empty_dict, REC_CLASSES,
                            I, B, SeqI, SeqSeqI, wrap, unwrap, type_of, fresh, fresh_name, const_seq, lift, sort_of)

# uninterpreted / axiomatised symbols ------------------------------------------------------------
F_FIND = z3.Function("first_at", SeqI, I, I, I)      # first_at(buf, c, p): least i >= p with buf[i]==c, or -1
F_PYINT = z3.Function("py_int", SeqI, I)             # int(<text>) when it is a numeral
F_ISINT = z3.Function("py_is_int", SeqI, B)          # whether int(<text>) succeeds
F_FILEDATA = z3.Function("file_data", SeqI, SeqI)    # content of the file named <name> (re-open by name)
F_LSKIP = z3.Function("py_lskip", SeqI, I, I, I)      # first index of the view that strip() keeps
F_RSKIP = z3.Function("py_rskip", SeqI, I, I, I)      # end index that strip() keeps
F_DECODE = z3.Function("py_decode", SeqI, SeqI, SeqI, SeqI)
F_SPLITLINES = z3.Function("py_splitlines", SeqI, z3.SeqSort(SeqI))
F_JOIN = z3.Function("py_join", SeqI, z3.SeqSort(SeqI), SeqI)
_isspace_cache = {}


def _isspace_ranges(kind):
    if kind not in _isspace_cache:
        from vf import rx
        if kind == "bytes":
            cps = [c for c in range(256) if bytes([c]).isspace()]
        else:
            cps = [c for c in range(0x110000) if chr(c).isspace()]
        _isspace_cache[kind] = rx._ranges(cps)
    return _isspace_cache[kind]


def _finite_units(t):
    """the element terms of a sequence term that is structurally a finite concatenation of units, else None"""
    t = z3.simplify(t)
    if z3.is_app(t):
        k = t.decl().kind()
        if k == z3.Z3_OP_SEQ_EMPTY:
            return []
        if k == z3.Z3_OP_SEQ_UNIT:
            return [t.arg(0)]
        if k == z3.Z3_OP_SEQ_CONCAT:
            out = []
            for c in t.children():
                r = _finite_units(c)
                if r is None:
                    return None
                out += r
            return out
    return None


def _concrete_str_list(t, ety):
    """Python list of str / bytes when the list term consists of constants only, else None"""
    elems = _finite_units(t)
    if elems is None:
        return None
    out = []
    for e in elems:
        cs = _finite_units(e)
        if cs is None or not all(z3.is_int_value(c) for c in cs):
            return None
        codes = [c.as_long() for c in cs]
        out.append("".join(map(chr, codes)) if ety == "str" else bytes(codes))
    return out


class ObjDict(dict):
    """dict with concrete keys whose values are objects with identity (no SMT sort): a finite Python map"""


class SetVal:
    """A Python set in one of two forms: mode 'seq' - the elements of a symbolic list (membership only);
    mode 'cond' - finitely many concrete elements, each present under a condition (membership, len, truth,
    intersection, list() when at most one element can be present)."""

    def __init__(self, mode, ety, seq=None, items=None):
        self.mode, self.ety, self.seq, self.items = mode, ety, seq, items or []

    def __repr__(self):
        return "SetVal(%s, %r)" % (self.mode, self.seq if self.mode == "seq" else [e.pyval for e, _c in self.items])


F_REMATCH = z3.Function("re_matches", I, z3.StringSort(), SeqI, B)
F_FINDALL = z3.Function("re_findall", I, SeqI, SeqSeqI)
F_STRIPC = z3.Function("py_strip_chars", SeqI, SeqI, SeqI)
F_REGROUP = z3.Function("re_group", I, z3.StringSort(), I, SeqI, SeqI)
F_REGROUPNONE = z3.Function("re_group_is_none", I, z3.StringSort(), I, SeqI, B)


def _group_optional(pat, k):
    """can group k fail to participate in a match?  (syntactic: inside ?, *, {0,..} or an alternation)"""
    import re._parser as sp
    tree = sp.parse(pat.pattern, pat.flags)

    def walk(items, optional):
        for op, av in items:
            nm = str(op)
            if nm == "SUBPATTERN":
                gid, _, _, sub = av
                if gid == k:
                    return optional
                r = walk(sub, optional)
                if r is not None:
                    return r
            elif nm in ("MAX_REPEAT", "MIN_REPEAT", "POSSESSIVE_REPEAT"):
                lo, hi, sub = av
                r = walk(sub, optional or lo == 0)
                if r is not None:
                    return r
            elif nm == "BRANCH":
                for alt in av[1]:
                    r = walk(alt, True)
                    if r is not None:
                        return r
            elif nm in ("ASSERT", "ASSERT_NOT"):
                r = walk(av[1], True)
                if r is not None:
                    return r
        return None
    r = walk(tree, False)
    return True if r is None else r


class SpecLib:
    def __init__(self):
        self.used = set()
        self.builtins = {}
        self.methods = {}
        self.models = {}
        self.reals = []
        import weakref as _weakref
        self.reals.append((lambda real, name: real is _weakref.ref,
                           lambda real, name: VFunc("builtin", "weakref.ref", fn=lambda ex, a, kw: a[0])))
        self.rec_specs = {}
        self._pattern_ids = {}
        self._slice_fns = {}
        self._patterns = {}
        self.regex_facts = []
        self._install()

    # ------------------------------------------------------------------ registration helpers
    def use(self, name):
        self.used.add(name)

    def builtin(self, name):
        f = self.builtins.get(name)
        if f is None:
            return None
        return VFunc("builtin", name, fn=f)

    def model_method(self, cls, name):
        f = self.models.get((cls, name))
        if f is None:
            return None
        return VFunc("builtin", "%s.%s" % (cls, name), fn=f)

    def method(self, ex, obj, name):
        kind = None
        if isinstance(obj, VSeq):
            kind = obj.kind
        elif isinstance(obj, VBox):
            kind = obj.kind
        elif isinstance(obj, VPy):
            if isinstance(obj.obj, _re.Pattern):
                kind = "pattern"
            elif hasattr(obj.obj, name) and isinstance(obj.obj, type(_re)) and not isinstance(obj.obj, _re.Pattern):
                real = getattr(obj.obj, name)
                b = self.lookup_real(ex, real, name)
                return b if b is not None else lift(real)
        elif isinstance(obj, VTuple):
            kind = "tuple"
        f = self.methods.get((kind, name))
        if f is None:
            return None
        return VFunc("builtin", "%s.%s" % (kind, name), fn=f).bind(obj)

    def lookup_real(self, ex, real, name):
        """Map a real object found in the module namespace to its model (None: no model)."""
        for pred, mk in self.reals:
            if pred(real, name):
                return mk(real, name)
        return None

    # ---- ghost file system: ex.fs is a dict box  path -> content (one string); every operation that can
    # fail in reality has a may-raise outcome (a fresh Boolean decides), which is what turns "the i-th
    # write fails", "rename fails" ... into explicit paths
    def _fs_fail(self, ex, what):
        flag = z3.Bool(fresh_name("fails_" + what))
        return ex.branch(flag)

    def fs_open_write(self, ex, name):
        self.use("ghost file system: open(path, 'w+') either raises OSError (nothing changes) or creates/truncates the file")
        if isinstance(name, VOpt):
            name = ex.deopt(name)
        if self._fs_fail(ex, "open"):
            ex.raise_(OSError)
        self.dict_set(ex, ex.fs, name, const_seq("str", ""))
        return VObj("TextIOW", {"path": name, "closed": VBool(False)}, fresh_name("wf"))

    def call_real(self, ex, obj, args, kwargs):
        import os as _os
        if getattr(ex, "fs", None) is not None:
            if obj is _os.rename:
                self.use("ghost file system: os.rename(a, b) either raises OSError (nothing changes) or moves a over b")
                a, b = args
                if self._fs_fail(ex, "rename"):
                    ex.raise_(OSError)
                content = self.dict_get(ex, ex.fs, a)
                self.dict_del(ex, ex.fs, a)
                self.dict_set(ex, ex.fs, b, content)
                return NONE
            if obj is _os.path.exists:
                return VBool(self.box_contains(ex, ex.fs, args[0]))
            if obj is _os.unlink:
                self.use("ghost file system: os.unlink(p) removes p and is assumed not to fail on an existing file")
                if ex.may_raise(z3.Not(self.box_contains(ex, ex.fs, args[0]))):
                    ex.raise_(FileNotFoundError)
                self.dict_del(ex, ex.fs, args[0])
                return NONE
        import io as _io
        if obj is _io.StringIO and not args and not kwargs:
            self.use("io.StringIO(): a text buffer; write(s) appends s, getvalue() returns what was written")
            return VObj("StringIO", {"buffer": const_seq("str", "")}, fresh_name("sio"))
        import sys as _sys
        if obj is _sys.getfilesystemencoding:
            self.use("sys.getfilesystemencoding(): some fixed string (uninterpreted constant fs_encoding)")
            return VSeq("str", "int", z3.Const("fs_encoding", SeqI))
        return None

    # ------------------------------------------------------------------ sequences
    def seqval(self, v):
        if isinstance(v, VBox) and v.kind == "list":
            return v.val
        return v

    def clamp(self, i, n, default, ex=None):
        """Python slice-bound clamping; conditions the path condition already decides are
        resolved here so that the terms stay small (context-aware simplification)."""
        if i is NONE:
            return default
        if isinstance(i, VOpt):
            d = ex.decided(i.isnone) if ex is not None else None
            if d is True:
                return default
            if d is False:
                return self.clamp(i.val, n, default, ex)
            return z3.If(i.isnone, default, self.clamp(i.val, n, default, ex))
        t = unwrap("int", i)

        def ite(c, a, b):
            d = ex.decided(c) if ex is not None else None
            if d is True:
                return a()
            if d is False:
                return b()
            return z3.If(c, a(), b())
        return ite(t < 0, lambda: ite(t + n < 0, lambda: z3.IntVal(0), lambda: t + n),
                   lambda: ite(t > n, lambda: n, lambda: t))

    def getslice(self, ex, obj, lo, hi):
        box = isinstance(obj, VBox)
        s = self.seqval(obj)
        if isinstance(s, VOpt):
            if ex.may_raise(s.isnone):
                ex.raise_(TypeError)
            s = self.seqval(s.val)
        if isinstance(s, VTuple):
            l = 0 if lo is NONE else lo.py()
            h = len(s.items) if hi is NONE else hi.py()
            if l is None or h is None:
                raise Unsupported("symbolic slice of tuple")
            return VTuple(s.items[l:h])
        if not isinstance(s, VSeq):
            raise Unsupported("slice of %r" % (obj,))
        if s.pyval is not None:
            l = None if lo is NONE else (lo.py() if isinstance(lo, VInt) else "?")
            h = None if hi is NONE else (hi.py() if isinstance(hi, VInt) else "?")
            if l != "?" and h != "?" and (lo is NONE or l is not None) and (hi is NONE or h is not None):
                return const_seq(s.kind, s.pyval[l:h])
        n = s.length()
        l = z3.simplify(self.clamp(lo, n, z3.IntVal(0), ex))
        h = z3.simplify(self.clamp(hi, n, n, ex))
        d = ex.decided(h < l)
        h = l if d is True else h if d is False else z3.simplify(z3.If(h < l, l, h))
        if s.view is not None:
            buf, L, H = s.view
            r = VSeq(s.kind, s.ety, None, view=(buf, z3.simplify(L + l), z3.simplify(L + h)))
        else:
            r = VSeq(s.kind, s.ety, None, view=(s.t, l, h))
        return VBox("list", r) if box else r

    def seq_index(self, ex, s, idx, checked=True, node=None):
        s = self.seqval(s)
        n = s.length()
        i = unwrap("int", idx)
        if checked and not ex.spec_mode:      # specifications are total (out of range: unspecified)
            if ex.branch(z3.Or(i >= n, i < -n)):
                ex.raise_(IndexError, node=node)
        i = z3.simplify(z3.If(i < 0, i + n, i))
        if s.pyval is not None and z3.is_int_value(i):
            k = i.as_long()
            if s.kind == "str":
                return const_seq("str", s.pyval[k])
            return VInt(s.pyval[k])
        if s.view is not None:
            buf, L, H = s.view
            if s.kind == "str":
                return VSeq("str", "int", None, view=(buf, z3.simplify(L + i), z3.simplify(L + i + 1)))
            if s.kind == "bytes":
                return VInt(buf[L + i])
            return wrap(s.ety, buf[L + i])
        if s.kind == "str":
            return VSeq("str", "int", None, view=(s.t, i, z3.simplify(i + 1)))
        if s.kind == "bytes":
            return VInt(s.t[i])
        return wrap(s.ety, s.t[i])

    def getitem(self, ex, obj, key, node=None):
        if isinstance(obj, VOpt):
            if ex.may_raise(obj.isnone):
                ex.raise_(TypeError, node=node)
            obj = obj.val
        if isinstance(obj, VTuple):
            k = key.py() if isinstance(key, VInt) else None
            if k is None:
                raise Unsupported("symbolic index into tuple")
            if not -len(obj.items) <= k < len(obj.items):
                ex.raise_(IndexError, node=node)
            return obj.items[k]
        if isinstance(obj, VArr):
            return wrap(obj.ety, z3.Select(obj.t, unwrap("int", key)))
        if isinstance(obj, (VSeq,)) or (isinstance(obj, VBox) and obj.kind == "list"):
            if isinstance(key, VBool):
                key = VInt(unwrap("int", key))
            if not isinstance(key, VInt):
                ex.raise_(TypeError, node=node)
            return self.seq_index(ex, obj, key, checked=True, node=node)
        if isinstance(obj, VBox) and obj.kind == "dict":
            return self.dict_get(ex, obj, key, node)
        if isinstance(obj, VObj) and obj.cls == "SplitResult":
            if not (isinstance(key, VInt) and key.py() == 0):
                raise Unsupported("only element 0 of a split() result is modelled")
            return obj.fields["first"]
        if isinstance(obj, VRef) and obj.cls in getattr(ex.world, "abstract_items", {}):
            # an object the function only reads through obj[key]: the item is a spec function of (obj, key)
            return ex.call(ex.world.spec_env[ex.world.abstract_items[obj.cls]], [obj, key], {})
        if isinstance(obj, (VObj, VRef)) and not (isinstance(obj, VObj) and obj.cls in REC_CLASSES):
            # a user class: obj[key] is obj.__getitem__(key)
            mod = ex.world.module_of_class(obj.cls)
            if mod is not None and mod.mro_lookup(obj.cls, "__getitem__"):
                return ex.call(ex.getattr(obj, "__getitem__"), [key], {})
        raise Unsupported("subscript of %r" % (obj,))

    def setitem(self, ex, obj, key, v):
        if isinstance(obj, VBox) and obj.kind == "dict":
            return self.dict_set(ex, obj, key, v)
        if isinstance(obj, VBox) and obj.kind == "list":
            s = obj.val
            n = s.length()
            i = unwrap("int", key)
            if ex.may_raise(z3.Or(i >= n, i < -n)):
                ex.raise_(IndexError)
            i = z3.If(i < 0, i + n, i)
            t = s.t
            obj.val = VSeq("list", s.ety, z3.Concat(z3.SubSeq(t, 0, i), z3.Unit(unwrap(s.ety, v)),
                                                    z3.SubSeq(t, i + 1, n - i - 1)))
            return
        if isinstance(obj, (VObj, VRef)):
            # a user class: obj[key] = v is obj.__setitem__(key, v)
            mod = ex.world.module_of_class(obj.cls)
            if mod is not None and mod.mro_lookup(obj.cls, "__setitem__"):
                ex.call(ex.getattr(obj, "__setitem__"), [key, v], {})
                return
        raise Unsupported("item store on %r" % (obj,))

    def setslice(self, ex, obj, lo, hi, v):
        if not (isinstance(obj, VBox) and obj.kind == "list"):
            raise Unsupported("slice store on %r" % (obj,))
        self.use("list.__setitem__(slice): ls[a:b] = xs is ls[:a'] + xs + ls[max(a',b'):] with Python's clamping")
        s = obj.val
        new = self.seqval(v)
        if not isinstance(new, VSeq):
            raise Unsupported("slice store of %r" % (v,))
        s, new = _coerce_empty_seq(s, new)
        if lo is NONE or hi is NONE or isinstance(lo, VOpt) or isinstance(hi, VOpt):
            raise Unsupported("slice store with an omitted bound")
        srt = sort_of(("list", s.ety))
        F = self._slice_assign_fn(srt)
        a, b = unwrap("int", lo), unwrap("int", hi)
        app = F(s.t, a, b, new.t)
        # definitional axiom (opaque application + its meaning): keeps code-side and spec-side
        # terms syntactically equal, the concatenation is only unfolded where content matters
        n = z3.Length(s.t)
        cl = lambda t: z3.If(t < 0, z3.If(t + n < 0, 0, t + n), z3.If(t > n, n, t))
        l, h = cl(a), cl(b)
        h = z3.If(h < l, l, h)
        ex.define(app == z3.Concat(z3.SubSeq(s.t, 0, l), new.t, z3.SubSeq(s.t, h, n - h)),
                  key=("slice-assign", app.get_id()))
        ex._keep.append(app)
        obj.val = VSeq("list", s.ety, app)

    def _slice_assign_fn(self, srt):
        key = str(srt)
        if key not in self._slice_fns:
            self._slice_fns[key] = z3.Function("py_slice_assign_%d" % len(self._slice_fns), srt, I, I, srt, srt)
        return self._slice_fns[key]

    def delitem(self, ex, obj, key):
        if isinstance(obj, VBox) and obj.kind == "dict":
            return self.dict_del(ex, obj, key)
        raise Unsupported("del item on %r" % (obj,))

    def make_list(self, ex, items):
        if not items:
            # element type unknown until the first append: a polymorphic empty list
            return VBox("list", VSeq("list", None, None, py=[]))
        ety = type_of(items[0])
        t = z3.Concat(*[z3.Unit(unwrap(ety, x)) for x in items]) if len(items) > 1 else z3.Unit(unwrap(ety, items[0]))
        return VBox("list", VSeq("list", ety, t))

    def make_dict(self, ex, items):
        box = VBox("dict", None, "dict")         # key / value types are fixed by the first store
        for k, v in items:
            self.dict_set(ex, box, k, v)
        return box

    def make_iter(self, ex, it):
        """-> VBox('iter', (VSeq, cursor)) for symbolic sequences, or a Python list of V for
        concrete finite ones"""
        if isinstance(it, VTuple):
            return list(it.items)
        if isinstance(it, VBox) and it.kind == "iter":
            return it
        if isinstance(it, VBox) and it.kind == "list" and it.val.pyval != []:
            # a list iterator reads the live list: keep the box, not a snapshot of its content
            b = VBox("iter", (it.val, VInt(0)), "iter")
            b.live = it
            return b
        if isinstance(it, VRef) and it.cls in getattr(ex.world, "abstract_iter", {}):
            # an object the function only reads: iterating it yields the elements a spec function of the object names
            return self.make_iter(ex, ex.call(ex.world.spec_env[ex.world.abstract_iter[it.cls]], [it], {}))
        if isinstance(it, VBox) and it.kind == "dict" and isinstance(it.val, DictVal):
            # iteration over a dict with symbolic keys: some sequence of exactly its keys, nothing assumed about the order (not
            # even that two iterations of the same dict agree - weaker than Python, hence sound)
            self.use("iteration over a dict: an arbitrary duplicate-free sequence consisting of exactly its keys (order unspecified)")
            d = it.val
            ks = sort_of(d.kty)
            order = z3.Const(fresh_name("dict_order"), z3.SeqSort(ks))
            posf = z3.Function(fresh_name("dict_pos"), ks, I)           # ghost: the position of a key in that sequence
            k, i = z3.Const("k!do", ks), z3.Int("i!do")
            n = z3.Length(order)
            ex.define(z3.And(
                z3.ForAll([k], z3.Implies(z3.Select(d.keys, k), z3.And(posf(k) >= 0, posf(k) < n, order[posf(k)] == k)),
                          patterns=[posf(k)]),
                z3.ForAll([i], z3.Implies(z3.And(i >= 0, i < n), z3.And(z3.Select(d.keys, order[i]), posf(order[i]) == i)),
                          patterns=[order[i]])), key=("dict-order", order.get_id()))
            ex._keep.append(order)
            b = VBox("iter", (VSeq("list", d.kty, order), VInt(0)), "iter")
            kty = d.kty
            b.pos_fn = VFunc("builtin", "dict_pos", fn=lambda ex_, a, kw: VInt(posf(unwrap(kty, a[0]))))
            # the instance of the second axiom for the element a loop takes (z3 does not E-match on seq.nth)
            keys_ = d.keys
            b.take_fact = lambda cur, x: z3.And(z3.Select(keys_, unwrap(kty, x)), posf(unwrap(kty, x)) == cur)
            return b
        if isinstance(it, (VObj, VRef)) and not (isinstance(it, VObj) and it.cls in REC_CLASSES):
            # a user class: iteration goes through __iter__ (which must be under a modular contract that returns a list)
            mod = ex.world.module_of_class(it.cls)
            if mod is not None and mod.mro_lookup(it.cls, "__iter__"):
                r = ex.call(ex.getattr(it, "__iter__"), [], {})
                if isinstance(r, (VObj, VRef)):
                    raise Unsupported("__iter__ of %s returned an object" % it.cls)
                return self.make_iter(ex, r)
        s = self.seqval(it)
        if isinstance(s, VSeq):
            if s.pyval is not None and s.kind in ("str", "bytes"):
                return [const_seq("str", c) if s.kind == "str" else VInt(c) for c in s.pyval]
            if s.pyval == []:
                return []
            return VBox("iter", (s, VInt(0)), "iter")
        return None

    def contains(self, ex, container, item):
        if isinstance(container, (VObj, VRef)) and not (isinstance(container, VObj) and container.cls in REC_CLASSES):
            mod = ex.world.module_of_class(container.cls)
            if mod is not None and mod.mro_lookup(container.cls, "__contains__"):
                return ex.truth(ex.call(ex.getattr(container, "__contains__"), [item], {}))
        if isinstance(container, VTuple):
            return z3.Or(*[ex.eq(item, x) for x in container.items]) if container.items else z3.BoolVal(False)
        c = self.seqval(container)
        if isinstance(item, VOpt) and isinstance(c, VSeq) and c.kind == "list" and not (isinstance(c.ety, tuple) and c.ety[0] == "opt"):
            # None is never an element of a list of non-optional values
            return z3.And(z3.Not(item.isnone), self.contains(ex, container, item.val))
        if isinstance(c, VSeq):
            if c.kind in ("str", "bytes") and isinstance(item, VSeq):
                if c.pyval is not None and item.pyval is not None:
                    return z3.BoolVal(item.pyval in c.pyval)
                if c.pyval is not None and c.kind == "str":
                    # x in "abc": x is some substring; for 1-char needles enumerate
                    return z3.Contains(c.t, item.t)
                self.use("str.__contains__")
                return z3.Contains(c.t, item.t)
            if c.kind == "bytes" and isinstance(item, VInt):
                return z3.Contains(c.t, z3.Unit(item.t))
            if c.kind == "list":
                if c.pyval == []:
                    return z3.BoolVal(False)
                return z3.Contains(c.t, z3.Unit(unwrap(c.ety, item)))
        if isinstance(container, VBox) and container.kind in ("dict", "set"):
            return self.box_contains(ex, container, item)
        raise Unsupported("`in` on %r" % (container,))

    def compare(self, ex, op, a, b):
        # ordering of str / bytes values: lexicographic by code point, modelled when one side is concrete
        if isinstance(a, VSeq) and isinstance(b, VSeq) and a.kind == b.kind and a.kind in ("str", "bytes") \
                and isinstance(op, (ast.Lt, ast.LtE, ast.Gt, ast.GtE)):
            if isinstance(op, (ast.Gt, ast.GtE)):
                a, b = b, a
                op = ast.Lt() if isinstance(op, ast.Gt) else ast.LtE()
            strict = isinstance(op, ast.Lt)

            def conc_vs_sym(c, x, k, strict):      # c[k:] < / <= x[k:]
                if k == len(c):
                    return z3.Length(x) > k if strict else z3.BoolVal(True)
                ck = c[k] if isinstance(c[k], int) else ord(c[k])
                return z3.And(z3.Length(x) > k, z3.Or(x[k] > ck, z3.And(x[k] == ck, conc_vs_sym(c, x, k + 1, strict))))
            if a.pyval is not None and b.pyval is not None:
                return z3.BoolVal(a.pyval < b.pyval if strict else a.pyval <= b.pyval)
            if a.pyval is not None and len(a.pyval) <= 8:
                self.use("str/bytes ordering: lexicographic by code point")
                return conc_vs_sym(a.pyval, b.t, 0, strict)
            if b.pyval is not None and len(b.pyval) <= 8:
                self.use("str/bytes ordering: lexicographic by code point")
                return z3.Not(conc_vs_sym(b.pyval, a.t, 0, not strict))
        return None

    def binop(self, ex, op, a, b):
        if isinstance(op, ast.BitAnd) and isinstance(a, VBox) and a.kind == "set" and isinstance(b, VBox) and b.kind == "set":
            return self.set_intersection(ex, a, b)
        return None

    def identical(self, ex, a, b):
        return None

    def seq_repeat(self, ex, s, n):
        """n * "c" for a one-character constant: an uninterpreted function of n with the facts the callers need - its length is
        max(n, 0) and no other character occurs in it (stated for the line terminators, which is what the guards ask about)"""
        if not (s.kind in ("str", "bytes") and s.pyval is not None and len(s.pyval) == 1):
            raise Unsupported("sequence repetition of anything but a one-character constant")
        c = ord(s.pyval) if s.kind == "str" else s.pyval[0]
        key = ("repeat", s.kind, c)
        if key not in self._slice_fns:
            self._slice_fns[key] = z3.Function("py_repeat_%s_%d" % (s.kind, c), I, SeqI)
        self.use("n * 'c' (one-character constant): uninterpreted function of n; known: its length is max(n, 0), it contains no line "
                 "terminator unless c is one")
        app = self._slice_fns[key](n.t)
        facts = [z3.Length(app) == z3.If(n.t > 0, n.t, 0)]
        facts += [z3.Not(z3.Contains(app, z3.Unit(z3.IntVal(k)))) for k in (10, 13) if k != c]
        ex.define(z3.And(*facts), key=("repeat", app.get_id()))
        ex._keep.append(app)
        return VSeq(s.kind, "int", app)

    def str_format(self, ex, fmt, args):
        # exception messages are dropped before they get here; what remains must be concrete
        items = args.items if isinstance(args, VTuple) else [args]

        def conc(v):
            if isinstance(v, VSeq) and v.pyval is not None:
                return v.pyval
            if isinstance(v, VInt) and v.py() is not None:
                return v.py()
            raise Unsupported("%-formatting of a symbolic value outside an exception message")
        if fmt.pyval is None:
            raise Unsupported("%-formatting with a symbolic format")
        try:
            vals = tuple(conc(x) for x in items)
            return lift(fmt.pyval % (vals if isinstance(args, VTuple) else vals[0]))
        except Unsupported:
            pass
        # symbolic arguments: only '%s' with str arguments is modelled (concatenation)
        import re as _r
        parts = _r.split(r"(%s|%%)", fmt.pyval)
        if any("%" in p for p in parts if p not in ("%s", "%%")):
            raise Unsupported("%-format directive other than %s with symbolic arguments")
        out, k = [], 0
        for p in parts:
            if p == "%s":
                v = items[k]
                k += 1
                if isinstance(v, VOpt):
                    v = ex.deopt(v)
                if not (isinstance(v, VSeq) and v.kind == "str"):
                    raise Unsupported("%s of a non-str symbolic value")
                out.append(v.t)
            elif p == "%%":
                out.append(const_seq("str", "%").t)
            elif p:
                out.append(const_seq("str", p).t)
        if k != len(items):
            ex.raise_(TypeError)
        self.use("'%s' formatting of str values: concatenation")
        return VSeq("str", "int", z3.Concat(*out) if len(out) > 1 else out[0])

    def inplace(self, ex, box, op, rhs):
        if box.kind == "list" and isinstance(op, ast.Add):
            r = self.seqval(rhs)
            self._list_extend(box, r)
            return
        raise Unsupported("in-place op on %r" % (box,))

    def _list_extend(self, box, r):
        s = box.val
        if s.pyval == [] and s.ety is None:
            box.val = VSeq("list", r.ety, r.t)
        else:
            box.val = VSeq("list", s.ety, z3.Concat(s.t, r.t))

    def container_len(self, ex, box):
        if box.kind == "dict" and isinstance(box.val, DictVal):
            self.use("len(dict): uninterpreted cardinality of the key set, >= 0")
            f = z3.Function("dict_card_%s" % str(box.val.keys.sort()).replace(" ", "_").replace("(", "").replace(")", ""),
                            box.val.keys.sort(), I)
            ex.define(f(box.val.keys) >= 0)
            return f(box.val.keys)
        if box.kind == "dict" and box.val is None:
            return z3.IntVal(0)
        if box.kind == "set" and isinstance(box.val, SetVal) and box.val.mode == "cond":
            if not box.val.items:
                return z3.IntVal(0)
            return z3.Sum(*[z3.If(c, 1, 0) for _e, c in box.val.items]) if len(box.val.items) > 1 \
                else z3.If(box.val.items[0][1], 1, 0)
        raise Unsupported("len of %r" % (box,))

    def make_set(self, ex, v):
        """set(iterable): concrete iterables give a finite conditional set, symbolic lists a membership-only set"""
        self.use("set: membership / intersection / len / truth; iteration order is not modelled (list(s) only for <= 1 element)")
        if isinstance(v, list):                  # a set display {a, b}
            v = VTuple(v)
        if isinstance(v, VBox) and v.kind == "set":
            sv = v.val
            return VBox("set", SetVal(sv.mode, sv.ety, sv.seq, list(sv.items)))
        s = self.seqval(v) if not isinstance(v, VTuple) else None
        conc = None
        if isinstance(s, VSeq) and s.kind == "list" and s.pyval is None and s.ety in ("str", "bytes"):
            conc = _concrete_str_list(s.t, s.ety)        # e.g. a list display of constants followed by append(constant)
        if isinstance(v, VTuple) or (isinstance(s, VSeq) and s.pyval is not None) or conc is not None:
            elems = v.items if isinstance(v, VTuple) else [lift(x) for x in (conc if conc is not None else s.pyval)]
            if not all(isinstance(e, VSeq) and e.pyval is not None for e in elems):
                raise Unsupported("set of non-concrete elements")
            seen, items = set(), []
            for e in elems:
                if e.pyval not in seen:
                    seen.add(e.pyval)
                    items.append((e, z3.BoolVal(True)))
            return VBox("set", SetVal("cond", elems[0].kind if elems else "str", items=items))
        if isinstance(s, VSeq) and s.kind == "list":
            return VBox("set", SetVal("seq", s.ety, seq=s))
        raise Unsupported("set(%r)" % (v,))

    def set_contains(self, ex, box, item):
        sv = box.val
        if isinstance(item, VOpt):
            item = ex.deopt(item)
        if sv.mode == "seq":
            return z3.Contains(sv.seq.t, z3.Unit(unwrap(sv.ety, item)))
        return z3.Or(*[z3.And(c, ex.eq(e, item)) for e, c in sv.items]) if sv.items else z3.BoolVal(False)

    def set_intersection(self, ex, a, b):
        if a.val.mode == "seq" and b.val.mode == "cond":
            a, b = b, a
        if a.val.mode == "cond":
            return VBox("set", SetVal("cond", a.val.ety,
                                      items=[(e, z3.simplify(z3.And(c, self.set_contains(ex, b, e)))) for e, c in a.val.items]))
        raise Unsupported("intersection of two symbolic sets")

    def _dkey(self, ex, box, key):
        if isinstance(key, VOpt):
            key = ex.deopt(key)
        return unwrap(box.val.kty, key)

    def dict_get(self, ex, box, key, node=None):
        if isinstance(box.val, ObjDict):
            if not (isinstance(key, VSeq) and key.pyval is not None):
                raise Unsupported("symbolic key into a dict of objects")
            if key.pyval not in box.val:
                ex.raise_(KeyError, node=node)
            return box.val[key.pyval]
        self.use("dict: key set + value array (unordered view)")
        if box.val is None:
            ex.raise_(KeyError, node=node)
        k = self._dkey(ex, box, key)
        if ex.may_raise(z3.Not(z3.Select(box.val.keys, k))):
            ex.raise_(KeyError, node=node)
        return wrap(box.val.vty, z3.Select(box.val.vals, k))

    def dict_set(self, ex, box, key, v):
        if getattr(box, "frozen", False):
            raise Unsupported("store into a dict that is also held by value inside another container (aliasing not modelled)")
        if isinstance(box.val, ObjDict) or (box.val is None and isinstance(v, VObj) and v.cls not in REC_CLASSES):
            # objects with identity as values: only concrete keys (a Python dict of values)
            if not (isinstance(key, VSeq) and key.pyval is not None):
                raise Unsupported("symbolic key into a dict of objects")
            self.use("dict with concrete keys holding objects: a finite map")
            nd = ObjDict(box.val or {})
            nd[key.pyval] = v
            box.val = nd
            return
        self.use("dict: key set + value array (unordered view)")
        if box.val is None:
            if isinstance(key, VOpt):
                key = ex.deopt(key)
            box.val = empty_dict(type_of(key), type_of(v))
        d = box.val
        k = self._dkey(ex, box, key)
        box.val = DictVal(d.kty, d.vty, z3.Store(d.keys, k, z3.BoolVal(True)), z3.Store(d.vals, k, unwrap(d.vty, v)))

    def box_contains(self, ex, box, item):
        if box.kind == "dict" and isinstance(box.val, ObjDict):
            if not (isinstance(item, VSeq) and item.pyval is not None):
                raise Unsupported("symbolic key into a dict of objects")
            return z3.BoolVal(item.pyval in box.val)
        if box.kind == "set" and isinstance(box.val, SetVal):
            return self.set_contains(ex, box, item)
        if box.kind == "dict":
            if box.val is None:
                return z3.BoolVal(False)
            return z3.Select(box.val.keys, self._dkey(ex, box, item))
        raise Unsupported("membership in %r" % (box,))

    def box_equal(self, ex, box, a, b):
        if a is None and isinstance(b, DictVal):
            a = empty_dict(b.kty, b.vty)
        if b is None and isinstance(a, DictVal):
            b = empty_dict(a.kty, a.vty)
        if isinstance(a, DictVal) and isinstance(b, DictVal):
            return z3.And(a.keys == b.keys, a.vals == b.vals)
        if a is None and b is None:
            return z3.BoolVal(True)
        raise Unsupported("frame comparison of %r" % (box,))

    def havoc_box(self, ex, box, nm):
        if box.kind == "dict" and isinstance(box.val, DictVal):
            d = box.val
            ks, vs = sort_of(d.kty), sort_of(d.vty)
            box.val = DictVal(d.kty, d.vty, z3.Const(fresh_name(nm + "_keys"), z3.ArraySort(ks, B)),
                              z3.Const(fresh_name(nm + "_vals"), z3.ArraySort(ks, vs)))
            return
        raise Unsupported("havoc of %r" % (box,))

    def dict_del(self, ex, box, key):
        if getattr(box, "frozen", False):
            raise Unsupported("delete from a dict that is also held by value inside another container (aliasing not modelled)")
        if box.val is None:
            ex.raise_(KeyError)
        d = box.val
        k = self._dkey(ex, box, key)
        if ex.may_raise(z3.Not(z3.Select(d.keys, k))):
            ex.raise_(KeyError)
        # the value slot of a removed key goes back to the common junk so that equal dicts stay equal terms
        junk = empty_dict(d.kty, d.vty).vals
        box.val = DictVal(d.kty, d.vty, z3.Store(d.keys, k, z3.BoolVal(False)), z3.Store(d.vals, k, z3.Select(junk, k)))

    def fresh_typed(self, ex, ty, nm):
        """fresh value of a declared type, including model objects: ('obj', 'BinaryIO')"""
        if isinstance(ty, tuple) and ty[0] == "opt":
            return VOpt(z3.Bool(fresh_name(nm + "?none")), self.fresh_typed(ex, ty[1], nm))
        if isinstance(ty, tuple) and ty[0] == "py":
            return VPy(ty[1])
        if isinstance(ty, tuple) and ty[0] == "obj":
            if ty[1] == "BinaryIO":
                data = VSeq("bytes", "int", z3.Const(fresh_name(nm + "_data"), SeqI))
                pos = z3.Int(fresh_name(nm + "_pos"))
                ex.assume(pos >= 0)
                return VObj("BinaryIO", {"data": data, "pos": VInt(pos), "closed": VBool(False)}, fresh_name(nm))
            if ty[1] in REC_CLASSES:
                fields = {}
                for fname, fty in REC_CLASSES[ty[1]]:
                    if fty == "objnone":
                        fields[fname] = VOpt(z3.Bool(fresh_name(nm + fname + "?none")), VPy("<unknown object>"))
                    else:
                        fields[fname] = self.fresh_typed(ex, fty, nm + fname)
                return VObj(ty[1], fields, fresh_name(nm))
            raise Unsupported("fresh object of class %s" % ty[1])
        v = fresh(ty, nm)
        self.range_facts(ex, v)
        if isinstance(v, VBox) and v.kind != "list":
            return v
        return v.val if isinstance(v, VBox) and False else v

    def range_facts(self, ex, v):
        """byte values are 0..255, code points 0..0x10FFFF"""
        if isinstance(v, VBox) and v.kind == "list":
            v = v.val
        if not ex.world.range_facts:
            return
        if isinstance(v, VSeq) and v.pyval is None and v.kind in ("bytes", "str") and v.view is None:
            i = z3.Int("i!rf")
            hi = 255 if v.kind == "bytes" else 0x10FFFF
            ex.define(z3.ForAll([i], z3.Implies(z3.And(0 <= i, i < z3.Length(v.t)),
                                                z3.And(v.t[i] >= 0, v.t[i] <= hi)), patterns=[v.t[i]]))

    def with_enter(self, ex, cm):
        if isinstance(cm, VObj) and cm.cls in ("BinaryIO", "TextIOW"):
            return cm
        raise Unsupported("with %r" % (cm,))

    def with_exit(self, ex, cm, exceptional):
        if isinstance(cm, VObj) and cm.cls == "BinaryIO":
            cm.fields["closed"] = VBool(True)
            return
        if isinstance(cm, VObj) and cm.cls == "TextIOW":
            cm.fields["closed"] = VBool(True)
            if not exceptional and self._fs_fail(ex, "close"):
                ex.raise_(OSError)          # flushing on close may fail (content already written stays)
            return
        raise Unsupported("with-exit %r" % (cm,))

    def make_super(self, ex):
        """super(): only the object-level fall-backs are modelled (__setattr__ = raw store,
        __getattribute__ = raw lookup, __init__ = no-op)"""
        fr = ex.frame()
        selfv = None
        if fr.func is not None and fr.func.node is not None and fr.func.node.args.args:
            selfv = fr.lookup(fr.func.node.args.args[0].arg)
        if not isinstance(selfv, VObj):
            raise Unsupported("super() outside a method of a modelled object")
        return VObj("super", {"obj": selfv}, "super")

    def call_generator(self, ex, f, args, kwargs):
        raise Unsupported("call of generator %s (needs a contract)" % f.name)

    def rec_spec(self, ex, f, args, kwargs):
        """Recursive spec functions become z3 RecFunctions.  `f.rec` = dict(args=[kinds], ret=type);
        kinds: 'int', 'bytes', 'str' (un-nested term) or 'view:bytes' / 'view:str' (buf, lo, hi)."""
        rec = getattr(f, "rec", None)
        if rec is None:
            return None
        if kwargs:
            raise Unsupported("keyword arguments to recursive spec function")
        acts = []
        for kind, a in zip(rec["args"], args):
            acts.extend(self._flatten(kind, a))
        F = self.rec_specs.get(f.name)
        if F is None:
            sorts = []
            for kind in rec["args"]:
                sorts.extend(self._flat_sorts(kind))
            if isinstance(rec["ret"], tuple) and rec["ret"][0] == "dict":
                ks, vs = sort_of(rec["ret"][1]), sort_of(rec["ret"][2])
                nm = f.name.replace("spec:", "spec_")
                F = (z3.Function(nm + "_keys", *(sorts + [z3.ArraySort(ks, B)])),
                     z3.Function(nm + "_vals", *(sorts + [z3.ArraySort(ks, vs)])))
            else:
                F = z3.Function(f.name.replace("spec:", "spec_"), *(sorts + [sort_of(rec["ret"])]))
            self.rec_specs[f.name] = F
            self.use("recursive spec function %s is well defined (terminates): its defining equation is "
                     "instantiated as an axiom, one unfolding per application" % f.name.replace("spec:", ""))
        if isinstance(rec["ret"], tuple) and rec["ret"][0] == "dict":
            return self._rec_spec_dict(ex, f, args, kwargs, rec, acts)
        app = F(*acts)
        if rec.get("opaque"):
            return wrap(rec["ret"], app)       # a declared function without a definition: known only through contracts
        # fuel 1: the defining equation F(args) == body(args) is instantiated for every application
        # that the contract text itself makes; applications inside that body are left folded.
        if ex._rec_depth == 0:
            key = ("unfold", f.name, app.get_id())
            if key not in ex._axiom_keys:
                ex._rec_depth += 1
                prev = ex.no_ctx
                ex.no_ctx = True        # the equation must hold unconditionally: no pc-based simplification
                try:
                    body = ex.pure_call(f, args, kwargs, norec=True)
                finally:
                    ex.no_ctx = prev
                    ex._rec_depth -= 1
                ex._keep.append(app)
                ex.define(app == unwrap(rec["ret"], body), key=key)
        return wrap(rec["ret"], app)

    def _rec_spec_dict(self, ex, f, args, kwargs, rec, acts):
        FK, FV = self.rec_specs[f.name]
        ak, av = FK(*acts), FV(*acts)
        _, kty, vty = rec["ret"]
        if ex._rec_depth == 0 and not rec.get("opaque"):
            key = ("unfold", f.name, ak.get_id())
            if key not in ex._axiom_keys:
                ex._rec_depth += 1
                prev = ex.no_ctx
                ex.no_ctx = True
                try:
                    body = ex.pure_call(f, args, kwargs, norec=True)
                finally:
                    ex.no_ctx = prev
                    ex._rec_depth -= 1
                ex._keep.append(ak)
                bv = body.val if isinstance(body, VBox) else body
                if bv is None:
                    bv = empty_dict(kty, vty)
                ex.define(z3.And(ak == bv.keys, av == bv.vals), key=key)
        return VBox("dict", DictVal(kty, vty, ak, av), "specdict")

    def _flat_sorts(self, kind):
        if isinstance(kind, tuple) and kind[0] == "list":
            return [sort_of(kind)]
        if isinstance(kind, tuple):
            return [sort_of(kind)]
        if kind == "int":
            return [I]
        if kind == "bool":
            return [B]
        if kind.startswith("opt:"):
            return [B] + self._flat_sorts(kind[4:])
        if kind in ("bytes", "str"):
            return [SeqI]
        if kind.startswith("view:"):
            return [SeqI, I, I]
        if kind.startswith("list:"):
            return [sort_of(("list", kind[5:]))]
        raise Unsupported("rec arg kind %s" % kind)

    def _flatten(self, kind, v):
        if isinstance(v, VOpt) and not (isinstance(kind, str) and kind.startswith("opt:")):
            v = v.val               # total reading: the value of a known-non-None optional
        if isinstance(kind, tuple) and kind[0] == "list":
            return [self.seqval(v).t]
        if isinstance(kind, tuple):
            return [unwrap(kind, v)]
        if kind == "int":
            return [unwrap("int", v)]
        if kind == "bool":
            return [unwrap("bool", v)]
        if kind.startswith("opt:"):
            if v is NONE:
                return [z3.BoolVal(True)] + [z3.Empty(SeqI) if kind[4:] in ("str", "bytes") else z3.IntVal(0)]
            if isinstance(v, VOpt):
                return [v.isnone] + self._flatten(kind[4:], v.val)
            return [z3.BoolVal(False)] + self._flatten(kind[4:], v)
        if kind in ("bytes", "str"):
            return [v.t]
        if kind.startswith("list:"):
            return [self.seqval(v).t]
        if kind.startswith("view:"):
            if v.view is not None:
                return list(v.view)
            return [v.t, z3.IntVal(0), z3.Length(v.t)]
        raise Unsupported("rec arg kind %s" % kind)

    def _formal(self, kind, nm):
        if isinstance(kind, tuple) and kind[0] == "list":
            t = z3.Const(fresh_name("rf_" + nm), sort_of(kind))
            return [t], VSeq("list", kind[1], t)
        if isinstance(kind, tuple):
            t = z3.Const(fresh_name("rf_" + nm), sort_of(kind))
            return [t], wrap(kind, t)
        if kind == "int":
            t = z3.Int(fresh_name("rf_" + nm))
            return [t], VInt(t)
        if kind == "bool":
            t = z3.Bool(fresh_name("rf_" + nm))
            return [t], VBool(t)
        if kind.startswith("opt:"):
            ts, v = self._formal(kind[4:], nm)
            b = z3.Bool(fresh_name("rf_" + nm + "_none"))
            return [b] + ts, VOpt(b, v)
        if kind in ("bytes", "str"):
            t = z3.Const(fresh_name("rf_" + nm), SeqI)
            return [t], VSeq(kind, "int", t)
        if kind.startswith("list:"):
            t = z3.Const(fresh_name("rf_" + nm), sort_of(("list", kind[5:])))
            return [t], VSeq("list", kind[5:], t)
        if kind.startswith("view:"):
            b = z3.Const(fresh_name("rf_" + nm + "_buf"), SeqI)
            lo, hi = z3.Int(fresh_name("rf_" + nm + "_lo")), z3.Int(fresh_name("rf_" + nm + "_hi"))
            return [b, lo, hi], VSeq(kind[5:], "int", None, view=(b, lo, hi))
        raise Unsupported("rec arg kind %s" % kind)

    # ------------------------------------------------------------------ first occurrence
    def first_at(self, ex, buf, c, p):
        """least index i >= max(p,0) with buf[i] == c, else -1  (definitional axioms instantiated
        for this application)"""
        self.use("first-occurrence search (bytes.find / readline newline scan)")
        k = F_FIND(buf, c, p)
        n = z3.Length(buf)
        j = z3.Int("j!fa")
        ex.define(z3.Or(k == -1, z3.And(k >= p, k >= 0, k < n, buf[k] == c)))
        if ex.world.quantified_search:
            # "no occurrence before k": only needed when two searches with different starting
            # points have to be related; off by default (quantifiers + sequences proved fragile in
            # the back ends, see DESIGN "solver soundness")
            ex.define(z3.ForAll([j], z3.Implies(z3.And(j >= p, j >= 0, j < n, z3.Or(k == -1, j < k)), buf[j] != c),
                                patterns=[buf[j]]),
                      key=("fa-all", k.sexpr()))
        return k

    # ------------------------------------------------------------------ install
    def _install(self):
        B_ = self.builtins
        M = self.methods

        def b_len(ex, a, kw):
            v = a[0]
            if isinstance(v, VOpt):
                if not ex.spec_mode and ex.branch(v.isnone):
                    ex.raise_(TypeError)
                v = v.val
            if isinstance(v, VTuple):
                return VInt(len(v.items))
            s = self.seqval(v)
            if isinstance(s, VSeq):
                return VInt(s.length())
            if isinstance(v, VBox):
                return VInt(self.container_len(ex, v))
            if isinstance(v, (VObj, VRef)):
                return ex.call(ex.getattr(v, "__len__"), [], {})      # user class: len(x) is x.__len__()
            raise Unsupported("len(%r)" % (v,))
        B_["len"] = b_len

        def b_int(ex, a, kw):
            v = a[0]
            if isinstance(v, VOpt):
                if not ex.spec_mode and ex.branch(v.isnone):     # specifications are total
                    ex.raise_(TypeError)
                v = v.val
            if isinstance(v, VInt):
                return v
            if isinstance(v, VBool):
                return VInt(unwrap("int", v))
            if isinstance(v, VSeq) and v.kind in ("str", "bytes"):
                if v.pyval is not None:
                    try:
                        return VInt(int(v.pyval))
                    except ValueError:
                        ex.raise_(ValueError)
                return self.py_int(ex, v)
            raise Unsupported("int(%r)" % (v,))
        B_["int"] = b_int

        def b_minmax(which):
            def f(ex, a, kw):
                if len(a) == 1:
                    # max(list of int) / min(list of int): an uninterpreted function of the list (ValueError on the empty list);
                    # known: the result is an element of the list
                    sq = self.seqval(a[0])
                    if not (isinstance(sq, VSeq) and sq.kind == "list" and sq.ety == "int"):
                        raise Unsupported("%s of %r" % (which, a[0]))
                    if not ex.spec_mode and ex.may_raise(sq.length() == 0):
                        ex.raise_(ValueError)
                    key = ("minmax", which)
                    if key not in self._slice_fns:
                        self._slice_fns[key] = z3.Function("py_%s_of_list" % which, z3.SeqSort(I), I)
                    self.use("%s(list of int): uninterpreted function of the list; known: the result is an element of the list" % which)
                    app = self._slice_fns[key](sq.t)
                    ex.define(z3.Implies(z3.Length(sq.t) > 0, z3.Contains(sq.t, z3.Unit(app))), key=("minmax", app.get_id()))
                    ex._keep.append(app)
                    return VInt(app)
                ts = [unwrap("int", x) for x in a]
                r = ts[0]
                for t in ts[1:]:
                    r = z3.If(t < r, t, r) if which == "min" else z3.If(t > r, t, r)
                return VInt(r)
            return f
        B_["min"] = b_minmax("min")
        B_["max"] = b_minmax("max")

        def b_isinstance(ex, a, kw):
            v, c = a
            cs = c.items if isinstance(c, VTuple) else [c]
            res = z3.BoolVal(False)
            for k in cs:
                res = z3.Or(res, self.isinstance1(ex, v, k))
            return VBool(z3.simplify(res))
        B_["isinstance"] = b_isinstance

        def b_hasattr(ex, a, kw):
            v, nm = a
            if not (isinstance(nm, VSeq) and nm.pyval is not None):
                raise Unsupported("hasattr with a symbolic name")
            if isinstance(v, VBox) or isinstance(v, VSeq):
                real = {"list": list, "dict": dict, "set": set, "str": str, "bytes": bytes}.get(v.kind)
                if real is None:
                    raise Unsupported("hasattr on %r" % (v,))
                return VBool(hasattr(real, nm.pyval))
            if isinstance(v, (VRef, VObj)) and (v.cls, nm.pyval) in getattr(ex.world, "abstract_hasattr", {}):
                # whether the object has the attribute is a spec predicate of the object
                return ex.call(ex.world.spec_env[ex.world.abstract_hasattr[(v.cls, nm.pyval)]], [v], {})
            if isinstance(v, (VRef, VObj)) and v.cls in getattr(ex.world, "abstract_attrs", {}):
                return VBool(nm.pyval in ex.world.abstract_attrs[v.cls])
            raise Unsupported("hasattr on %r" % (v,))
        B_["hasattr"] = b_hasattr

        def b_ord(ex, a, kw):
            v = a[0]
            if isinstance(v, VOpt):
                if ex.spec_mode:
                    v = v.val
                elif ex.may_raise(v.isnone):
                    ex.raise_(TypeError)
                else:
                    v = v.val
            if not isinstance(v, VSeq) or v.kind not in ("str", "bytes"):
                ex.raise_(TypeError)
            if v.pyval is not None:
                if len(v.pyval) != 1:
                    ex.raise_(TypeError)
                return VInt(ord(v.pyval))
            if not ex.spec_mode and ex.branch(v.length() != 1):
                ex.raise_(TypeError)
            if v.view is not None:
                return VInt(v.view[0][v.view[1]])
            return VInt(v.t[0])
        B_["ord"] = b_ord

        def b_hash(ex, a, kw):
            # hash(str): an uninterpreted function of the text (equal texts hash alike; nothing else is known)
            v = a[0]
            if isinstance(v, VOpt):
                v = ex.deopt(v)
            if not (isinstance(v, VSeq) and v.kind in ("str", "bytes")):
                raise Unsupported("hash(%r)" % (v,))
            key = ("hash", v.kind)
            if key not in self._slice_fns:
                self._slice_fns[key] = z3.Function("py_hash_%s" % v.kind, SeqI, I)
            self.use("hash(str): uninterpreted function of the text")
            return VInt(self._slice_fns[key](v.t))
        B_["hash"] = b_hash

        def b_iter(ex, a, kw):
            r = self.make_iter(ex, a[0])
            if isinstance(r, list):
                if not r:
                    raise Unsupported("iter() of an empty/unknown-typed sequence")
                ety = type_of(r[0])
                t = z3.Concat(*[z3.Unit(unwrap(ety, x)) for x in r]) if len(r) > 1 else z3.Unit(unwrap(ety, r[0]))
                return VBox("iter", (VSeq("list", ety, t), VInt(0)), "iter")
            if r is None:
                raise Unsupported("iter(%r)" % (a[0],))
            return r
        B_["iter"] = b_iter

        def b_list(ex, a, kw):
            if not a:
                return self.make_list(ex, [])
            v = a[0]
            if isinstance(v, VBox) and v.kind == "iter":
                seq, cur = v.val
                n = seq.length()
                r = self.getslice(ex, seq, cur, NONE)
                v.val = (seq, VInt(z3.If(cur.t > n, cur.t, n)))
                return VBox("list", VSeq("list", seq.ety, r.t, view=r.view))
            if isinstance(v, VBox) and v.kind == "set" and isinstance(v.val, SetVal):
                sv = v.val
                if sv.mode != "cond":
                    raise Unsupported("list(set) of a symbolic set (iteration order)")
                n = self.container_len(ex, v)
                if ex.decided(n <= 1) is not True:
                    raise Unsupported("list(set) when the set may hold more than one element (iteration order is not modelled)")
                srt = sort_of(("list", sv.ety))
                parts = [z3.If(c, z3.Unit(e.t), z3.Empty(srt)) for e, c in sv.items]
                t = z3.Empty(srt) if not parts else parts[0] if len(parts) == 1 else z3.Concat(*parts)
                return VBox("list", VSeq("list", sv.ety, t))
            s = self.seqval(v)
            if isinstance(s, VSeq) and s.kind == "list":
                return VBox("list", VSeq("list", s.ety, s._t, view=s.view, py=s.pyval))
            if isinstance(v, VTuple):
                return self.make_list(ex, v.items)
            raise Unsupported("list(%r)" % (v,))
        B_["list"] = b_list

        def b_allocated(ex, a, kw):
            r = a[0]
            if r is NONE:
                return VBool(False)
            return VBool(ex.allocated(r.t, old=ex.old_mode))
        B_["allocated"] = b_allocated

        def b_set(ex, a, kw):
            if not a:
                return VBox("set", SetVal("cond", "str", items=[]))
            return self.make_set(ex, a[0])
        B_["set"] = b_set

        def set_intersection(ex, a, kw):
            other = a[1]
            if not (isinstance(other, VBox) and other.kind == "set"):
                other = self.make_set(ex, other)
            return self.set_intersection(ex, a[0], other)
        M[("set", "intersection")] = set_intersection

        def b_getattr(ex, a, kw):
            obj, name = a[0], a[1]
            if not (isinstance(name, VSeq) and name.pyval is not None):
                raise Unsupported("getattr with a symbolic attribute name")
            if len(a) > 2:
                from vf.pyvc.interp import PyRaise
                try:
                    return ex.getattr(obj, name.pyval)
                except PyRaise as pr:
                    if issubclass(pr.exc.pycls, AttributeError):
                        return a[2]
                    raise
            return ex.getattr(obj, name.pyval)
        B_["getattr"] = b_getattr

        def b_setattr(ex, a, kw):
            obj, name, v = a
            if not (isinstance(name, VSeq) and name.pyval is not None):
                raise Unsupported("setattr with a symbolic attribute name")
            ex.setattr(obj, name.pyval, v)
            return NONE
        B_["setattr"] = b_setattr

        def b_str(ex, a, kw):
            if not a:
                return const_seq("str", "")
            v = ex.deopt(a[0]) if not ex.spec_mode else (a[0].val if isinstance(a[0], VOpt) else a[0])
            if isinstance(v, VSeq) and v.kind == "str":
                return v
            if isinstance(v, VInt) and v.py() is not None:
                return const_seq("str", str(v.py()))
            if isinstance(v, VObj):
                return ex.call(ex.getattr(v, "__str__"), [], {})
            raise Unsupported("str(%r)" % (v,))
        B_["str"] = b_str

        def b_bool(ex, a, kw):
            return VBool(ex.truth(a[0]))
        B_["bool"] = b_bool

        def b_open(ex, a, kw):
            self.use("open(name, 'rb'): yields the bytes of the named file, cannot fail (A-ENV)")
            name, mode = a[0], a[1] if len(a) > 1 else kw.get("mode")
            if isinstance(mode, VSeq) and mode.pyval in ("w", "w+", "wt") and getattr(ex, "fs", None) is not None:
                return self.fs_open_write(ex, name)
            if not (isinstance(mode, VSeq) and mode.pyval == "rb"):
                raise Unsupported("open() mode %r" % (mode,))
            if isinstance(name, VOpt):
                if ex.may_raise(name.isnone):
                    ex.raise_(TypeError)
                name = name.val
            data = VSeq("bytes", "int", F_FILEDATA(name.t))
            return VObj("BinaryIO", {"data": data, "pos": VInt(0), "closed": VBool(False)}, fresh_name("fp"))
        B_["open"] = b_open

        # ---- sequence laws usable as hints in contract text (each instance is proved separately)
        def law_slice_extend(ex, a, kw):
            """s[a:j] + [s[j]] == s[a:j+1]   for 0 <= a <= j < len(s)"""
            s_, lo, j = self.seqval(a[0]), unwrap("int", a[1]), unwrap("int", a[2])
            t = s_.t
            f = z3.Implies(z3.And(0 <= lo, lo <= j, j < z3.Length(t)),
                           z3.Concat(z3.SubSeq(t, lo, j - lo), z3.Unit(t[j])) == z3.SubSeq(t, lo, j + 1 - lo))
            ex.lemma("law slice-extend: s[a:j] + [s[j]] == s[a:j+1]", f)
            return VBool(True)
        B_["law_slice_extend"] = law_slice_extend
        def law_nth_append(ex, a, kw):
            """(s + [x])[j] == s[j] for 0 <= j < len(s)  and  (s + [x])[len(s)] == x"""
            s_, x, j = self.seqval(a[0]), a[1], unwrap("int", a[2])
            xt = unwrap(s_.ety, x)
            cat = z3.Concat(s_.t, z3.Unit(xt))
            f = z3.And(z3.Implies(z3.And(0 <= j, j < z3.Length(s_.t)), cat[j] == s_.t[j]), cat[z3.Length(s_.t)] == xt)
            ex.lemma("law nth-append: (s + [x])[j] == s[j] for j < len(s), (s + [x])[len(s)] == x", f)
            return VBool(True)
        B_["law_nth_append"] = law_nth_append

        # mention(e): True.  Writing an application of a recursive spec function in contract text
        # instantiates its defining equation there (fuel 1); `mention` is the way to ask for that
        # instance without stating anything about the value.
        B_["mention"] = lambda ex, a, kw: VBool(True)

        def b_comp(ex, a, kw):
            """comp(k, seq): the k-th list comprehension of the function under verification, as a function"""
            k = a[0].py()
            fn = ex.frames[0].func.name if ex.frames else None
            for fr in ex.frames:
                if fr.func is not None and fr.func.name in ex.world.comp_by_func:
                    fn = fr.func.name
            vf = ex.world.comp_by_func.get(fn, {}).get(k)
            if vf is None:
                raise Unsupported("comp(%d, ...): the comprehension has not been evaluated yet" % k)
            arg = self.seqval(a[1])
            r = self.seqval(ex.pure_call(vf, [arg], {}))
            ex.define(z3.Length(r.t) == arg.length(), key=("comp-len", r.t.get_id()))
            ex._keep.append(r.t)
            return r
        B_["comp"] = b_comp

        # ---- list methods
        def l_append(ex, a, kw):
            box, v = a
            s = box.val
            if isinstance(v, VOpt) and s.ety is not None and not (isinstance(s.ety, tuple) and s.ety[0] in ("opt", "rec", "ref")):
                raise Unsupported("append of a possibly-None value to a list of %s" % (s.ety,))
            if s.pyval == [] and s.ety is None:
                ety = type_of(v)
                box.val = VSeq("list", ety, z3.Unit(unwrap(ety, v)))
            else:
                box.val = VSeq("list", s.ety, z3.Concat(s.t, z3.Unit(unwrap(s.ety, v))))
            return NONE
        M[("list", "append")] = l_append

        def l_pop(ex, a, kw):
            box = a[0]
            s = box.val
            if s.pyval == []:
                ex.raise_(IndexError)
            n = s.length()
            if ex.may_raise(n == 0):
                ex.raise_(IndexError)
            if len(a) > 1:
                k = a[1].py()
                if k != 0:
                    raise Unsupported("list.pop(%r)" % (a[1],))
                x = self.seq_index(ex, s, VInt(0), checked=False)
                r = self.getslice(ex, s, VInt(1), NONE)
            else:
                x = self.seq_index(ex, s, VInt(n - 1), checked=False)
                r = self.getslice(ex, s, NONE, VInt(n - 1))
            box.val = r
            return x
        M[("list", "pop")] = l_pop

        def d_get(ex, a, kw):
            box, key = a[0], a[1]
            default = a[2] if len(a) > 2 else NONE
            if box.val is None:
                return default                      # the empty dict
            if isinstance(box.val, ObjDict):
                if not (isinstance(key, VSeq) and key.pyval is not None):
                    raise Unsupported("symbolic key into a dict of objects")
                return box.val.get(key.pyval, default)
            present = self.box_contains(ex, box, key)
            val = wrap(box.val.vty, z3.Select(box.val.vals, self._dkey(ex, box, key)))
            return ex.ite(present, val, default)
        M[("dict", "get")] = d_get

        def l_extend(ex, a, kw):
            self._list_extend(a[0], self.seqval(a[1]))
            return NONE
        M[("list", "extend")] = l_extend

        # ---- iterator
        def it_next(ex, a, kw):
            box = a[0]
            seq, cur = box.val
            if ex.may_raise(cur.t >= seq.length()):
                if len(a) > 1:
                    return a[1]
                ex.raise_(StopIteration)
            x = self.seq_index(ex, seq, cur, checked=False)
            box.val = (seq, VInt(cur.t + 1))
            return x
        B_["next"] = it_next
        M[("iter", "__next__")] = it_next

        # ---- bytes / str methods used on views
        def s_split(ex, a, kw):
            """x.split(sep): only element [0] is modelled = the part before the first occurrence of a
            one-element separator (the whole of x when the separator does not occur)"""
            x, sep = a[0], a[1] if len(a) > 1 else NONE
            if not (isinstance(sep, VSeq) and sep.pyval is not None and len(sep.pyval) == 1):
                raise Unsupported("split with this separator")
            self.use("%s.split(sep)[0]: prefix before the first occurrence of a one-element separator" % x.kind)
            c = sep.pyval[0] if isinstance(sep.pyval, bytes) else ord(sep.pyval)
            if x.view is not None:
                buf, L, H = x.view
            else:
                buf, L, H = x.t, z3.IntVal(0), z3.Length(x.t)
            k = self.first_at(ex, buf, z3.IntVal(c), L)
            end = z3.If(z3.And(k >= 0, k < H), k, H)
            first = VSeq(x.kind, "int", None, view=(buf, L, z3.simplify(end)))
            return VObj("SplitResult", {"first": first}, fresh_name("split"))
        M[("bytes", "split")] = s_split
        M[("str", "split")] = s_split

        def s_strip(ex, a, kw):
            x = a[0]
            if len(a) > 1:
                chars = a[1]
                if not (isinstance(chars, VSeq) and chars.pyval is not None):
                    raise Unsupported("strip(chars) with symbolic chars")
                if x.pyval is not None:
                    return const_seq(x.kind, x.pyval.strip(chars.pyval))
                self.use("%s.strip(chars): uninterpreted function py_strip_chars(text, chars)" % x.kind)
                return VSeq(x.kind, "int", F_STRIPC(x.t, chars.t))
            if x.pyval is not None:
                return const_seq(x.kind, x.pyval.strip())
            self.use("%s.strip(): a sub-view with uninterpreted bounds (py_lskip / py_rskip), lo <= lo' <= hi' <= hi" % x.kind)
            if x.view is not None:
                buf, L, H = x.view
            else:
                buf, L, H = x.t, z3.IntVal(0), z3.Length(x.t)
            lo = F_LSKIP(buf, L, H)
            hi = F_RSKIP(buf, lo, H)
            ex.define(z3.Implies(L <= H, z3.And(L <= lo, lo <= hi, hi <= H)))
            return VSeq(x.kind, "int", None, view=(buf, lo, hi))
        M[("bytes", "strip")] = s_strip
        M[("str", "strip")] = s_strip

        def s_side_strip(which):
            def f(ex, a, kw):
                x = a[0]
                chars = a[1] if len(a) > 1 else None
                if chars is not None and not (isinstance(chars, VSeq) and chars.pyval is not None):
                    raise Unsupported("%s(chars) with symbolic chars" % which)
                if x.pyval is not None:
                    return const_seq(x.kind, getattr(x.pyval, which)(*([chars.pyval] if chars is not None else [])))
                self.use("%s.%s([chars]): uninterpreted function of (text, chars)" % (x.kind, which))
                fn = z3.Function("py_%s" % which, SeqI, SeqI, SeqI)
                ct = chars.t if chars is not None else const_seq(x.kind, "<whitespace>" if x.kind == "str" else b"<whitespace>").t
                return VSeq(x.kind, "int", fn(x.t, ct))
            return f
        for which in ("lstrip", "rstrip"):
            M[("bytes", which)] = s_side_strip(which)
            M[("str", which)] = s_side_strip(which)

        def s_case(which):
            def f(ex, a, kw):
                x = a[0]
                if x.pyval is not None:
                    return const_seq(x.kind, getattr(x.pyval, which)())
                self.use("%s.%s(): uninterpreted function of the text" % (x.kind, which))
                return VSeq(x.kind, "int", z3.Function("py_%s" % which, SeqI, SeqI)(x.t))
            return f
        for which in ("lower", "upper", "casefold", "swapcase", "title", "capitalize"):
            M[("str", which)] = s_case(which)
            M[("bytes", which)] = s_case(which)

        def s_splitlines(ex, a, kw):
            x = a[0]
            keep = a[1] if len(a) > 1 else kw.get("keepends")
            if keep is not None and not (isinstance(keep, VBool) and z3.is_false(z3.simplify(keep.t))):
                raise Unsupported("splitlines(keepends=True)")
            if x.pyval is not None:
                return self.make_list(ex, [const_seq(x.kind, p) for p in x.pyval.splitlines()]) if x.pyval.splitlines() \
                    else VBox("list", VSeq("list", x.kind, z3.Empty(sort_of(("list", x.kind)))))
            self.use("%s.splitlines(): uninterpreted function py_splitlines (laws are stated where used)" % x.kind)
            return VBox("list", VSeq("list", x.kind, F_SPLITLINES(x.t)))
        M[("str", "splitlines")] = s_splitlines
        M[("bytes", "splitlines")] = s_splitlines

        def s_join(ex, a, kw):
            sep, it = a[0], self.seqval(a[1])
            if not (isinstance(it, VSeq) and it.kind == "list"):
                raise Unsupported("join of %r" % (a[1],))
            self.use("sep.join(list): uninterpreted function py_join(sep, list)")
            if it.pyval == [] and it.ety is None:
                return const_seq(sep.kind, sep.pyval[:0] if sep.pyval is not None else "")
            return VSeq(sep.kind, "int", F_JOIN(sep.t, it.t))
        M[("str", "join")] = s_join
        M[("bytes", "join")] = s_join

        def s_isspace(ex, a, kw):
            x = a[0]
            if x.pyval is not None:
                return VBool(x.pyval.isspace())
            if ex.decided(x.length() == 1) is not True:
                raise Unsupported("isspace() of a string that is not known to be one character")
            self.use("str.isspace() of one character: exact set of code points from the running interpreter")
            c = x.view[0][x.view[1]] if x.view is not None else x.t[0]
            rs = _isspace_ranges(x.kind)
            return VBool(z3.Or(*[(c == lo) if lo == hi else z3.And(c >= lo, c <= hi) for lo, hi in rs]))
        M[("str", "isspace")] = s_isspace
        M[("bytes", "isspace")] = s_isspace

        def s_decode(ex, a, kw):
            x = a[0]
            enc = a[1] if len(a) > 1 else kw.get("encoding", const_seq("str", "utf-8"))
            err = a[2] if len(a) > 2 else kw.get("errors", const_seq("str", "strict"))
            self.use("bytes.decode(encoding, errors): uninterpreted function of (bytes, encoding, errors), assumed not to raise")
            enc = enc.val if isinstance(enc, VOpt) else enc
            err = err.val if isinstance(err, VOpt) else err
            return VSeq("str", "int", F_DECODE(x.t, enc.t, err.t))
        M[("bytes", "decode")] = s_decode

        def s_startswith(ex, a, kw):
            x, p = a[0], a[1]
            if isinstance(p, VTuple):
                return VBool(z3.Or(*[s_startswith(ex, [x, q], {}).t for q in p.items]))
            if p.pyval is None:
                return VBool(z3.PrefixOf(p.t, x.t))
            codes = [ord(ch) for ch in p.pyval] if isinstance(p.pyval, str) else list(p.pyval)
            if x.view is not None:
                buf, L, H = x.view
                return VBool(z3.And(H - L >= len(codes), *[buf[L + i] == c for i, c in enumerate(codes)]))
            return VBool(z3.PrefixOf(p.t, x.t))
        M[("bytes", "startswith")] = s_startswith
        M[("str", "startswith")] = s_startswith

        def s_endswith(ex, a, kw):
            x, p = a[0], a[1]
            return VBool(z3.SuffixOf(p.t, x.t))
        M[("bytes", "endswith")] = s_endswith
        M[("str", "endswith")] = s_endswith

        # ---- compiled patterns and match objects
        def p_match(how):
            def f(ex, a, kw):
                return self.re_match(ex, a[0].obj, a[1], how)
            return f
        for how in ("match", "fullmatch", "search"):
            M[("pattern", how)] = p_match(how)

        def p_findall(ex, a, kw):
            return self.re_findall(ex, a[0].obj, a[1])
        M[("pattern", "findall")] = p_findall
        MD = self.models

        def m_groups(ex, a, kw):
            mo = a[0]
            n = mo.fields["pat"].obj.groups
            return VTuple([self.re_group(ex, mo, k) for k in range(1, n + 1)])
        MD[("Match", "groups")] = m_groups

        def m_group(ex, a, kw):
            mo = a[0]
            if len(a) == 1:
                return self.re_group(ex, mo, 0)
            k = a[1]
            if isinstance(k, VSeq) and k.pyval is not None:
                k = mo.fields["pat"].obj.groupindex[k.pyval]
            else:
                k = k.py()
            return self.re_group(ex, mo, k)
        MD[("Match", "group")] = m_group

        def sio_write(ex, a, kw):
            f, data = a
            if not (isinstance(data, VSeq) and data.kind == "str"):
                raise Unsupported("StringIO.write of %r" % (data,))
            cur = f.fields["buffer"]
            f.fields["buffer"] = VSeq("str", "int", z3.Concat(cur.t, data.t),
                                      py=(cur.pyval + data.pyval if cur.pyval is not None and data.pyval is not None else None))
            return VInt(z3.Length(data.t))
        MD[("StringIO", "write")] = sio_write
        MD[("StringIO", "getvalue")] = lambda ex, a, kw: a[0].fields["buffer"]

        def tw_write(ex, a, kw):
            self.use("ghost file system: write(s) either appends s or raises OSError after appending an arbitrary prefix")
            f, data = a
            cur = self.dict_get(ex, ex.fs, f.fields["path"])
            if self._fs_fail(ex, "write"):
                part = VSeq("str", "int", z3.Const(fresh_name("partial_write"), SeqI))
                self.dict_set(ex, ex.fs, f.fields["path"], VSeq("str", "int", z3.Concat(cur.t, part.t)))
                ex.raise_(OSError)
            self.dict_set(ex, ex.fs, f.fields["path"], VSeq("str", "int", z3.Concat(cur.t, data.t)))
            return VInt(data.length())
        MD[("TextIOW", "write")] = tw_write

        def su_setattr(ex, a, kw):
            su, name, v = a
            if not (isinstance(name, VSeq) and name.pyval is not None):
                raise Unsupported("object.__setattr__ with a symbolic name")
            ex.setattr(su.fields["obj"], name.pyval, v, raw=True)
            return NONE
        MD[("super", "__setattr__")] = su_setattr

        def su_getattribute(ex, a, kw):
            su, name = a
            if not (isinstance(name, VSeq) and name.pyval is not None):
                raise Unsupported("object.__getattribute__ with a symbolic name")
            v = su.fields["obj"].fields.get(name.pyval)
            if v is None:
                ex.raise_(AttributeError)
            return v
        MD[("super", "__getattribute__")] = su_getattribute
        MD[("super", "__init__")] = lambda ex, a, kw: NONE

        # ---- BinaryIO model (io.BytesIO / file opened 'rb'): state (data, pos)

        def io_read(ex, a, kw):
            self.use("BinaryIO.read")
            fp = a[0]
            size = a[1] if len(a) > 1 else NONE
            data, pos = fp.fields["data"], fp.fields["pos"].t
            n = data.length()
            if size is NONE:
                end = n
            else:
                if isinstance(size, VOpt):
                    st = z3.If(size.isnone, -1, size.val.t)
                else:
                    st = unwrap("int", size)
                end = z3.If(st < 0, n, z3.If(pos + st > n, n, pos + st))
            start = z3.If(pos > n, n, pos)
            end = z3.If(end < start, start, end)
            r = VSeq("bytes", "int", None, view=(data.t, z3.simplify(start), z3.simplify(end)))
            fp.fields["pos"] = VInt(z3.simplify(z3.If(pos > n, pos, end)))
            return r
        MD[("BinaryIO", "read")] = io_read

        def io_readline(ex, a, kw):
            self.use("BinaryIO.readline")
            fp = a[0]
            size = a[1] if len(a) > 1 else NONE
            data, pos = fp.fields["data"], fp.fields["pos"].t
            n = data.length()
            k = self.first_at(ex, data.t, z3.IntVal(10), pos)
            eol = z3.If(k < 0, n, k + 1)
            if size is NONE:
                end = eol
            else:
                if isinstance(size, VOpt):
                    st = z3.If(size.isnone, -1, size.val.t)
                else:
                    st = unwrap("int", size)
                end = z3.If(z3.And(st >= 0, pos + st < eol), pos + st, eol)
            start = z3.If(pos > n, n, pos)
            end = z3.If(pos >= n, start, end)
            r = VSeq("bytes", "int", None, view=(data.t, z3.simplify(start), z3.simplify(end)))
            fp.fields["pos"] = VInt(z3.simplify(z3.If(pos >= n, pos, end)))
            return r
        MD[("BinaryIO", "readline")] = io_readline

        def io_seek(ex, a, kw):
            self.use("BinaryIO.seek")
            fp, off = a[0], unwrap("int", ex.deopt(a[1]))
            wh = a[2] if len(a) > 2 else kw.get("whence", VInt(0))
            w = wh.py()
            pos = fp.fields["pos"].t
            n = fp.fields["data"].length()
            if w == 0:
                new = off
            elif w == 1:
                new = pos + off
            elif w == 2:
                new = n + off
            else:
                raise Unsupported("seek whence %r" % (wh,))
            if ex.may_raise(new < 0):
                ex.raise_(OSError)       # ValueError for BytesIO, OSError for files: both unexpected
            fp.fields["pos"] = VInt(z3.simplify(new))
            return VInt(new)
        MD[("BinaryIO", "seek")] = io_seek

        def io_tell(ex, a, kw):
            self.use("BinaryIO.tell")
            return a[0].fields["pos"]
        MD[("BinaryIO", "tell")] = io_tell

        def io_close(ex, a, kw):
            a[0].fields["closed"] = VBool(True)
            return NONE
        MD[("BinaryIO", "close")] = io_close

    # ------------------------------------------------------------------ regular expressions
    # A compiled pattern applied to a *symbolic* subject is modelled by uninterpreted functions of
    # (pattern, subject): whether it matches and what each group captured.  Code and spec share
    # them, so a proof about the control flow does not depend on the regex; what the pattern's
    # language and groups are is the business of the rx lemmas (vf/rx), which are obligations of
    # their own.  Facts a contract needs about the groups are supplied by `regex_facts`.
    def pattern_id(self, pat):
        key = (pat.pattern, pat.flags)
        if key not in self._pattern_ids:
            self._pattern_ids[key] = len(self._pattern_ids) + 1
            self._patterns[self._pattern_ids[key]] = pat
        return self._pattern_ids[key]

    def re_match(self, ex, pat, subject, how="match"):
        self.use("re.%s on symbolic text: uninterpreted (matches?, groups) of (pattern, subject); language facts from rx lemmas" % how)
        pid = self.pattern_id(pat)
        subj = subject
        if isinstance(subj, VOpt):
            if ex.may_raise(subj.isnone):
                ex.raise_(TypeError)
            subj = subj.val
        if not isinstance(subj, VSeq):
            ex.raise_(TypeError)
        want = "bytes" if isinstance(pat.pattern, bytes) else "str"
        if subj.kind != want:
            ex.raise_(TypeError)
        if subj.pyval is not None:
            m = getattr(pat, how)(subj.pyval)
            if m is None:
                return NONE
            return VObj("Match", {"pat": VPy(pat), "subject": subj, "real": VPy(m)}, fresh_name("m"))
        ok = F_REMATCH(z3.IntVal(pid), z3.StringVal(how), subj.t)
        mo = VObj("Match", {"pat": VPy(pat), "subject": subj, "how": VPy(how)}, fresh_name("m"))
        self._single_class_fact(ex, pat, how, subj, ok)
        for hook in self.regex_facts:
            hook(ex, self, pat, pid, how, subj, ok)
        return VOpt(z3.Not(ok), mo)

    def re_findall(self, ex, pat, subject):
        """pattern.findall(text) for a pattern without groups: the list of matched substrings, an uninterpreted function of
        (pattern, text); what is known about the elements comes from contracts (each element is a match of the pattern)"""
        if pat.groups:
            raise Unsupported("findall with groups")
        subj = subject
        if isinstance(subj, VOpt):
            subj = ex.deopt(subj)
        if subj.pyval is not None:
            return self.make_list(ex, [lift(x) for x in pat.findall(subj.pyval)]) if pat.findall(subj.pyval) else \
                VBox("list", VSeq("list", subj.kind, z3.Empty(sort_of(("list", subj.kind)))))
        self.use("re.findall on symbolic text: uninterpreted list of matched substrings of (pattern, text)")
        return VBox("list", VSeq("list", subj.kind, F_FINDALL(z3.IntVal(self.pattern_id(pat)), subj.t)))

    def _single_class_fact(self, ex, pat, how, subj, ok):
        """patterns of the form  CLASS  or  CLASS+  under match(): the match succeeds iff the subject is
        non-empty and its first character is in the class (character set taken from the interpreter)"""
        if how != "match":
            return
        import re._parser as sp
        from vf import rx
        tree = list(sp.parse(pat.pattern, pat.flags))
        if len(tree) != 1:
            return
        op, av = tree[0]
        nm = str(op)
        node = None
        if nm in ("LITERAL", "NOT_LITERAL", "IN", "ANY"):
            node = (op, av)
        elif nm in ("MAX_REPEAT", "MIN_REPEAT") and av[0] >= 1 and len(av[2]) == 1 and \
                str(av[2][0][0]) in ("LITERAL", "NOT_LITERAL", "IN", "ANY"):
            node = av[2][0]
        if node is None:
            return
        ranges = rx.atom_set(None, node, isinstance(pat.pattern, bytes), pat.flags)
        if subj.view is not None:
            c = subj.view[0][subj.view[1]]
        else:
            c = subj.t[0]
        inclass = z3.Or(*[(c == lo) if lo == hi else z3.And(c >= lo, c <= hi) for lo, hi in ranges]) if ranges else z3.BoolVal(False)
        ex.define(ok == z3.And(subj.length() >= 1, inclass))
        self.use("re: a single-class pattern %r matches iff the first character is in the class (exact set from the interpreter)"
                 % (pat.pattern,))

    def re_group(self, ex, mo, k):
        pat = mo.fields["pat"].obj
        subj = mo.fields["subject"]
        if "real" in mo.fields:
            g = mo.fields["real"].obj.group(k)
            return NONE if g is None else lift(g)
        pid = self.pattern_id(pat)
        how = mo.fields["how"].obj
        t = F_REGROUP(z3.IntVal(pid), z3.StringVal(how), z3.IntVal(k), subj.t)
        v = VSeq(subj.kind, "int", t)
        if k == 0 or not _group_optional(pat, k):
            return v
        return VOpt(F_REGROUPNONE(z3.IntVal(pid), z3.StringVal(how), z3.IntVal(k), subj.t), v)

    def py_int(self, ex, v):
        self.use("int(text): uninterpreted py_int/py_is_int on the text (raises ValueError iff not py_is_int); "
                 "int of a single ASCII digit character is its value")
        t = v.t
        c = v.view[0][v.view[1]] if v.view is not None else t[0]
        ex.define(z3.Implies(z3.And(v.length() == 1, c >= 48, c <= 57), z3.And(F_ISINT(t), F_PYINT(t) == c - 48)))
        if not ex.spec_mode and ex.branch(z3.Not(F_ISINT(t))):
            ex.raise_(ValueError)
        return VInt(F_PYINT(t))

    def isinstance1(self, ex, v, k):
        if isinstance(v, VOpt):
            return z3.And(z3.Not(v.isnone), self.isinstance1(ex, v.val, k))
        if isinstance(k, VPy):
            c = k.obj
            if c is bytes:
                return z3.BoolVal(isinstance(v, VSeq) and v.kind == "bytes")
            if c is str:
                return z3.BoolVal(isinstance(v, VSeq) and v.kind == "str")
            if c is int:
                return z3.BoolVal(isinstance(v, (VInt, VBool)))
            if c is bool:
                return z3.BoolVal(isinstance(v, VBool))
            if c is tuple:
                return z3.BoolVal(isinstance(v, VTuple))
            if c is list:
                return z3.BoolVal(isinstance(v, VBox) and v.kind == "list")
            if isinstance(c, type) and isinstance(v, VExc_types()):
                return z3.BoolVal(issubclass(v.pycls, c))
            if v is NONE:
                return z3.BoolVal(False)
        if isinstance(k, VClass):
            if isinstance(v, VObj):
                mod = ex.world.module_of_class(v.cls)
                return z3.BoolVal(v.cls == k.name or (mod is not None and mod.is_subclass(v.cls, k.name)))
            return z3.BoolVal(False)
        raise Unsupported("isinstance(%r, %r)" % (v, k))


def _coerce_empty_seq(a, b):
    from vf.pyvc.interp import _coerce_empty
    return _coerce_empty(a, b)


def VExc_types():
    from vf.pyvc.interp import VExc
    return (VExc,)


# builtins that are plain names for real classes
for _n, _c in (("bytes", bytes), ("str", str), ("tuple", tuple)):
    pass
