"""Mechanical extraction of the functions under contract from $VERIF_REPO on every run.

Nothing of the repository is transcribed in /verif: the VC generator walks the `ast` of the file
as it is on disk at the moment of the check.  What extraction drops (exactly): comments and
`# type:` comments (not part of the AST), docstrings, `@overload` stubs, `if TYPE_CHECKING:`
blocks and the `try: from typing import ... except ImportError` prologue, `cast(T, v)` (identity),
`function_deprecated_by` aliases, `sys.intern(s)` (identity).
"""
import ast
import importlib
import importlib.util
import os
import sys


class ClassInfo:
    def __init__(self, name, node, module):
        self.name = name
        self.node = node
        self.module = module
        self.bases = []
        for b in node.bases:
            if isinstance(b, ast.Name):
                self.bases.append(b.id)
            elif isinstance(b, ast.Attribute):
                self.bases.append(b.attr)
            elif isinstance(b, ast.Subscript) and isinstance(b.value, ast.Name):
                self.bases.append(b.value.id)
        self.methods = {}
        self.assigns = {}
        self.decorators = {}
        self.setters = {}          # property name -> FunctionDef decorated with @<name>.setter
        for st in node.body:
            if isinstance(st, (ast.FunctionDef,)):
                decs = [ast.unparse(d) for d in st.decorator_list]
                if "overload" in decs:
                    continue
                if any(d == st.name + ".setter" for d in decs):
                    self.setters[st.name] = st
                    continue
                self.methods[st.name] = st
                self.decorators[st.name] = decs
            elif isinstance(st, ast.Assign) and len(st.targets) == 1 and isinstance(st.targets[0], ast.Name):
                self.assigns[st.targets[0].id] = st.value


class ModuleInfo:
    def __init__(self, modname, repo_lib):
        self.modname = modname
        self.repo_lib = repo_lib
        self.path = os.path.join(repo_lib, *modname.split(".")) + ".py"
        self.source = open(self.path, encoding="utf-8").read()
        self.tree = ast.parse(self.source, self.path)
        self.functions = {}
        self.classes = {}
        self.assigns = {}
        self.imports = {}     # local name -> (module, attr or None)
        self._scan(self.tree.body)
        self._real = None

    def _scan(self, body):
        for st in body:
            if isinstance(st, ast.FunctionDef):
                self.functions[st.name] = st
            elif isinstance(st, ast.ClassDef):
                self.classes[st.name] = ClassInfo(st.name, st, self)
            elif isinstance(st, ast.Assign) and len(st.targets) == 1 and isinstance(st.targets[0], ast.Name):
                self.assigns[st.targets[0].id] = st.value
            elif isinstance(st, ast.ImportFrom) and st.module:
                full = st.module
                if st.level:
                    full = ".".join(self.modname.split(".")[:-st.level] + [st.module])
                for a in st.names:
                    self.imports[a.asname or a.name] = (full, a.name)
            elif isinstance(st, ast.Import):
                for a in st.names:
                    self.imports[a.asname or a.name.split(".")[0]] = (a.name, None)
            elif isinstance(st, ast.If):
                # `if _have_apt_pkg: class Version(AptPkgVersion) else: class Version(NativeVersion)`:
                # resolved through the real module object (see real())
                self._scan_conditional(st)
            elif isinstance(st, ast.Try):
                self._scan(st.body)

    def _scan_conditional(self, st):
        # keep both branches' definitions under a list so that resolve() can pick by the real module
        for branch in (st.body, st.orelse):
            for s in branch:
                if isinstance(s, ast.ClassDef):
                    self.classes.setdefault("?cond:" + s.name, []).append(ClassInfo(s.name, s, self))
                elif isinstance(s, ast.FunctionDef):
                    self.functions.setdefault(s.name, s)

    def real(self):
        """The real module, imported from the tree under check (for class hierarchy, constants,
        compiled pattern objects).  Function bodies are never taken from it."""
        if self._real is None:
            self._real = importlib.import_module(self.modname)
            f = getattr(self._real, "__file__", "")
            if os.path.realpath(f) != os.path.realpath(self.path):
                raise RuntimeError("module %s was imported from %s, expected %s"
                                   % (self.modname, f, self.path))
        return self._real

    def cls(self, name):
        if name in self.classes:
            return self.classes[name]
        key = "?cond:" + name
        if key in self.classes:
            real = getattr(self.real(), name)
            realbases = [b.__name__ for b in real.__bases__]
            for ci in self.classes[key]:
                if ci.bases == realbases:
                    return ci
            return self.classes[key][0]
        # a class imported from another module of the library (cross-module inheritance, e.g. DebFile(ArFile))
        imp = self.imports.get(name)
        if imp is not None and imp[1] is not None and imp[0].split(".")[0] == self.modname.split(".")[0]:
            try:
                return load(imp[0], self.repo_lib).cls(imp[1])
            except (OSError, SyntaxError):
                return None
        return None

    def lookup(self, qualname):
        """'ArMember.readline' -> (FunctionDef, class name or None)"""
        parts = qualname.split(".")
        if len(parts) == 1:
            return self.functions.get(parts[0]), None
        ci = self.cls(parts[0])
        if ci is None:
            return None, None
        node = ci.methods.get(parts[1])
        cname = parts[0]
        # inherited?
        seen = set()
        while node is None and ci is not None and ci.name not in seen:
            seen.add(ci.name)
            nxt = None
            for b in ci.bases:
                bi = self.cls(b)
                if bi is not None:
                    nxt = bi
                    break
            ci = nxt
            if ci is not None:
                node = ci.methods.get(parts[1])
                cname = ci.name
        return node, cname

    def mro_lookup(self, clsname, attr):
        """method or class-level assignment through the (single-inheritance, same-module) MRO"""
        ci = self.cls(clsname)
        seen = set()
        while ci is not None and ci.name not in seen:
            seen.add(ci.name)
            if attr in ci.methods:
                return ("method", ci.methods[attr], ci)
            if attr in ci.assigns:
                return ("assign", ci.assigns[attr], ci)
            nxt = None
            for b in ci.bases:
                bi = self.cls(b)
                if bi is not None:
                    nxt = bi
                    break
            ci = nxt
        return None

    def is_subclass(self, clsname, of):
        ci = self.cls(clsname)
        seen = set()
        while ci is not None and ci.name not in seen:
            if ci.name == of:
                return True
            seen.add(ci.name)
            nxt = None
            for b in ci.bases:
                if b == of:
                    return True
                bi = self.cls(b)
                if bi is not None:
                    nxt = bi
                    break
            ci = nxt
        return False

    def segment(self, node):
        return ast.get_source_segment(self.source, node) or ""


_cache = {}


def load(modname, repo_lib=None):
    repo_lib = repo_lib or os.path.join(os.environ.get("VERIF_REPO", "/repo"), "lib")
    key = (modname, repo_lib)
    if key not in _cache:
        if repo_lib not in sys.path:
            sys.path.insert(0, repo_lib)
        _cache[key] = ModuleInfo(modname, repo_lib)
    return _cache[key]
