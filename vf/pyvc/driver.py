"""Glue: run World.verify for a list of contracts and register the obligations with the Ctx."""
import time

from vf.runner import Unsupported
from vf.pyvc.world import to_smt2


def verify_contracts(ctx, world, contracts, replayers=None, theory="int"):
    replayers = replayers or {}
    for c in contracts:
        mod = world.module(c.module)
        node, _ = mod.lookup(c.qualname)
        fq = "%s:%s" % (c.module, c.qualname)
        if node is None:
            ctx.direct("%s exists" % fq, fq, False, "extract",
                       detail="function %s is gone from %s" % (c.qualname, mod.path))
            continue
        ctx.function_under_contract(fq, mod.segment(node))
        t0 = time.time()
        try:
            obls, stats = world.verify(c)
        except Unsupported as e:
            ctx.mark_unproved(fq, "unsupported: %s" % e)
            continue
        ctx.notes.append("%s: %s, vcgen %.1fs" % (fq, stats, time.time() - t0))
        if not obls:
            ctx.mark_unproved(fq, "no obligations generated")
            continue
        rp = replayers.get(c.qualname)
        for o in obls:
            if o.info.get("trivial"):
                ctx.direct(o.name, fq, True, "simplifier", kind=o.kind)
                continue
            mv = list(getattr(c, "model_vars", []) or [])
            replay = None
            if rp is not None:
                replay = (lambda model, rp=rp, o=o, c=c: rp(model, o, c))
            ctx.vc(o.name, fq, to_smt2(o), theory=theory, model_vars=mv, replay=replay,
                   probe=(o.kind == "probe"), kind=o.kind, key=getattr(c, "finding_key", lambda o: None)(o) or o.name)
    ctx.trusted.extend(sorted(world.speclib.used))
