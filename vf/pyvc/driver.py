"""Glue: run World.verify for a list of contracts and register the obligations with the Ctx."""
import time

import z3

from vf.runner import Unsupported
from vf.pyvc.world import to_smt2


def verify_contracts(ctx, world, contracts, replayers=None, theory="int"):
    replayers = replayers or {}
    for c in contracts:
        mod = world.module(c.module)
        node, _ = mod.lookup(c.qualname)
        fq = "%s:%s" % (c.module, c.qualname)
        if node is None:
            ctx.direct("%s exists" % fq, fq, False, "extract",
                       detail="function %s is gone from %s" % (c.qualname, mod.path))
            continue
        ctx.function_under_contract(fq, mod.segment(node))
        t0 = time.time()
        try:
            obls, stats = world.verify(c)
        except Unsupported as e:
            ctx.mark_unproved(fq, "unsupported: %s" % e)
            continue
        except (z3.Z3Exception, AttributeError, TypeError, KeyError, IndexError, ValueError, AssertionError, RecursionError) as e:
            # the current text of the function took the generator somewhere it was not built for: that is "no proof",
            # never a verdict and never a reason to lose the rest of the check (the bounded part still decides)
            import traceback
            tb = traceback.extract_tb(e.__traceback__)[-1]
            ctx.mark_unproved(fq, "unsupported (generator error %s: %s at %s:%d)" % (type(e).__name__, str(e)[:120],
                                                                                     tb.filename.split("/")[-1], tb.lineno))
            continue
        ctx.notes.append("%s: %s, vcgen %.1fs" % (fq, stats, time.time() - t0))
        if not obls:
            ctx.mark_unproved(fq, "no obligations generated")
            continue
        rp = replayers.get(c.qualname)
        for o in obls:
            if o.info.get("trivial"):
                ctx.direct(o.name, fq, True, "simplifier", kind=o.kind)
                continue
            mv = list(getattr(c, "model_vars", []) or [])
            replay = None
            if rp is not None:
                replay = (lambda model, rp=rp, o=o, c=c: rp(model, o, c))
            ob = ctx.vc(o.name, fq, to_smt2(o), theory=theory, model_vars=mv, replay=replay,
                        probe=(o.kind == "probe"), kind=("path-probe" if o.kind == "probe" else o.kind),
                        key=getattr(c, "finding_key", lambda o: None)(o) or o.name)
            if getattr(c, "solver_budget", None) and not ob.get("budget"):
                ob["budget"] = float(c.solver_budget)     # obligations known to be cheap: a failing one must not cost minutes
    ctx.trusted.extend(sorted(world.speclib.used))


def native_replayer(call, params, specs, kinds=None):
    """Replay of a solver model for a contract over plain values: `call(**args)` runs the REAL function; every
    `requires` / `ensures` clause of the contract is then evaluated natively, with the sidecar's spec functions (they
    are ordinary Python) in scope.  `params` lists the parameter names in the order of the contract's model_vars; `kinds`
    says how to turn the model value into a Python value ('str', 'bytes', 'int', 'list:str', ...).  Confirms only when
    the model satisfies every precondition and some postcondition is false (or an unlisted exception escapes)."""
    kinds = kinds or {}

    def conv(v, kind):
        if kind == "str":
            return "".join(chr(c) for c in (v or [])) if not isinstance(v, str) else v
        if kind == "bytes":
            return bytes(c & 255 for c in (v or []))
        if kind.startswith("list:"):
            return [conv(x, kind[5:]) for x in (v or [])]
        return v

    def rp(model, obl, c):
        try:
            args = {}
            for nm, var in zip(params, c.model_vars):
                if var not in model:
                    return {"confirmed": False, "note": "model has no value for %s" % var, "model": repr(model)[:400]}
                args[nm] = conv(model[var], kinds.get(nm, "str"))
            ns = dict(specs)
            ns.update(args)
            ns["implies"] = lambda a, b: (not a) or b
            for r in getattr(c, 'native_requires', None) or c.requires:
                if not eval(r, ns):
                    return {"confirmed": False, "note": "model outside the precondition %r" % r, "args": repr(args)}
            raised = None
            try:
                ns["result"] = call(**args)
            except Exception as e:
                raised = e
            out = {"function": c.qualname, "args": {k: repr(v) for k, v in args.items()}}
            if raised is not None:
                out["raised"] = repr(raised)
                conds = getattr(c, "raises", {}).get(type(raised).__name__)
                out["confirmed"] = conds is None or not all(eval(t, ns) for t in conds)
                return out
            out["result"] = repr(ns["result"])
            failed = [t for t in getattr(c, 'native_ensures', None) or c.ensures if not eval(t, ns)]
            out["failed_clauses"] = failed
            out["confirmed"] = bool(failed)
            return out
        except Exception as e:           # clause not natively evaluable (old(), comp(), ghost state ...)
            return {"confirmed": False, "note": "native replay not possible: %r" % (e,)}
    return rp


class Lemma:
    """A fact about spec functions, proved for all values of its parameters.  `induction` lists the
    instances of the induction hypothesis (parameter -> expression over the parameters); each is
    usable only when `measure` strictly decreases and stays >= 0 (guarded induction)."""
    name = ""
    function = "spec"
    params = ()          # ((name, type), ...)
    requires = ()
    claim = ""
    induction = ()
    measure = None
    uses = ()            # ((LemmaClass, {param: expression}), ...): instances of already proved lemmas


def verify_lemmas(ctx, world, lemmas):
    import z3
    from vf.pyvc.interp import Ex, Frame, PathEnd
    from vf.pyvc.values import VFunc, fresh, reset_names, VBox
    for lm in lemmas:
        reset_names()
        ex = Ex(world, [])
        fr = Frame(VFunc("user", "lemma:" + lm.name, module=None), None)
        ex.frames.append(fr)
        ex.spec_mode += 1
        try:
            for nm, ty in lm.params:
                v = fresh(ty, nm)
                fr.vars[nm] = v.val if isinstance(v, VBox) else v
            for r in lm.requires:
                ex.assume(ex.truth(ex.eval_text(r)))
            if lm.induction:
                m0 = ex.eval_text(lm.measure).t
                base = dict(fr.vars)
                for inst in lm.induction:
                    newvals = {k: ex.eval_text(v) for k, v in inst.items()}
                    fr.vars.update(newvals)
                    mi = ex.eval_text(lm.measure).t
                    pre = [ex.truth(ex.eval_text(r)) for r in lm.requires]
                    cl = ex.truth(ex.eval_text(lm.claim))
                    fr.vars.clear()
                    fr.vars.update(base)
                    ex.assume(z3.Implies(z3.And(mi >= 0, mi < m0, *pre), cl))
            base2 = dict(fr.vars)
            for other, inst in lm.uses:
                newvals = {k: ex.eval_text(v) for k, v in inst.items()}
                fr.vars.update(newvals)
                pre = [ex.truth(ex.eval_text(r)) for r in other.requires]
                cl = ex.truth(ex.eval_text(other.claim))
                fr.vars.clear()
                fr.vars.update(base2)
                ex.assume(z3.Implies(z3.And(*pre) if pre else z3.BoolVal(True), cl))
            ex.oblige("lemma %s: %s" % (lm.name, lm.claim), ex.truth(ex.eval_text(lm.claim)), kind="lemma")
        except Unsupported as e:
            ctx.mark_unproved("lemma:" + lm.name, "unsupported: %s" % e)
            continue
        finally:
            ex.spec_mode -= 1
        if ex.forks:
            ctx.mark_unproved("lemma:" + lm.name, "lemma text forks the path")
            continue
        fq = lm.function
        ctx.functions.setdefault(fq, {"sha256_16": "-", "obligations": 0})
        for o in ex.obls:
            if o.info.get("trivial"):
                ctx.direct(o.name, fq, True, "simplifier", kind=o.kind)
            else:
                ctx.vc(o.name, fq, to_smt2(o), theory="int", kind=o.kind)
