"""Back-end portfolio: every obligation is an SMT-LIB2 text whose *unsat* answer means
"obligation valid".  Back ends: z3 5.1 (z3-new), z3 4.8.12 (/usr/bin/z3), cvc5 1.0.3.

Verdict mapping (never anything else):
  unsat from any back end          -> discharged
  sat   from any back end          -> refuted (model values returned when requested)
  everything else                  -> unknown  (timeout, parse error, 'unknown')
"""
import os
import re
import shutil
import subprocess
import time
from concurrent.futures import ThreadPoolExecutor

Z3NEW = shutil.which("z3-new") or "/opt/veriftools/pyvenv/bin/z3"
Z3OLD = "/usr/bin/z3"
CVC5 = "/usr/bin/cvc5"

BACKENDS = {
    "z3-5.1": lambda t: [Z3NEW, "-in", "-T:%d" % max(1, int(t))],
    "z3-4.8.12": lambda t: [Z3OLD, "-in", "-T:%d" % max(1, int(t))],
    "cvc5-1.0.3": lambda t: [CVC5, "--lang=smt2", "--strings-exp", "--produce-models",
                             "--tlimit=%d" % int(t * 1000)],
}
ORDER = {
    "int": ["z3-4.8.12", "z3-5.1", "cvc5-1.0.3"],
    "str": ["z3-4.8.12", "cvc5-1.0.3", "z3-5.1"],
}


def backend_versions():
    out = {}
    for name, cmd in (("z3-5.1", [Z3NEW, "--version"]), ("z3-4.8.12", [Z3OLD, "--version"]),
                      ("cvc5-1.0.3", [CVC5, "--version"])):
        try:
            r = subprocess.run(cmd, capture_output=True, text=True, timeout=20)
            out[name] = r.stdout.strip().splitlines()[0]
        except Exception as e:  # pragma: no cover
            out[name] = "MISSING: %r" % (e,)
    return out


# --------------------------------------------------------------------------- s-expr / values

_TOK = re.compile(r'\s*(?:(\()|(\))|("(?:[^"]|"")*")|([^\s()"]+))')


def parse_sexprs(text):
    pos = 0
    stack = [[]]
    n = len(text)
    while pos < n:
        m = _TOK.match(text, pos)
        if not m:
            break
        pos = m.end()
        if m.group(1):
            stack.append([])
        elif m.group(2):
            top = stack.pop()
            stack[-1].append(top)
        elif m.group(3) is not None:
            stack[-1].append(("str", m.group(3)[1:-1].replace('""', '"')))
        elif m.group(4) is not None:
            stack[-1].append(m.group(4))
    return stack[0]


def _unescape(s):
    def rep(m):
        return chr(int(m.group(1) or m.group(2), 16))
    return re.sub(r'\\u\{([0-9a-fA-F]+)\}|\\u([0-9a-fA-F]{4})', rep, s)


def value_of(sx):
    """Convert a model value s-expression into a Python value (int, bool, str, list)."""
    if isinstance(sx, tuple):
        return _unescape(sx[1])
    if isinstance(sx, str):
        if sx == "true":
            return True
        if sx == "false":
            return False
        if re.fullmatch(r"-?\d+", sx):
            return int(sx)
        return sx
    if not sx:
        return sx
    head = sx[0]
    if head == "-" and len(sx) == 2:
        v = value_of(sx[1])
        return -v if isinstance(v, int) else sx
    if head == "as" and len(sx) == 3 and sx[1] == "seq.empty":
        return []
    if head == "seq.unit":
        return [value_of(sx[1])]
    if head in ("seq.++", "str.++"):
        parts = [value_of(x) for x in sx[1:]]
        if all(isinstance(p, str) for p in parts):
            return "".join(parts)
        out = []
        for p in parts:
            if isinstance(p, list):
                out.extend(p)
            else:
                return sx
        return out
    if head == "_" and len(sx) == 3 and sx[1] == "char":
        return chr(int(sx[2][2:], 16))
    if head == "let":
        return sx
    return sx


def parse_get_value(text):
    """'((a 1) (b (- 2)))' -> {'a': 1, 'b': -2}"""
    out = {}
    try:
        sx = parse_sexprs(text)
    except Exception:
        return out
    for top in sx:
        if isinstance(top, list):
            for pair in top:
                if isinstance(pair, list) and len(pair) == 2 and isinstance(pair[0], str):
                    try:
                        out[pair[0]] = value_of(pair[1])
                    except Exception:
                        out[pair[0]] = repr(pair[1])
    return out


# --------------------------------------------------------------------------- running


def run_backend(name, smt2, budget, model_vars=()):
    text = smt2
    if "(check-sat)" not in text:
        text += "\n(check-sat)\n"
    for v in model_vars:
        # one command per variable: a variable the VC does not mention is an error for that
        # command only
        text += "(get-value (%s))\n" % v
    if name.startswith("cvc5"):
        if "(set-logic" not in text:
            text = "(set-logic ALL)\n" + text
        text = "(set-option :produce-models true)\n" + text
    else:
        text = "(set-option :model.completion true)\n" + text
    t0 = time.time()
    try:
        r = subprocess.run(BACKENDS[name](budget), input=text, capture_output=True, text=True,
                           timeout=budget + 5)
        out = r.stdout
    except subprocess.TimeoutExpired:
        return "unknown", time.time() - t0, {}, "hard-timeout"
    dt = time.time() - t0
    first = ""
    for ln in out.splitlines():
        ln = ln.strip()
        if ln in ("sat", "unsat", "unknown", "timeout"):
            first = ln
            break
    if first == "unsat":
        return "unsat", dt, {}, ""
    if first == "sat":
        rest = out[out.index("sat") + 3:]
        model = {}
        if model_vars:
            try:
                tops = parse_sexprs(rest)
            except Exception:
                tops = []
            # one top-level s-expression per (get-value) command, in order; errors are (error "...")
            for v, top in zip(model_vars, tops):
                if isinstance(top, list) and len(top) == 1 and isinstance(top[0], list) and len(top[0]) == 2:
                    try:
                        model[v] = value_of(top[0][1])
                    except Exception:
                        model[v] = repr(top[0][1])
        return "sat", dt, model, ""
    return "unknown", dt, {}, (out + r.stderr)[:400]


# z3 5.1 returned `unsat` for a satisfiable sequence VC twice during construction (once shown wrong by
# an explicit model).  Its `unsat` on a VC that mentions sequences is therefore only accepted together
# with a second back end; alone it still serves as refuter (`sat` + model) and for pure arithmetic.
def need_for(unsat_by):
    return 1


def _need_for_factory(smt2):
    seqy = "(Seq " in smt2 or "seq." in smt2 or "String" in smt2 or "str." in smt2

    def need(unsat_by):
        if seqy and unsat_by and all(b == "z3-5.1" for b in unsat_by):
            return len(unsat_by) + 1
        return 1
    return need


def solve_one(ob, budget, confirm=None):
    """ob: dict with name, smt2, theory ('int'|'str'), model_vars.  Fills status/backend/seconds/model.

    `unsat` for a VC that contains quantifiers must be reproduced by a second, different back end
    (z3 5.1 returned an unsound `unsat` on a quantifier + sequence query during construction);
    confirm=2 asks for a second opinion on every VC (thorough tier) and records whether it came.
    A `sat` after an `unsat` (or vice versa) is a conflict: no verdict (checker fault)."""
    budget = min(budget, ob["budget"]) if ob.get("budget") else budget
    order = ORDER.get(ob.get("theory", "int"), ORDER["int"])
    quantified = ("(forall " in ob["smt2"]) or ("(exists " in ob["smt2"])
    need_for = _need_for_factory(ob["smt2"])
    seqy = "(Seq " in ob["smt2"] or "seq." in ob["smt2"] or "String" in ob["smt2"] or "str." in ob["smt2"]
    need = 2 if quantified else 1
    want = max(need, confirm or 1)
    notes = []
    total = 0.0
    rounds = [(b, min(budget, max(2.0, budget / 4.0))) for b in order] + [(b, budget) for b in order]
    unsat_by = []
    done_full = set()
    for i, (b, t) in enumerate(rounds):
        if b in unsat_by or (b, "full") in done_full:
            continue
        if unsat_by and len(unsat_by) >= need and i >= len(order) and len(unsat_by) < want:
            # optional confirmation: only the short round is spent on it
            break
        st, dt, model, note = run_backend(b, ob["smt2"], t, ob.get("model_vars", ()))
        total += dt
        if t >= budget:
            done_full.add((b, "full"))
        if st == "sat":
            if unsat_by and seqy and all(x == "z3-5.1" for x in unsat_by):
                # a lone z3 5.1 `unsat` on a sequence VC is only a hint (see need_for): the model wins
                notes.append("z3-5.1 answered unsat, %s found a model: z3-5.1's answer disregarded" % b)
                unsat_by = []
            if unsat_by:
                ob.update(status="conflict", backend="%s:unsat vs %s:sat" % (unsat_by[0], b),
                          seconds=round(total, 3), model=model, notes=notes)
                return ob
            ob.update(status="sat", backend=b, seconds=round(total, 3), model=model)
            return ob
        if st == "unsat":
            unsat_by.append(b)
            if len(unsat_by) >= max(want, need_for(unsat_by)):
                break
            continue
        notes.append("%s:%s:%s" % (b, st, note.replace("\n", " ")[:120]))
    if len(unsat_by) >= max(need, need_for(unsat_by)):
        ob.update(status="unsat", backend="+".join(unsat_by), seconds=round(total, 3), model={},
                  confirmed=len(unsat_by) >= 2)
        return ob
    if unsat_by:
        notes.append("quantified VC: unsat from %s was not reproduced by a second back end" % unsat_by[0])
    ob.update(status="unknown", backend="none", seconds=round(total, 3), model={}, notes=notes)
    return ob


def solve_all(obs, budget=10.0, jobs=None, confirm=None):
    jobs = jobs or min(16, (os.cpu_count() or 4))
    with ThreadPoolExecutor(max_workers=jobs) as ex:
        return list(ex.map(lambda o: solve_one(o, budget, confirm), obs))
