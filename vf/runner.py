"""Check context: collects obligations, solves them, triages failures, writes evidence."""
import hashlib
import json
import os
import re
import sys
import time

from vf import solve

ROOT = os.path.dirname(os.path.dirname(os.path.abspath(__file__)))


def load_open_obligations():
    """OPEN_OBLIGATIONS: obligations the back ends cannot decide on the unchanged tree within any budget tried (recorded with the
    reason).  When such an obligation comes back `unknown` again, nothing is concluded: the function is reported UNPROVED and the
    obligation is counted as not discharged.  A refutation (sat + replay) of it is still a violation."""
    out = []
    p = os.path.join(ROOT, "OPEN_OBLIGATIONS")
    if os.path.exists(p):
        for ln in open(p):
            m = re.match(r"open:\s+property=(\S+)\s+function=(\S+)\s+obligation=(.*?)\s*(#.*)?$", ln.strip())
            if m:
                out.append((m.group(1), m.group(2), m.group(3)))
    return out


def load_known_findings():
    out = {"finding": [], "fixed": []}
    p = os.path.join(ROOT, "KNOWN_FINDINGS")
    if os.path.exists(p):
        for ln in open(p):
            ln = ln.strip()
            if not ln or ln.startswith("#"):
                continue
            m = re.match(r"(finding|fixed):\s+property=(\S+)\s+(.*)", ln)
            if m:
                out[m.group(1)].append((m.group(2), m.group(3)))
    return out


class Unsupported(Exception):
    """The VC generator met a construct outside its encoded subset (DESIGN 6.1 case 3)."""


class Ctx:
    def __init__(self, pid, tier="quick", seed=0, write_evidence=True):
        self.pid = pid
        self.tier = tier
        self.seed = seed
        self.write_evidence = write_evidence
        self.repo = os.environ.get("VERIF_REPO", "/repo")
        self.lib = os.path.join(self.repo, "lib")
        self.budget = float(os.environ.get("VERIF_BUDGET") or (20 if tier == "quick" else 60))
        self.t0 = time.time()
        self.obligations = []     # all, solved or pending
        self.pending = []
        self.bounded_parts = []
        self.violations = []      # dicts
        self.unproved = []
        self.functions = {}       # qualname -> {sha256, obligations}
        self.trusted = []
        self.assumptions = []
        self.notes = []
        self.level = "other"
        self.explanation = ""
        self.extra = {}
        self.known = load_known_findings()
        self.open_obligations = [(f, o) for (p_, f, o) in load_open_obligations() if p_ == pid]
        self.known_hit = []

    # ------------------------------------------------------------------ registration
    def function_under_contract(self, qualname, source_segment):
        h = hashlib.sha256(source_segment.encode()).hexdigest()[:16]
        self.functions.setdefault(qualname, {"sha256_16": h, "obligations": 0})
        return h

    def vc(self, name, function, smt2, theory="int", model_vars=(), replay=None, probe=False,
           kind="vc", search=None, key=None):
        ob = dict(name=name, function=function, smt2=smt2, theory=theory,
                  model_vars=list(model_vars), replay=replay, probe=probe, kind=kind,
                  search=search, key=key or name, status="pending")
        if probe:
            ob["budget"] = 4.0       # a probe only has to survive: "unknown" is as good as a model
        elif any(function == f and o in name for f, o in self.open_obligations):
            ob["open"] = True        # recorded as undecidable for the back ends: one short attempt, no retry
            ob["budget"] = 6.0
        self.obligations.append(ob)
        self.pending.append(ob)
        if function in self.functions and not probe:
            self.functions[function]["obligations"] += 1
        return ob

    def direct(self, name, function, ok, backend, detail="", kind="direct", key=None, inputs=None,
               confirmed=False, seconds=0.0):
        """An obligation decided by a non-SMT back end (syntactic analysis, executor taint, ...)."""
        ob = dict(name=name, function=function, smt2="", theory="-", model_vars=[], probe=False,
                  kind=kind, key=key or name, status="unsat" if ok else "sat", backend=backend,
                  seconds=seconds, model={}, detail=detail)
        self.obligations.append(ob)
        if function in self.functions:
            self.functions[function]["obligations"] += 1
        if not ok:
            self.violation(key or name, name, detail, inputs=inputs, confirmed=confirmed)
        return ob

    def bounded(self, name, evaluations, distinct_nontrivial, rule, bound, samples, exhaustive=False):
        self.bounded_parts.append(dict(name=name, evaluations=int(evaluations),
                                       distinct_nontrivial=int(distinct_nontrivial), rule=rule,
                                       bound=bound, samples=samples[:6], exhaustive=exhaustive))

    def violation(self, key, obligation, detail, inputs=None, confirmed=False, solver_output=None):
        self.violations.append(dict(key=key, obligation=obligation, detail=detail, inputs=inputs,
                                    confirmed=bool(confirmed), solver_output=solver_output))

    def mark_unproved(self, function, reason):
        self.unproved.append(dict(function=function, reason=reason))
        print("UNPROVED property=%s function=%s reason=%s" % (self.pid, function, reason))

    # ------------------------------------------------------------------ solving
    def solve(self):
        todo, self.pending = self.pending, []
        if not todo:
            return []
        confirm = 2 if self.tier == "thorough" else None
        # textually identical VCs (the same clause reached along several paths) are solved once
        uniq, dups = {}, []
        for ob in todo:
            k = (ob["smt2"], tuple(ob["model_vars"]))
            if k in uniq:
                dups.append((ob, uniq[k]))
            else:
                uniq[k] = ob
        solve.solve_all(list(uniq.values()), self.budget, confirm=confirm)
        for ob, src in dups:
            for f in ("status", "backend", "seconds", "model", "notes", "confirmed"):
                if f in src:
                    ob[f] = src[f]
            ob["seconds"] = 0.0
            ob["same_vc_as"] = src["name"]
        # retry unknowns once with a tripled budget (a busy machine must not flip a verdict)
        again = [ob for ob in uniq.values() if ob["status"] == "unknown" and not ob["probe"] and not ob.get("open")]
        if again:
            for ob in again:
                ob["retried"] = True
            solve.solve_all(again, self.budget * 3, jobs=8, confirm=confirm)
        for ob, src in dups:
            if src.get("retried"):
                for f in ("status", "backend", "model", "notes", "confirmed"):
                    if f in src:
                        ob[f] = src[f]
        for ob in todo:
            if ob["status"] == "conflict":
                raise RuntimeError("back ends disagree on %s: %s" % (ob["name"], ob["backend"]))
        for ob in todo:
            self._triage(ob)
        self._check_probes(todo)
        return todo

    def _check_probes(self, todo):
        """vacuity: a probe is a deliberately false sibling ("this normal path / this language is empty").
        Per function at least one probe must survive (not be discharged); path probes of infeasible
        paths may be discharged."""
        by_fn = {}
        for ob in todo:
            if ob["probe"]:
                by_fn.setdefault((ob["function"], ob["kind"]), []).append(ob)
        for (fn, grp), obs in by_fn.items():
            if grp == "path-probe":
                bad = obs if all(o["status"] == "unsat" for o in obs) else []
            else:
                bad = [o for o in obs if o["status"] == "unsat"]
            if bad:
                # Nothing may be concluded from obligations whose hypotheses are contradictory: the function counts as
                # unproved and its "discharged" obligations are voided.  On the unchanged tree this never happens (it
                # would show as UNPROVED and lower the reported level); after a code change it can, e.g. when an
                # assertion of the changed code can no longer hold on the probed paths.
                self.mark_unproved(fn, "vacuity probe discharged (%s): no conclusion is drawn from this function's obligations"
                                   % bad[0]["name"][:120])
                for o in self.obligations:
                    if o["function"] == fn and not o["probe"] and o["status"] == "unsat":
                        o["status"] = "void"

    def _triage(self, ob):
        if ob["probe"]:
            return          # judged per function in _check_probes
        if ob["status"] == "unsat":
            return
        if ob.get("open") and ob["status"] == "unknown":
            self.mark_unproved(ob["function"], "open obligation (OPEN_OBLIGATIONS): %s - undecided by the back ends, nothing is concluded"
                               % ob["name"][:140])
            ob["status"] = "open"
            return
        detail = {"status": ob["status"], "backend": ob.get("backend"), "model": _jsonable(ob.get("model")),
                  "notes": ob.get("notes")}
        confirmed, inputs = False, None
        if ob["status"] == "sat" and ob.get("replay"):
            try:
                r = ob["replay"](ob.get("model") or {})
            except Exception as e:  # a replay must never turn into a verdict by crashing
                r = {"confirmed": False, "error": repr(e)}
            if r:
                confirmed = bool(r.get("confirmed"))
                inputs = r
        if not confirmed and ob.get("search"):
            try:
                r = ob["search"]()
            except Exception as e:
                r = {"confirmed": False, "error": repr(e)}
            if r and r.get("confirmed"):
                confirmed, inputs = True, r
        self.violation(ob["key"], ob["name"], detail, inputs=inputs, confirmed=confirmed,
                       solver_output={"smt2_sha": hashlib.sha256(ob["smt2"].encode()).hexdigest()[:16],
                                      "smt2": ob["smt2"][:20000]})

    # ------------------------------------------------------------------ finish
    def finish(self):
        if self.pending:
            self.solve()
        real = [o for o in self.obligations if not o["probe"]]
        probes = [o for o in self.obligations if o["probe"]]
        discharged = [o for o in real if o["status"] == "unsat"]
        # one report per named obligation: the same clause failing on several paths of a function is
        # one violation (the confirmed instance, if any, is the one kept)
        grouped = {}
        for v in self.violations:
            base = re.sub(r"\s*\[path [TF-]+\]", "", v["obligation"])
            cur = grouped.get(base)
            if cur is None or (v["confirmed"] and not cur["confirmed"]):
                v = dict(v, paths=1 + (cur["paths"] if cur else 0))
                grouped[base] = v
            else:
                cur["paths"] = cur.get("paths", 1) + 1
        self.violations = list(grouped.values())
        # known findings
        reported = []
        for v in self.violations:
            hit = None
            for pid, text in self.known["finding"]:
                m = re.match(r"key=(\S+)\s*(.*)", text)
                if pid == self.pid and m and m.group(1) == v["key"]:
                    hit = text
            if hit:
                self.known_hit.append(hit)
                print("KNOWN-FINDING: property=%s %s" % (self.pid, hit))
            else:
                reported.append(v)
        os.makedirs(os.path.join(ROOT, "replays"), exist_ok=True)
        if self.write_evidence:
            import glob
            for old_file in glob.glob(os.path.join(ROOT, "replays", "%s-*.json" % self.pid)):
                os.unlink(old_file)         # replay files of earlier runs of this property
        lines = []
        for n, v in enumerate(reported):
            safe = re.sub(r"[^A-Za-z0-9_.-]+", "_", v["obligation"])[:80]
            rel = "replays/%s-%s-%d.json" % (self.pid, safe, n)
            with open(os.path.join(ROOT, rel), "w") as f:
                json.dump(dict(property=self.pid, obligation=v["obligation"], key=v["key"],
                               confirmed_on_real_code=v["confirmed"], inputs=_jsonable(v["inputs"]),
                               detail=_jsonable(v["detail"]), solver_output=v["solver_output"],
                               repo=self.repo, tier=self.tier), f, indent=1, default=repr)
            tail = "" if v["confirmed"] else " no-failing-input-found"
            lines.append("VIOLATION property=%s replay=%s obligation=%s%s"
                         % (self.pid, rel, v["obligation"], tail))
        if not real and not self.bounded_parts:
            raise RuntimeError("zero obligations generated for %s" % self.pid)
        self._write_evidence(real, probes, discharged, reported)
        for ln in lines:
            print(ln)
        print("%s: %d/%d obligations discharged, %d probes, %d bounded parts, %d violation(s), "
              "%d known finding(s), %.1fs"
              % (self.pid, len(discharged), len(real), len(probes), len(self.bounded_parts),
                 len(reported), len(self.known_hit), time.time() - self.t0))
        return 1 if reported else 0

    def _write_evidence(self, real, probes, discharged, reported):
        level = self.level
        if self.unproved or len(discharged) != len(real):
            level = "other" if level == "proof" else level
        by_backend = {}
        for o in discharged:
            by_backend[o.get("backend", "?")] = by_backend.get(o.get("backend", "?"), 0) + 1
        ev_total = sum(b["evaluations"] for b in self.bounded_parts)
        dn_total = sum(b["distinct_nontrivial"] for b in self.bounded_parts)
        samples = [dict(obligation=o["name"], function=o["function"], backend=o.get("backend"),
                        seconds=o.get("seconds"), smt2_bytes=len(o["smt2"])) for o in real[:5]]
        for b in self.bounded_parts[:3]:
            samples.extend(b["samples"][:2])
        nobl = {}
        for o in discharged:
            nobl[o["function"]] = nobl.get(o["function"], 0) + 1
        cov = dict(
            obligations=len(real), discharged=len(discharged),
            checker_cmd="bin/check %s --tier %s" % (self.pid, self.tier),
            trusted_base=sorted(set(self.trusted)),
            functions_under_contract={q: dict(v, obligations=nobl.get(q, 0)) for q, v in self.functions.items() if nobl.get(q)},
            functions_bounded_only={q: v["sha256_16"] for q, v in self.functions.items() if not nobl.get(q)},
            discharged_by_backend=by_backend,
            backends=solve.backend_versions(),
            solver_seconds=round(sum(o.get("seconds") or 0 for o in self.obligations), 3),
            per_obligation=[dict(name=o["name"], function=o["function"], kind=o["kind"],
                                 status={"unsat": "discharged", "sat": "refuted"}.get(o["status"], o["status"]),
                                 backend=o.get("backend"), seconds=o.get("seconds")) for o in real],
            confirmed_by_second_backend=sum(1 for o in discharged if o.get("confirmed")),
            vacuity_probes=dict(count=len(probes), all_rejected=all(p["status"] != "unsat" for p in probes)),
            bounded_stand_ins=self.bounded_parts,
            unproved_functions=self.unproved,
            known_findings_hit=self.known_hit,
            explanation=self.explanation or "see DESIGN.md",
            notes=self.notes,
            samples=samples or ["(none)"],
        )
        if self.bounded_parts:
            cov.update(evaluations=ev_total, distinct_nontrivial=dn_total,
                       rule="; ".join(sorted({b["rule"] for b in self.bounded_parts}))[:2000])
        cov.update(self.extra)
        ev = dict(property_id=self.pid, tier=self.tier, seed=self.seed, level=level, coverage=cov,
                  assumptions=sorted(set(self.assumptions)), wall_s=round(time.time() - self.t0, 2),
                  violations=len(reported))
        if self.write_evidence:
            os.makedirs(os.path.join(ROOT, "evidence"), exist_ok=True)
            with open(os.path.join(ROOT, "evidence", "%s.json" % self.pid), "w") as f:
                json.dump(ev, f, indent=1, default=repr)
        self.evidence = ev


def _jsonable(x):
    try:
        json.dumps(x)
        return x
    except Exception:
        if isinstance(x, dict):
            return {str(k): _jsonable(v) for k, v in x.items()}
        if isinstance(x, (list, tuple)):
            return [_jsonable(v) for v in x]
        if isinstance(x, bytes):
            return {"bytes": list(x)}
        return repr(x)
