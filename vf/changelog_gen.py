"""Generator of well-formed debian/changelog texts (deb-changelog(5)) with known components."""

PKGS = ["foo", "lib-x.y+z", "0ad", "a"]
VERS = ["1.0-1", "2:1.0~rc1+b1", "1", "0.1-2-3", "3:2.0:r7-2", "1:0.9:20060611"]
DISTS = ["unstable", "stable-proposed-updates", "experimental", "UNRELEASED", "a.b"]
URG = ["low", "medium", "high", "emergency", "critical", "LOW"]
UCOMMENT = ["", " (HIGH for security)", " extra words", " (100% sure)", " (HIGH for users of x; see NEWS)"]
PAIRS = [[], [("binary-only", "yes")], [("xs-origin", "vendor"), ("binary-only", "no")], [("a-1", "x y")],
         [("x-coverage", "85%")], [("x-fmt", "%s %(a)d 5%%"), ("binary-only", "yes")], [("x-odd", "{0} \\n $HOME")],
         [("c", "x")], [("gen", "1"), ("urge", "2")], [("Urgenc", "low")]]
CHANGES = ["  * Fix.", "  * Closes: #123, #456", "    continued line", "  * non-ASCII: é ü ß", "  * colon: and # hash",
           "  [ Some One ]", "  \t* tab after two spaces", "  * trailing space  ", "   "]
AUTHORS = [("A B", "a@b.org"), ("Only", "x@y"), ("Ünï Cödé", "u@example.org"), ("", "root@localhost")]
DATES = ["Thu, 12 Dec 2006 12:23:34 +0000", "Mon, 1 Jan 2024 01:02:03 -0500", "12 Dec 2006 12:23:34 +0000"]


def gen_block(rng):
    pkg, ver = rng.choice(PKGS), rng.choice(VERS)
    dists = rng.sample(DISTS, rng.choice([1, 1, 2, 3]))
    urg, uc = rng.choice(URG), rng.choice(UCOMMENT)
    pairs = rng.choice(PAIRS)
    header = "%s (%s) %s; urgency=%s%s%s" % (pkg, ver, " ".join(dists), urg, uc, "".join(", %s=%s" % kv for kv in pairs))
    body = []
    body += [rng.choice(["", "", " "])] * rng.choice([0, 1, 1, 2])
    for _ in range(rng.randint(1, 4)):
        body.append(rng.choice(CHANGES))
        if rng.random() < 0.3:
            body.append("")
    body += [""] * rng.choice([0, 1, 1])
    name, mail = rng.choice(AUTHORS)
    date = rng.choice(DATES)
    trailer = " -- %s <%s>  %s" % (name, mail, date)
    comp = dict(package=pkg, version=ver, distributions=" ".join(dists), urgency=urg, urgency_comment=uc,
                other_pairs=list(pairs), changes=list(body), author="%s <%s>" % (name, mail), date=date)
    return [header] + body + [trailer], comp


def gen_changelog(rng, max_blocks=3):
    lines, comps = [], []
    lines += [""] * rng.choice([0, 0, 1, 2])
    n = rng.randint(1, max_blocks)
    for i in range(n):
        bl, comp = gen_block(rng)
        lines += bl
        comps.append(comp)
        if i < n - 1 or rng.random() < 0.5:
            # separator lines between / after blocks: empty, or blank but not empty (they are text like any other)
            lines += [rng.choice(["", "", "", " ", "\t", "  "]) for _ in range(rng.choice([1, 1, 2]))]
    return "\n".join(lines) + "\n", comps
