"""Generator of well-formed debian/changelog texts (deb-changelog(5)) with known components."""

PKGS = ["foo", "lib-x.y+z", "0ad", "a"]
VERS = ["1.0-1", "2:1.0~rc1+b1", "1", "0.1-2-3", "3:2.0:r7-2", "1:0.9:20060611"]
DISTS = ["unstable", "stable-proposed-updates", "experimental", "UNRELEASED", "a.b"]
URG = ["low", "medium", "high", "emergency", "critical", "LOW"]
UCOMMENT = ["", " (HIGH for security)", " extra words", " (100% sure)", " (HIGH for users of x; see NEWS)"]
PAIRS = [[], [("binary-only", "yes")], [("xs-origin", "vendor"), ("binary-only", "no")], [("a-1", "x y")],
         [("x-coverage", "85%")], [("x-fmt", "%s %(a)d 5%%"), ("binary-only", "yes")], [("x-odd", "{0} \\n $HOME")],
         [("c", "x")], [("gen", "1"), ("urge", "2")], [("Urgenc", "low")]]
CHANGES = ["  * Fix.", "  * Closes: #123, #456", "    continued line", "  * non-ASCII: é ü ß", "  * colon: and # hash",
           "  [ Some One ]", "  \t* tab after two spaces", "  * trailing space  ", "   "]
AUTHORS = [("A B", "a@b.org"), ("Only", "x@y"), ("Ünï Cödé", "u@example.org"), ("", "root@localhost")]
DATES = ["Thu, 12 Dec 2006 12:23:34 +0000", "Mon, 1 Jan 2024 01:02:03 -0500", "12 Dec 2006 12:23:34 +0000"]


def gen_block(rng):
    pkg, ver = rng.choice(PKGS), rng.choice(VERS)
    dists = rng.sample(DISTS, rng.choice([1, 1, 2, 3]))
    urg, uc = rng.choice(URG), rng.choice(UCOMMENT)
    pairs = rng.choice(PAIRS)
    header = "%s (%s) %s; urgency=%s%s%s" % (pkg, ver, " ".join(dists), urg, uc, "".join(", %s=%s" % kv for kv in pairs))
    body = []
    body += [rng.choice(["", "", " "])] * rng.choice([0, 1, 1, 2])
    for _ in range(rng.randint(1, 4)):
        body.append(rng.choice(CHANGES))
        if rng.random() < 0.3:
            body.append("")
    body += [""] * rng.choice([0, 1, 1])
    name, mail = rng.choice(AUTHORS)
    date = rng.choice(DATES)
    trailer = " -- %s <%s>  %s" % (name, mail, date)
    comp = dict(package=pkg, version=ver, distributions=" ".join(dists), urgency=urg, urgency_comment=uc,
                other_pairs=list(pairs), changes=list(body), author="%s <%s>" % (name, mail), date=date)
    return [header] + body + [trailer], comp


def gen_changelog(rng, max_blocks=3):
    lines, comps = [], []
    lines += [""] * rng.choice([0, 0, 1, 2])
    n = rng.randint(1, max_blocks)
    for i in range(n):
        bl, comp = gen_block(rng)
        lines += bl
        comps.append(comp)
        if i < n - 1 or rng.random() < 0.5:
            # separator lines between / after blocks: empty, or blank but not empty (they are text like any other)
            lines += [rng.choice(["", "", "", " ", "\t", "  "]) for _ in range(rng.choice([1, 1, 2]))]
    return "\n".join(lines) + "\n", comps


def large_changelog(n_blocks=700):
    """a well-formed changelog far beyond 64 KiB: hundreds of blocks, one of them with 20 distributions and 600 change lines;
    returns (text, components per block)"""
    lines, comps = [], []
    for i in range(n_blocks):
        dists = "unstable" if i != 3 else " ".join("dist-%02d" % j for j in range(20))
        header = "pkg-%d (1.%d-1) %s; urgency=low" % (i % 7, i, dists)
        body = [""] + ["  * change %d of block %d %s" % (j, i, "w" * (j % 50)) for j in range(600 if i == 5 else 1 + i % 3)] + [""]
        trailer = " -- A B <a@b.org>  Thu, 12 Dec 2006 12:23:34 +0000"
        lines += [header] + body + [trailer, ""]
        comps.append(dict(package="pkg-%d" % (i % 7), version="1.%d-1" % i, distributions=dists, urgency="low", urgency_comment="",
                          other_pairs=[], changes=list(body), author="A B <a@b.org>", date="Thu, 12 Dec 2006 12:23:34 +0000"))
    return "\n".join(lines[:-1]) + "\n", comps


def aligned_changelogs():
    """variants of the large changelog in which a line end falls exactly on / next to a multiple of the usual buffer sizes
    (4 KiB, 8 KiB, 64 KiB): yields (description, text, components)"""
    for block in (4096, 8192, 65536):
        for delta in (-1, 0, 1):
            text, comps = large_changelog()
            want = block - 1 + delta                     # index at which a newline is to sit
            prev_nl = text.rfind("\n", 0, want)
            k = want - prev_nl                           # lengthening an early line by k moves that line end onto `want`
            first = text.find("\n  * ")
            eol = text.find("\n", first + 1)
            assert eol < prev_nl
            text2 = text[:eol] + "w" * k + text[eol:]
            comps[0]["changes"][1] = comps[0]["changes"][1] + "w" * k
            assert text2[want] == "\n"
            yield "a line end at offset %d" % want, text2, comps
