"""Independent scanner / generator for *valid* deb822 documents, used by the bounded stand-ins of
C05, C10 and C11 as the reference ("what are the paragraphs, the fields, their exact text spans,
their values").  It knows nothing of the library.

Grammar handled (the documents the generators below produce): field lines `Name:...` at column 0,
continuation lines starting with space or tab, comment lines starting with '#', whitespace-only
lines separating paragraphs.
"""
import random


class F:
    """one field occurrence"""
    __slots__ = ("name", "cstart", "start", "end", "value", "lines")

    def __init__(self, name, cstart, start):
        self.name, self.cstart, self.start, self.end = name, cstart, start, start
        self.lines = []

    def finish(self):
        first = self.lines[0].split(":", 1)[1]
        vals = [first.strip()]
        for ln in self.lines[1:]:
            if ln.startswith("#"):
                continue
            vals.append(ln.rstrip("\n"))
        self.value = "\n".join(vals)


def scan(text):
    """-> list of paragraphs, each a list of F (with absolute spans into `text`)"""
    lines = text.splitlines(True)
    # only '\n' is a line boundary for the format
    lines = []
    i = 0
    while i < len(text):
        j = text.find("\n", i)
        j = len(text) if j < 0 else j + 1
        lines.append((i, text[i:j]))
        i = j
    paras, cur = [], []
    field = None
    pending = None          # offset of the first comment line of a pending comment run
    k = 0
    n = len(lines)
    while k < n:
        off, ln = lines[k]
        body = ln.rstrip("\n")
        if body.strip(" \t") == "" :
            if field is not None:
                field.finish()
                field = None
            if cur:
                paras.append(cur)
                cur = []
            pending = None
        elif ln.startswith("#"):
            # look ahead over the comment run
            m = k
            while m < n and lines[m][1].startswith("#"):
                m += 1
            nxt = lines[m][1] if m < n else ""
            if nxt[:1] in (" ", "\t") and nxt.strip(" \t\n") != "" and field is not None:
                for q in range(k, m):
                    field.lines.append(lines[q][1])
                field.end = lines[m][0]
            else:
                if field is not None:
                    field.finish()
                    field = None
                pending = off
            k = m
            continue
        elif ln[:1] in (" ", "\t"):
            if field is None:
                raise ValueError("continuation line without field at %d" % off)
            field.lines.append(ln)
            field.end = off + len(ln)
        else:
            if field is not None:
                field.finish()
            name = ln.split(":", 1)[0].strip()
            field = F(name, pending if pending is not None else off, off)
            pending = None
            field.lines.append(ln)
            field.end = off + len(ln)
            cur.append(field)
        k += 1
    if field is not None:
        field.finish()
    if cur:
        paras.append(cur)
    return paras


NAMES = ["Source", "Package", "A", "xY", "Depends", "Description"]
from vf import tricky
FIRST = ["v", "  v  ", "", "a, b", "1.0 (x)"] + tricky.VALUE_BITS
CONT = [" c1\n", "\tc2 \n", " .\n", " d, e\n"] + [" %s\n" % b for b in tricky.VALUE_BITS]


def gen_field(rng, name, unique_vals=True):
    first = rng.choice(FIRST)
    sep = rng.choice([": ", ":", ":  ", " : " if False else ": "])
    text = "%s%s%s\n" % (name, sep, first)
    for _ in range(rng.choice([0, 0, 1, 2])):
        if rng.random() < 0.25:
            text += "# inner\n"
        text += rng.choice(CONT)
    if rng.random() < 0.3:
        # (comment lines may end in blanks or a tab: they are text like any other)
        text = rng.choice(["# about %s\n", "# about %s  \n#\t\n", "#about %s\t\n"]) % name + text
    return text


def gen_doc(rng, dup=False, max_paras=3):
    out = ""
    nparas = rng.randint(1, max_paras)
    for p in range(nparas):
        if p:
            out += rng.choice(["\n", "\n", " \n", "\n\n"])
            if rng.random() < 0.3:
                out += "# free comment\n\n"
        names = rng.sample(NAMES, rng.randint(1, 4))
        # the same field may be spelled differently in different paragraphs of one file (names are case-insensitive, spelling is kept)
        names = [rng.choice([nm.upper(), nm.lower(), nm.swapcase()]) if rng.random() < 0.15 else nm for nm in names]
        if dup and rng.random() < 0.7:
            respell = lambda nm: rng.choice([nm, nm, nm.upper(), nm.lower(), nm.swapcase()])   # duplicates may differ in case
            names.insert(rng.randint(0, len(names)), respell(rng.choice(names)))
            if rng.random() < 0.4:
                names.insert(rng.randint(0, len(names)), respell(names[0]))
        for nm in names:
            out += gen_field(rng, nm)
    if rng.random() < 0.12 and out.endswith("\n"):
        # a free comment after the last paragraph, possibly as the unterminated last line of the file
        return out + ("" if out.endswith("\n\n") else "\n") + "# trailing free comment" + rng.choice(["\n", ""])
    if rng.random() < 0.35 and out.endswith("\n") and not out.endswith("\n\n"):
        out = out[:-1]          # no final newline
        if out.endswith(" ") and rng.random() < 0.5:
            pass
    elif rng.random() < 0.15:
        out += "\n"
    return out


def dump_every_way(d):
    """d.dump(), after checking that dump(fd) into a binary file object and convert_to_text() give the same text"""
    import io
    out = d.dump()
    fd = io.BytesIO()
    d.dump(fd)
    if fd.getvalue().decode("utf-8") != out or d.convert_to_text() != out:
        raise AssertionError("dump(fd) wrote %r, convert_to_text() gives %r, dump() gives %r"
                             % (fd.getvalue().decode("utf-8", "replace"), d.convert_to_text(), out))
    return out


def large_documents(repro, t):
    """sizes no small example reaches (hundreds of fields / paragraphs / value lines / list values, indices beyond 256): the same
    statements as for the small documents, on generated documents whose structure is known by construction"""
    from debian._deb822_repro.parsing import Deb822ParagraphElement
    try:
        # (1) one paragraph of 300 fields, one of them with 150 comment lines and a 200-line value
        lines = []
        for i in range(300):
            if i == 150:
                lines += ["# c %d\n" % j for j in range(150)]
                lines += ["Long: first\n"] + [" cont %d\n" % j for j in range(200)]
            lines.append("F%03d: v%d\n" % (i, i))
        doc = "".join(lines)
        d = repro.parse_deb822_file(lines)
        paras = list(d)
        t.case(key="large: 300 fields")
        if len(paras) != 1 or len(list(paras[0].keys())) != 301 or paras[0]["F299"] != "v299" or \
                paras[0]["Long"] != "first\n" + "".join(" cont %d\n" % j for j in range(200)).rstrip("\n"):
            t.failed("a paragraph of 301 fields is not read as one paragraph with those fields", paragraphs=len(paras),
                     fields=[len(list(p.keys())) for p in paras][:5])
            return
        p = paras[0]
        # set a value of 400 lines, add a field, delete one, move fields - then compare with the text built by hand
        newval = "n0\n" + "\n".join(" n%d" % j for j in range(1, 400))
        p["F010"] = newval
        p["Zz-New"] = "tail"
        del p["F020"]
        p.order_first("F299")
        p.order_after("F000", "F298")
        out = dump_every_way(d)
        exp = []
        body = [l for l in lines]
        def field_block(name):
            i0 = next(i for i, l in enumerate(body) if l.startswith(name + ":"))
            i1 = i0 + 1
            while i1 < len(body) and body[i1][:1] in (" ", "\t"):
                i1 += 1
            c0 = i0
            while c0 > 0 and body[c0 - 1].startswith("#"):
                c0 -= 1
            return c0, i1
        a, b = field_block("F010")
        body[a:b] = ["F010: " + newval.replace("\n", "\n", 1) + "\n"]
        body.append("Zz-New: tail\n")
        a, b = field_block("F020")
        del body[a:b]
        a, b = field_block("F299")
        blk = body[a:b]
        del body[a:b]
        body[0:0] = blk
        a, b = field_block("F000")
        blk = body[a:b]
        del body[a:b]
        a2, b2 = field_block("F298")
        body[b2:b2] = blk
        t.case(key="large: edits on 300 fields")
        if out != "".join(body):
            first = next((i for i, (x, y) in enumerate(zip(out, "".join(body))) if x != y), min(len(out), len("".join(body))))
            t.failed("edits on a 301-field paragraph (400-line value, add, delete, two moves) do not give the expected text",
                     first_difference_at_offset=first, got=out[max(0, first - 60):first + 60], expected="".join(body)[max(0, first - 60):first + 60])
            return
        back = next(iter(repro.parse_deb822_file(out.splitlines(True))))
        if back["F010"] != newval or back["Zz-New"] != "tail" or "F020" in back:
            t.failed("re-parsing after edits on a large paragraph does not show the edited values", f010_lines=back["F010"].count("\n") + 1)
            return
        # (2) a document of 400 paragraphs: inserts at indices around 256, appends
        plines = []
        for i in range(400):
            plines += ["Package: p%d\n" % i, "Depends: x%d\n" % i, "\n"]
        d = repro.parse_deb822_file(plines)
        model = ["p%d" % i for i in range(400)]
        for idx in (0, 10, 255, 256, 257, 258, 300, 399):
            np_ = Deb822ParagraphElement.new_empty_paragraph()
            np_["Package"] = "new-at-%d" % idx
            d.insert(idx, np_)
            model.insert(idx, "new-at-%d" % idx)
        out = dump_every_way(d)
        got = [q["Package"] for q in repro.parse_deb822_file(out.splitlines(True))]
        t.case(key="large: 400 paragraphs, inserts")
        if got != model or [q["Package"] for q in d] != model:
            first = next((i for i, (x, y) in enumerate(zip(got, model)) if x != y), min(len(got), len(model)))
            t.failed("inserting paragraphs into a 400-paragraph document does not put them at the given indices",
                     first_difference_at_index=first, got=got[first:first + 3], expected=model[first:first + 3], paragraphs=len(got))
            return
        # (3) list fields with many values, and values that run over many lines
        for kind, interp, sep in (("comma", repro.LIST_COMMA_SEPARATED_INTERPRETATION, ","), ("space", repro.LIST_SPACE_SEPARATED_INTERPRETATION, "")):
            vals = ["v%d" % i for i in range(600)]
            if kind == "comma":
                vals[5] = "alt-a" + "".join("\n | alt-%d" % j for j in range(40))      # one value written over 41 lines
            text = "Package: x\nList: " + ("%s\n " % sep).join(vals) + "\nOther: 1\n"
            d = repro.parse_deb822_file(text.splitlines(True))
            kv = next(iter(d)).get_kvpair_element("List")
            with kv.interpret_as(interp) as l:
                seen = list(l)
                l.append("appended")
                l.remove("v300")
                refs = list(l.iter_value_references())
                refs[10].value = "changed"
            want = list(vals)
            want.append("appended")
            want.remove("v300")
            want[10] = "changed"
            out = dump_every_way(d)
            with next(iter(repro.parse_deb822_file(out.splitlines(True)))).get_kvpair_element("List").interpret_as(interp) as l2:
                got2 = list(l2)
            t.case(key=("large list", kind))
            if seen != vals or got2 != want or not out.endswith("Other: 1\n") or not out.startswith("Package: x\n"):
                t.failed("a list field of 600 values (one of them 41 lines long) is not read / edited like a short one", kind=kind,
                         values_read=len(seen), expected=len(vals), after_edit=len(got2), expected_after_edit=len(want),
                         first_difference=next((i for i, (x, y) in enumerate(zip(seen + got2, vals + want)) if x != y), None))
                return
    except Exception as e:
        import traceback
        t.failed("large documents raised %r" % (e,), where=traceback.format_exc()[-600:])
