"""Independent scanner / generator for *valid* deb822 documents, used by the bounded stand-ins of
C05, C10 and C11 as the reference ("what are the paragraphs, the fields, their exact text spans,
their values").  It knows nothing of the library.

Grammar handled (the documents the generators below produce): field lines `Name:...` at column 0,
continuation lines starting with space or tab, comment lines starting with '#', whitespace-only
lines separating paragraphs.
"""
import random


class F:
    """one field occurrence"""
    __slots__ = ("name", "cstart", "start", "end", "value", "lines")

    def __init__(self, name, cstart, start):
        self.name, self.cstart, self.start, self.end = name, cstart, start, start
        self.lines = []

    def finish(self):
        first = self.lines[0].split(":", 1)[1]
        vals = [first.strip()]
        for ln in self.lines[1:]:
            if ln.startswith("#"):
                continue
            vals.append(ln.rstrip("\n"))
        self.value = "\n".join(vals)


def scan(text):
    """-> list of paragraphs, each a list of F (with absolute spans into `text`)"""
    lines = text.splitlines(True)
    # only '\n' is a line boundary for the format
    lines = []
    i = 0
    while i < len(text):
        j = text.find("\n", i)
        j = len(text) if j < 0 else j + 1
        lines.append((i, text[i:j]))
        i = j
    paras, cur = [], []
    field = None
    pending = None          # offset of the first comment line of a pending comment run
    k = 0
    n = len(lines)
    while k < n:
        off, ln = lines[k]
        body = ln.rstrip("\n")
        if body.strip(" \t") == "" :
            if field is not None:
                field.finish()
                field = None
            if cur:
                paras.append(cur)
                cur = []
            pending = None
        elif ln.startswith("#"):
            # look ahead over the comment run
            m = k
            while m < n and lines[m][1].startswith("#"):
                m += 1
            nxt = lines[m][1] if m < n else ""
            if nxt[:1] in (" ", "\t") and nxt.strip(" \t\n") != "" and field is not None:
                for q in range(k, m):
                    field.lines.append(lines[q][1])
                field.end = lines[m][0]
            else:
                if field is not None:
                    field.finish()
                    field = None
                pending = off
            k = m
            continue
        elif ln[:1] in (" ", "\t"):
            if field is None:
                raise ValueError("continuation line without field at %d" % off)
            field.lines.append(ln)
            field.end = off + len(ln)
        else:
            if field is not None:
                field.finish()
            name = ln.split(":", 1)[0].strip()
            field = F(name, pending if pending is not None else off, off)
            pending = None
            field.lines.append(ln)
            field.end = off + len(ln)
            cur.append(field)
        k += 1
    if field is not None:
        field.finish()
    if cur:
        paras.append(cur)
    return paras


NAMES = ["Source", "Package", "A", "xY", "Depends", "Description"]
from vf import tricky
FIRST = ["v", "  v  ", "", "a, b", "1.0 (x)"] + tricky.VALUE_BITS
CONT = [" c1\n", "\tc2 \n", " .\n", " d, e\n"] + [" %s\n" % b for b in tricky.VALUE_BITS]


def gen_field(rng, name, unique_vals=True):
    first = rng.choice(FIRST)
    sep = rng.choice([": ", ":", ":  ", " : " if False else ": "])
    text = "%s%s%s\n" % (name, sep, first)
    for _ in range(rng.choice([0, 0, 1, 2])):
        if rng.random() < 0.25:
            text += "# inner\n"
        text += rng.choice(CONT)
    if rng.random() < 0.3:
        text = "# about %s\n" % name + text
    return text


def gen_doc(rng, dup=False, max_paras=3):
    out = ""
    nparas = rng.randint(1, max_paras)
    for p in range(nparas):
        if p:
            out += rng.choice(["\n", "\n", " \n", "\n\n"])
            if rng.random() < 0.3:
                out += "# free comment\n\n"
        names = rng.sample(NAMES, rng.randint(1, 4))
        # the same field may be spelled differently in different paragraphs of one file (names are case-insensitive, spelling is kept)
        names = [rng.choice([nm.upper(), nm.lower(), nm.swapcase()]) if rng.random() < 0.15 else nm for nm in names]
        if dup and rng.random() < 0.7:
            respell = lambda nm: rng.choice([nm, nm, nm.upper(), nm.lower(), nm.swapcase()])   # duplicates may differ in case
            names.insert(rng.randint(0, len(names)), respell(rng.choice(names)))
            if rng.random() < 0.4:
                names.insert(rng.randint(0, len(names)), respell(names[0]))
        for nm in names:
            out += gen_field(rng, nm)
    if rng.random() < 0.12 and out.endswith("\n"):
        # a free comment after the last paragraph, possibly as the unterminated last line of the file
        return out + ("" if out.endswith("\n\n") else "\n") + "# trailing free comment" + rng.choice(["\n", ""])
    if rng.random() < 0.35 and out.endswith("\n") and not out.endswith("\n\n"):
        out = out[:-1]          # no final newline
        if out.endswith(" ") and rng.random() < 0.5:
            pass
    elif rng.random() < 0.15:
        out += "\n"
    return out


def dump_every_way(d):
    """d.dump(), after checking that dump(fd) into a binary file object and convert_to_text() give the same text"""
    import io
    out = d.dump()
    fd = io.BytesIO()
    d.dump(fd)
    if fd.getvalue().decode("utf-8") != out or d.convert_to_text() != out:
        raise AssertionError("dump(fd) wrote %r, convert_to_text() gives %r, dump() gives %r"
                             % (fd.getvalue().decode("utf-8", "replace"), d.convert_to_text(), out))
    return out
