"""Small helper for the bounded stand-ins (always labelled bounded, never counted as proved)."""
import time


class Tally:
    def __init__(self, ctx, name, rule, bound):
        self.ctx, self.name, self.rule, self.bound = ctx, name, rule, bound
        self.evals = 0
        self.nontrivial = set()
        self.samples = []
        self.fail = None
        self.t0 = time.time()

    def case(self, key=None, sample=None):
        self.evals += 1
        if key is not None:
            self.nontrivial.add(key)
        if sample is not None and len(self.samples) < 4:
            self.samples.append(sample)

    def failed(self, what, **inputs):
        if self.fail is None:
            self.fail = dict(what=what, **inputs)
        return True

    def done(self, exhaustive=False):
        self.ctx.bounded(self.name, self.evals, len(self.nontrivial), self.rule, self.bound, self.samples or ["(none)"],
                         exhaustive=exhaustive)
        if self.fail:
            self.ctx.violation(self.name.split(" ")[0] + " " + self.fail["what"][:120], self.name, self.fail["what"],
                               inputs=self.fail, confirmed=True)
        return self.fail is None
