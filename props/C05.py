"""C05  Edits through the format-preserving parser are local and read back.

B-05 bounded stand-in (the contracts of DESIGN §5 C05 are not generated yet): generated valid documents
(1-3 paragraphs, attached / inner / free comments, multi-line values, odd spacing, with and without a
final newline) x histories of set / add / delete through the paragraph's dict interface.  The oracle
is an independent scanner (vf/repro_model.py): byte spans of every field are known, so "every byte
before and after the field is unchanged" is checked literally; the dump is re-scanned and re-parsed
and compared with a reference model of names (original spelling), order and values.
"""
import random

from vf.bounded import Tally
from vf.pyvc import extract
from vf import repro_model as rm
from vf import tricky

MOD = "debian._deb822_repro.parsing"

NEWVALS = ["x", "x y", "m1\n m2", "\n only\n cont", "t\n# c\n u", "a  b\tc   d", "  lead and trail\t ", "x\n  two  spaces \n\ttab\t.",
           ": colon", "é  ü", "v #c", "\n .\n  x", "\n libfoo", "\n\tone line only ", "x\n y"] + tricky.VALUE_BITS + ["m\n " + b for b in tricky.VALUE_BITS[:14]]


def norm(v):
    lines = v.split("\n")
    out = [lines[0].strip()]
    for ln in lines[1:]:
        if ln.startswith("#"):
            continue
        out.append(ln)
    return "\n".join(out)


def lookup(par, key):
    for i, f in enumerate(par):
        if f.name.lower() == key.lower():
            return i
    return -1


def run(ctx):
    mod = extract.load(MOD)
    # the containers the edits are built on - set / add / delete of a field go through set_kvpair_element / remove_kvpair_element, which keep the field order in an OrderedSet (paragraphs without duplicates) or a LinkedList of elements - are verified from the real AST of debian._util (same contracts as C09)
    from props import C09 as _c09
    _c09.verify_ordering_machinery(ctx)
    import debian._deb822_repro as repro
    for q in ("Deb822NoDuplicateFieldsParagraphElement.set_kvpair_element",
              "Deb822NoDuplicateFieldsParagraphElement.remove_kvpair_element",
              "Deb822DuplicateFieldsParagraphElement.set_kvpair_element",
              "Deb822ParagraphElement.set_field_to_simple_value", "Deb822ParagraphElement.set_field_from_raw_string",
              "Deb822ValueElement.add_final_newline_if_missing", "Deb822ValueLineElement.add_newline_if_missing"):
        node, _ = mod.lookup(q)
        if node is not None:
            ctx.function_under_contract(MOD + ":" + q, mod.segment(node))
    rng = random.Random(ctx.seed)
    rounds = 2500 if ctx.tier == "quick" else 40000
    t = Tally(ctx, "B-05 set / add / delete through the dict interface: byte locality and read-back",
              "generated documents (1-3 paragraphs; fields with attached comments, inner comments, 0-2 continuation lines, odd "
              "spacing, empty values; free comments between paragraphs; with and without final newline, trailing blanks on an "
              "unterminated last line) x histories of 1-3 operations (set existing key under any case, add new key, delete, assignments the library refuses) with "
              "single- and multi-line values; expected bytes from an independent span scanner; non-trivial = distinct (document, history)",
              "%d (document, history) pairs" % rounds)
    for _ in range(rounds):
        doc = rm.gen_doc(rng)
        if rng.random() < 0.1:
            doc = doc.rstrip("\n") + rng.choice(["  ", "\t"])        # unterminated last line with trailing blanks
        try:
            d = repro.parse_deb822_file(doc.splitlines(True))
            twin, twin_text = repro.parse_deb822_file(doc.splitlines(True)), doc     # a second, untouched document from the same text
        except Exception as e:
            t.failed("generated valid document rejected: %r" % (e,), document=doc)
            break
        text = doc
        ops = []
        ok = True
        for step in range(rng.randint(1, 3)):
            paras = rm.scan(text)
            pars = list(d)
            if len(pars) != len(paras):
                ok = t.failed("paragraph count differs from the scanner", document=doc, operations=ops) and False
                break
            pi = rng.randrange(len(paras))
            par, p = paras[pi], pars[pi]
            if rng.random() < 0.25:
                # an assignment the library refuses (a continuation line that does not start with a blank) leaves the document
                # exactly as it was - on an existing field (with its comments) and for a new name alike
                f_ = rng.choice(par)
                key_ = rng.choice([f_.name, f_.name.upper(), "Zz-New"])
                bad_val = rng.choice(["x\ny", "x\n\n y", "a\n\tb\nc", "v\n# c\nw"])
                try:
                    p[key_] = bad_val
                    refused = False
                except ValueError:
                    refused = True
                except Exception as e:
                    ok = t.failed("a refused assignment raised %r instead of ValueError" % (e,), document=doc, operations=ops + [[pi, "set", key_, bad_val]]) and False
                    break
                if refused and d.dump() != text:
                    ok = t.failed("an assignment that was refused with ValueError changed the document", document=doc,
                                  operations=ops + [[pi, "refused set", key_, bad_val]], before=text, after=d.dump()) and False
                    break
                if not refused:
                    ok = t.failed("a value with a continuation line that does not start with a blank was accepted", document=doc,
                                  operations=ops + [[pi, "set", key_, bad_val]], after=d.dump()) and False
                    break
                ops.append([pi, "refused set", key_, bad_val])
            try:
                op = rng.choice(["set", "set", "add", "del"])
                names_here = [f.name for f in par]
                if op == "add":
                    cands = [n for n in rm.NAMES + ["Zz"] if lookup(par, n) < 0]
                    if not cands:
                        continue
                    key = rng.choice(cands)
                    val = rng.choice(NEWVALS)
                    ops.append([pi, "add", key, val])
                    last = par[-1]
                    prefix = text[:last.end]
                    if not prefix.endswith("\n"):
                        prefix += "\n"
                    suffix = text[last.end:]
                    tgt = p
                    if rng.random() < 0.3:
                        tgt = p.configured_view(auto_resolve_ambiguous_fields=False)     # same semantics without duplicated fields
                        ops[-1].append("view: auto_resolve_ambiguous_fields=False")
                    how = rng.random()
                    if how < 0.2:
                        # the inherited mapping methods are part of the dict interface
                        ops[-1].append("via setdefault; get / pop of the missing name first")
                        if tgt.get(key) is not None or tgt.get(key, "dflt") != "dflt" or tgt.pop(key, "gone") != "gone":
                            raise AssertionError("get / pop of a missing field did not return the default")
                        tgt.setdefault(key, val)
                    else:
                        tgt[key] = val
                    model = [(f.name, f.value) for f in par] + [(key, norm(val))]
                elif op == "set":
                    f = rng.choice(par)
                    key = rng.choice([f.name, f.name.upper(), f.name.lower()])
                    val = rng.choice(NEWVALS)
                    ops.append([pi, "set", key, val])
                    prefix, suffix = text[:f.start], text[f.end:]
                    tgt = p
                    if rng.random() < 0.3:
                        tgt = p.configured_view(auto_resolve_ambiguous_fields=False)
                        ops[-1].append("view: auto_resolve_ambiguous_fields=False")
                    if rng.random() < 0.15:
                        ops[-1].append("key: the field's own name token; setdefault on the existing field first")
                        tgt.setdefault(key, "ignored: the field exists")
                        tgt[p.get_kvpair_element(key).field_token] = val
                    else:
                        tgt[key] = val
                    model = [(g.name, norm(val) if g is f else g.value) for g in par]
                else:
                    if len(par) == 1:
                        continue
                    f = rng.choice(par)
                    key = rng.choice([f.name, f.name.upper()])
                    ops.append([pi, "del", key])
                    prefix, suffix = text[:f.cstart], text[f.end:]
                    if rng.random() < 0.2:
                        ops[-1].append("via pop(name, default)")
                        p.pop(key, None)
                    else:
                        del p[key]
                    model = [(g.name, g.value) for g in par if g is not f]
            except Exception as e:
                ok = t.failed("an edit through the dict interface raised %r" % (e,), document=doc, operations=ops) and False
                break
            try:
                out = d.dump()
                import io as _io
                _fd = _io.BytesIO()
                d.dump(_fd)
                if _fd.getvalue().decode("utf-8") != out or d.convert_to_text() != out:
                    raise AssertionError("dump(fd) wrote %r, convert_to_text() gives %r, dump() gives %r"
                                         % (_fd.getvalue().decode("utf-8", "replace"), d.convert_to_text(), out))
            except Exception as e:
                ok = t.failed("dump raised %r" % (e,), document=doc, operations=ops) and False
                break
            if op == "del":
                good = out == prefix + suffix
            else:
                good = out.startswith(prefix) and out.endswith(suffix) and len(out) >= len(prefix) + len(suffix)
                if good:
                    mid = out[len(prefix):len(out) - len(suffix)]
                    spelled = key if op == "add" else f.name
                    good = mid.startswith(spelled + ":") and mid.endswith("\n") and \
                        all(l[:1] in (" ", "\t", "#") for l in mid.split("\n")[1:] if l != "")
            if not good:
                ok = t.failed("bytes outside the edited field changed (or the new field is not on lines of its own)",
                              document=doc, operations=ops, before=text, after=out, expected_prefix=prefix,
                              expected_suffix=suffix) and False
                break
            # read back through a fresh parse and through the scanner
            try:
                d2 = repro.parse_deb822_file(out.splitlines(True))
                pars2 = list(d2)
                got = [(k, pars2[pi][k]) for k in pars2[pi].keys()]
            except Exception as e:
                ok = t.failed("dump does not re-parse: %r" % (e,), document=doc, operations=ops, after=out) and False
                break
            if got != model or len(pars2) != len(paras) or pars2[pi].get(key.swapcase()) != dict((k.lower(), v) for k, v in model).get(key.lower()):
                ok = t.failed("re-parsed paragraph differs from the model", document=doc, operations=ops, after=out,
                              got=[list(x) for x in got], model=[list(x) for x in model]) and False
                break
            others = [[(k, q[k]) for k in q.keys()] for j, q in enumerate(pars2) if j != pi]
            exp_others = [[(g.name, g.value) for g in pp] for j, pp in enumerate(paras) if j != pi]
            if others != exp_others:
                ok = t.failed("another paragraph changed", document=doc, operations=ops, after=out) and False
                break
            text = out
        if not ok or t.fail:
            break
        if not t.fail and twin.dump() != twin_text:
            t.failed("editing one document changed another document parsed from the same text (shared state)", document=twin_text,
                     operations=ops, twin_dump=twin.dump())
            break
        t.case(key=(doc, str(ops)) if ops else None, sample={"document": doc, "operations": ops} if len(ops) == 2 else None)
    # emptying a paragraph field by field and adding a field to it afterwards: the new field stands where the paragraph was
    for _ in range(0 if t.fail else (60 if ctx.tier == "quick" else 600)):
        names = rng.sample(["Source", "Section", "Priority", "X-A"], rng.randint(1, 3))
        first = "".join("%s: v%d\n" % (nm, i) for i, nm in enumerate(names))
        rest = rng.choice(["", "\nPackage: bar\nArchitecture: all\n", "\n# c\nPackage: b\n"])
        doc = first + rest
        if not rest and rng.random() < 0.4:
            doc = doc[:-1]
        order = list(names)
        rng.shuffle(order)
        try:
            d = repro.parse_deb822_file(doc.splitlines(True))
            p = next(iter(d))
            for nm in order:
                del p[rng.choice([nm, nm.upper(), nm.lower()])]
            empty_ok = len(p) == 0 and list(p) == []
            p["Origin"] = "debian"
            out = d.dump()
            back = next(iter(repro.parse_deb822_file(out.splitlines(True))))
            got = [(k, back[k]) for k in back.keys()]
        except Exception as e:
            t.failed("emptying a paragraph and adding a field raised %r" % (e,), document=doc, deleted=order)
            break
        t.case(key=("empty-then-add", doc, tuple(order)))
        if not empty_ok or out != "Origin: debian\n" + rest or got != [("Origin", "debian")]:
            t.failed("after deleting every field of a paragraph and adding one, the dump is not the new field in its place",
                     document=doc, deleted=order, dump=out, expected="Origin: debian\n" + rest)
            break
    if not t.fail:
        # only the paragraph is kept (the file object it came from is gone): adding a field still supplies the missing newline
        import gc
        for doc_ in ("Package: foo\nArchitecture: any", "A: 1", "A: 1\n# c\nB: x\n y"):
            try:
                p_ = next(iter(repro.parse_deb822_file(doc_.splitlines(True))))
                gc.collect()
                p_["Section"] = "misc"
                out_ = p_.dump()
            except Exception as e:
                t.failed("adding a field to a paragraph whose file object is gone raised %r" % (e,), document=doc_)
                break
            t.case(key=("paragraph only", doc_))
            if out_ != doc_ + "\nSection: misc\n":
                t.failed("a field added to the paragraph of an unterminated file is not placed on a line of its own", document=doc_, dump=out_)
                break
    if not t.fail:
        rm.large_documents(repro, t)
    t.done()
    ctx.level = "other"
    ctx.explanation = ("PROVED from the real AST of debian._util (same contracts as C09): the LinkedList / OrderedSet operations "
                       "underneath - set / add / delete of a field go through set_kvpair_element / remove_kvpair_element, which keep the field order in an OrderedSet (paragraphs without duplicates) or a LinkedList of elements - keep their representation invariant and act on the abstract sequence as list insert / "
                       "delete / move. NOT proved: the element and token classes of _deb822_repro themselves - BOUNDED part (see module "
                       "docstring).")
    ctx.assumptions += ["a deleted field disappears together with the comment lines attached to it (the parser's notion of a field's text)",
                        "documents are valid (no error tokens, unique field names per paragraph)"]


def replay(ctx, data):
    return True
