"""C01  Format-preserving parser is lossless: parse then dump reproduces the input.

B-01 bounded stand-in (the tokenizer / combiner contracts of DESIGN §5 C01 are not generated yet): all
sequences of <= N lines over a set of line-class representatives x {all terminated, last unterminated,
none terminated}: parse(...).dump() and the concatenated token texts must equal the input.
R-01   regex lemmas about the real _RE_FIELD_LINE / _RE_WHITESPACE_LINE (every match of a domain line
       extends over the whole line; the groups are adjacent) - decided for all lines by SMT.
"""
import itertools
import random

import z3

from vf import rx
from vf.bounded import Tally
from vf.pyvc import extract
from vf.runner import Unsupported

MOD = "debian._deb822_repro.tokens"

ATOMS = ["\n", " \n", "\t \n", "#c\n", "# \n", " x\n", "\tx y\n", " #n\n", "A: b\n", "A:\n", "A:b\n", "A:  b  \n", "a: c\n",
         "garbage\n", ": x\n", "A b\n", "Ä: ü\n", "A: b\u00a0c\n", "A: b\x0cc\n", "A: b\rc\n", "A: \u2028\n", " \u00a0\n", "\x0c\n",
         "A:: :\n", "-A: x\n", "#\n", "A: b\x0c\n", "A: b \u00a0\n", " x\x1f\n",
         "X\x7fY: v\n", "\x80\u00ff\u2028: v\n", "\ufeffA: b\n", "\ufeff\n", "Source: source\n", "package: Package\n"]


def poison(real_parse, real_tok):
    """parses that fail half way (the line source raises, undecodable bytes) - what they leave behind must not reach later parses"""
    def failing_source():
        yield "Source: stale\n"
        yield " continuation\n"
        yield "# trailing comment\n"
        raise RuntimeError("the line source fails")
    for src in (failing_source, lambda: [b"Stale: 1\n", b"# c\n", b" \xff\xfe\n", b"X: y\n"], lambda: ["A: b\n", "# c\n", ""]):
        for fn in (lambda x: real_parse(x, accept_files_with_error_tokens=True, accept_files_with_duplicated_fields=True).dump(),
                   lambda x: list(real_tok(x))):
            try:
                fn(src())
            except Exception:
                pass


def check_lines(real_parse, real_tok, lines, t, mode, form="list"):
    import io
    give = {"list": lambda: lines, "generator": lambda: (l for l in lines), "text file object": lambda: io.StringIO("".join(lines)),
            "list of UTF-8 bytes lines": lambda: [l.encode("utf-8") for l in lines],
            "binary file object": lambda: io.BytesIO("".join(lines).encode("utf-8"))}[form]
    try:
        doc = real_parse(give(), accept_files_with_error_tokens=True, accept_files_with_duplicated_fields=True)
        dumped = doc.dump()
        toks = "".join(tk.text for tk in real_tok(give()))
        if form != "list":
            # the other ways of getting the text out: dump into a binary file object, convert_to_text()
            fd = io.BytesIO()
            doc.dump(fd)
            if fd.getvalue().decode("utf-8") != dumped or doc.convert_to_text() != dumped:
                return t.failed("dump(fd) / convert_to_text() differ from dump()", lines=lines, mode=mode, lines_given_as=form,
                                dump=dumped, dump_fd=fd.getvalue().decode("utf-8", "replace"), convert_to_text=doc.convert_to_text())
    except Exception as e:
        return t.failed("accepting parser raised %r" % (e,), lines=lines, mode=mode, lines_given_as=form)
    expect = "".join(lines) if mode != "none-terminated" else "".join(l + "\n" for l in lines)
    if dumped != expect:
        return t.failed("dump() differs from the input", lines=lines, mode=mode, dump=dumped, lines_given_as=form)
    if toks != expect:
        return t.failed("token texts do not concatenate to the input", lines=lines, mode=mode, tokens=toks, lines_given_as=form)
    return False


def replay_line(line):
    """a witness line of a refuted lemma, run through the real parser alone and in front of another field"""
    import debian._deb822_repro as repro
    out = {"line": line, "confirmed": False}
    for lines in ([line], [line if line.endswith("\n") else line + "\n", "Z: z\n"]):
        try:
            doc = repro.parse_deb822_file(lines, accept_files_with_error_tokens=True, accept_files_with_duplicated_fields=True)
            dumped = doc.dump()
        except Exception as e:
            dumped = "raised %r" % (e,)
        if dumped != "".join(lines):
            out.update(confirmed=True, lines=lines, dump=dumped)
            break
    return out


def regex_lemmas(ctx, real):
    fq = MOD + ":_RE_FIELD_LINE"
    try:
        env = rx.Env()
        pf = env.add(real._RE_FIELD_LINE, name="_RE_FIELD_LINE")
        pw = env.add(real._RE_WHITESPACE_LINE, name="_RE_WHITESPACE_LINE")
        line = env.add(r"[^\n]*\n?", 0, "domain line")
        env.finalize()
        ctx.function_under_contract(fq, repr(real._RE_FIELD_LINE.pattern))
        LINE = env.lang(line, "fullmatch")
        # the tokenizer calls .match(line) and then uses the groups as if they covered the whole line:
        # a prefix match on a domain line must also be a full match
        smt, var = env.claim_subset(z3.Intersect(env.lang(pf, "match"), LINE), env.lang(pf, "fullmatch"))
        ctx.vc("R-01a every _RE_FIELD_LINE prefix match of a line is a match of the whole line", fq, smt, theory="str",
               model_vars=[var], kind="rx",
               replay=lambda m: replay_line(env.realize(m.get("w", ""))))
        smt, var = env.claim_subset(z3.Intersect(env.lang(pw, "match"), LINE), env.lang(pw, "fullmatch"))
        ctx.vc("R-01b every _RE_WHITESPACE_LINE prefix match of a line is a match of the whole line",
               MOD + ":_RE_WHITESPACE_LINE", smt, theory="str", model_vars=[var], kind="rx",
               replay=lambda m: replay_line(env.realize(m.get("w", ""))))
        smt, var = env.smt_empty(z3.Intersect(env.lang(pf, "match"), LINE))
        ctx.vc("probe: no line matches _RE_FIELD_LINE (must NOT be discharged)", fq, smt, theory="str", probe=True, kind="probe")
    except Unsupported as e:
        ctx.mark_unproved(fq, "unsupported: %s" % e)
    ctx.solve()


def run(ctx):
    mod = extract.load(MOD)
    real = mod.real()
    import debian._deb822_repro as repro
    node, _ = mod.lookup("tokenize_deb822_file")
    ctx.function_under_contract(MOD + ":tokenize_deb822_file", mod.segment(node))
    regex_lemmas(ctx, real)
    rng = random.Random(ctx.seed)
    N = 3 if ctx.tier == "quick" else 4
    t = Tally(ctx, "B-01 parse/dump and token concatenation over sequences of line-class representatives",
              "all sequences of <= %d lines over %d representatives (blank, whitespace-only incl. NBSP / form feed, comments, "
              "continuation lines, fields with/without value and odd spacing, case-variant duplicate fields, garbage, non-ASCII, "
              "values containing NBSP / FF / CR / U+2028) in three termination modes (all terminated, last line unterminated, "
              "none terminated [>= 2 lines]; every fifth sequence also as a generator, an open text / binary file and a list of bytes lines, written out with dump(fd) and convert_to_text() too; a failing parse every 97 "
              "sequences) + seeded longer sequences; non-trivial = distinct (sequence, mode) with >= 2 lines"
              % (N, len(ATOMS)), "<= %d lines exhaustive%s, longer seeded" % (N, " (length 3 sampled)" if ctx.tier == "quick" else ""))
    seqs = [list(s) for n in range(1, N + 1) for s in itertools.product(ATOMS, repeat=n)]
    if ctx.tier == "quick":
        seqs = [s for s in seqs if len(s) <= 2] + rng.sample([s for s in seqs if len(s) == 3], 6000)
    else:
        seqs = [s for s in seqs if len(s) <= 3] + rng.sample([s for s in seqs if len(s) == 4], 60000)
    seqs += [[rng.choice(ATOMS) for _ in range(rng.randint(4, 9))] for _ in range(1500 if ctx.tier == "quick" else 15000)]
    for n_seq, s in enumerate(seqs):
        stop = False
        if n_seq % 97 == 0:
            poison(repro.parse_deb822_file, real.tokenize_deb822_file)       # a failed parse in between must leave nothing behind
        if n_seq % 5 == 0:
            # the same lines handed over as a generator / as an open text file (a file is split at "\n" only)
            for form in ("generator", "text file object", "list of UTF-8 bytes lines", "binary file object"):
                if check_lines(repro.parse_deb822_file, real.tokenize_deb822_file, list(s), t, "terminated", form):
                    stop = True
                    break
            if stop:
                break
        for mode in ("terminated", "last-unterminated", "none-terminated"):
            if mode == "terminated":
                lines = list(s)
            elif mode == "last-unterminated":
                lines = s[:-1] + [s[-1][:-1]]
                if lines[-1] == "":
                    continue        # an empty string is not a line (the tokenizer documents that it rejects it)
            else:
                if len(s) < 2:
                    continue
                lines = [l[:-1] for l in s]
            if check_lines(repro.parse_deb822_file, real.tokenize_deb822_file, lines, t, mode):
                stop = True
                break
            t.case(key=(tuple(lines), mode) if len(lines) >= 2 else None,
                   sample={"lines": lines, "mode": mode} if len(lines) == 3 and mode == "last-unterminated" else None)
        if stop:
            break
    if not t.fail:
        # sizes no small example reaches: runs of thousands of lines of one kind, hundreds of fields / stanzas, values and comments
        # of hundreds of lines, documents beyond every buffer size - same statement
        big = {
            "6000 empty lines between two stanzas": ["A: b\n"] + ["\n"] * 6000 + ["C: d\n"],
            "20000 whitespace-only lines": [" \n"] * 20000,
            "400 stanzas": [l for i in range(400) for l in ("Package: p%d\n" % i, "Depends: a,\n", " b%d\n" % i, "\n")],
            "a stanza of 600 fields": ["F%03d: v\n" % i for i in range(600)],
            "a value of 700 lines with comments inside": ["Desc: first\n"] + [(" line %d\n" % i) if i % 9 else "# c\n" for i in range(700)] + ["Z: z\n"],
            "a comment block of 500 lines": ["# c %d\n" % i for i in range(500)] + ["A: b\n"],
            "one line of 200 kB": ["A: " + "x" * 200000 + "\n", "B: c\n"],
            "3000 error lines": ["garbage %d\n" % i for i in range(3000)],
        }
        for what, lines in big.items():
            for form in ("list", "binary file object"):
                t.case(key=("large", what, form))
                if check_lines(repro.parse_deb822_file, real.tokenize_deb822_file, lines, t, "terminated", form):
                    break
            if t.fail:
                # (the generated input is described, not stored: it has up to 20000 lines)
                t.fail["lines"] = "(generated) " + what
                for k_ in ("dump", "tokens", "dump_fd", "convert_to_text"):
                    if k_ in t.fail:
                        t.fail[k_] = "%d characters" % len(t.fail[k_])
                break
    t.done()
    ctx.level = "other"
    ctx.explanation = ("R-01a/b: proved for all lines by SMT on the real pattern objects. Everything else is BOUNDED in this "
                       "revision (sequences of line-class representatives); the tokenizer and combiner contracts of DESIGN §5 "
                       "C01 are not generated yet.")
    ctx.assumptions += ["an empty string is not a line (outside the domain, documented by the tokenizer)",
                        "lines contain no inner newline"]


def replay(ctx, data):
    inp = data.get("inputs") or {}
    if "lines" in inp:
        import debian._deb822_repro as repro
        try:
            d = repro.parse_deb822_file(inp["lines"], accept_files_with_error_tokens=True,
                                        accept_files_with_duplicated_fields=True).dump()
        except Exception:
            return False
        exp = "".join(inp["lines"]) if inp.get("mode") != "none-terminated" else "".join(l + "\n" for l in inp["lines"])
        return d == exp
    return True
