"""C02  Deb822 paragraphs survive dump and re-parse, whatever the input form.

B-02 bounded stand-in (the regex line-class lemmas and parser-loop contracts of DESIGN §5 C02 are not
generated yet): generated paragraphs (policy-valid names incl. names containing '#', '-', digits;
first lines with leading ':' / '#', embedded colons, empty; continuation lines starting with space or
tab, ' .' lines, lines that look like fields or comments after the leading blank) are dumped and
re-parsed in six input forms x {plain, PGP-clearsigned} x {comment lines interleaved or not}, as a
single paragraph and as multi-paragraph documents through iter_paragraphs.
"""
import io
import random

from vf.bounded import Tally
from vf.pyvc import extract

MOD = "debian.deb822"

NAMES = ["Package", "X-Foo", "a1", "X-Bug#", "Depends", "Description", "x.y_z", "Build-Depends-Indep"]
FIRST = ["v", "1.0 (x)", ": v", "#v", "v: w", "", "a  b", "é ü", "-", "v #c"]
CONT = [" c", "\tc", " .", " a: b", " #x", "  two  words ", " é", " :", "\t# t", " -----BEGIN x-----"]


def gen_para(rng, used=None):
    used = set() if used is None else used
    out = []
    for nm in rng.sample(NAMES, rng.randint(1, 4)):
        first = rng.choice(FIRST)
        conts = [rng.choice(CONT) for _ in range(rng.choice([0, 0, 1, 2, 3]))]
        out.append((nm, first.strip() + "".join("\n" + c for c in conts)))
    return out


def forms(text):
    b = text.encode("utf-8")
    yield "str", lambda: text
    yield "bytes", lambda: b
    yield "lines+nl", lambda: text.splitlines(True)
    yield "lines", lambda: text.split("\n")[:-1] if text.endswith("\n") else text.split("\n")
    yield "text file", lambda: io.StringIO(text)
    yield "binary file", lambda: io.BytesIO(b)


def clearsign(text):
    return ("-----BEGIN PGP SIGNED MESSAGE-----\nHash: SHA256\n\n" + text +
            "-----BEGIN PGP SIGNATURE-----\n\niQEzBAEBCAAdFiEE\n=abcd\n-----END PGP SIGNATURE-----\n")


def with_comments(text, rng):
    out = []
    for ln in text.split("\n")[:-1]:
        if rng.random() < 0.4:
            out.append(rng.choice(["# comment", "#", "#Disabled: x", "# a: b"]))
        out.append(ln)
    return "\n".join(out) + "\n"


def run(ctx):
    mod = extract.load(MOD)
    real = mod.real()
    for q in ("Deb822._internal_parser", "Deb822._skip_useless_lines", "Deb822.split_gpg_and_payload", "Deb822._dump_format",
              "Deb822.iter_paragraphs", "Deb822._gpg_stripped_paragraph"):
        node, _ = mod.lookup(q)
        if node is not None:
            ctx.function_under_contract(MOD + ":" + q, mod.segment(node))
    rng = random.Random(ctx.seed)
    Deb822 = real.Deb822
    rounds = 700 if ctx.tier == "quick" else 10000
    t = Tally(ctx, "B-02 dump -> re-parse in six input forms x armor x comments; single and multi-paragraph",
              "generated paragraphs of 1-4 fields over 8 valid names (incl. '#', '.', '_', digits in the name) with 10 kinds of "
              "first line and 10 kinds of continuation line; each dumped paragraph / document is re-read as str, bytes, list of "
              "lines with and without newlines, text and binary file object; plain and clearsigned; with and without interleaved "
              "comment lines; non-trivial = distinct (document, form, armor, comments)", "%d documents" % rounds)
    for _ in range(rounds):
        nparas = rng.choice([1, 1, 2, 3])
        paras = [gen_para(rng) for _ in range(nparas)]
        try:
            objs = []
            for fields in paras:
                o = Deb822()
                for k, v in fields:
                    o[k] = v
                objs.append(o)
            dumps = [o.dump() for o in objs]
        except Exception as e:
            t.failed("building / dumping a valid paragraph raised %r" % (e,), paragraphs=paras)
            break
        bad = False
        for armor in (False, True):
            for comments in (False, True):
                if nparas == 1:
                    text = dumps[0]
                    if comments:
                        text = with_comments(text, rng)
                    if armor:
                        text = clearsign(text)
                else:
                    if armor:
                        continue            # a clearsigned document is a single paragraph
                    text = "\n".join(with_comments(dp, rng) if comments else dp for dp in dumps)
                for fname, mk in forms(text):
                    try:
                        if nparas == 1:
                            got = [list(Deb822(mk()).items())]
                            got_iter = [list(p.items()) for p in Deb822.iter_paragraphs(mk())]
                        else:
                            got = got_iter = [list(p.items()) for p in Deb822.iter_paragraphs(mk())]
                    except Exception as e:
                        bad = t.failed("re-parse raised %r" % (e,), paragraphs=paras, form=fname, armor=armor, comments=comments,
                                       text=text)
                        break
                    t.case(key=(text, fname))
                    if got != [list(map(tuple, p)) for p in paras] or got_iter != got:
                        bad = t.failed("re-parsed fields differ from the dumped paragraph(s)", paragraphs=paras, form=fname,
                                       armor=armor, comments=comments, text=text, got=got, got_iter_paragraphs=got_iter)
                        break
                if bad:
                    break
            if bad:
                break
        if bad:
            break
        if len(t.samples) < 3 and nparas == 2:
            t.samples.append({"paragraphs": paras})
    t.done()
    ctx.level = "other"
    ctx.explanation = "BOUNDED ONLY in this revision (see module docstring)."
    ctx.assumptions += ["values contain no line-boundary characters other than '\\n' (same domain restriction as C08 states)",
                        "gpg signature verification is not exercised (armor is only stripped)"]


def replay(ctx, data):
    return True
