"""C02  Deb822 paragraphs survive dump and re-parse, whatever the input form.

R-02 (proved, all lines): how the real patterns _single / _multi / _multidata and the bytes patterns of
split_gpg_and_payload classify the three kinds of line that dump() writes, and that the groups capture exactly the
key and the first line (capture lemmas over the marked translation of vf/rx.py).
B-02 bounded stand-in (the parser-loop contracts of DESIGN §5 C02 are not generated): generated paragraphs (policy-valid names incl. names containing '#', '-', digits;
first lines with leading ':' / '#', embedded colons, empty; continuation lines starting with space or
tab, ' .' lines, lines that look like fields or comments after the leading blank) are dumped and
re-parsed in seven input forms x {plain, PGP-clearsigned} x {comment lines interleaved or not}, as a
single paragraph and as multi-paragraph documents through iter_paragraphs.
"""
import io
import random

from vf.bounded import Tally
from vf.pyvc import extract

MOD = "debian.deb822"

NAMES = ["Package", "X-Foo", "a1", "X-Bug#", "Depends", "Description", "x.y_z", "Build-Depends-Indep",
         "X-Cfg[", "X-Cfg{", "X@", "X`"]      # distinct names that differ only in characters next to the letters in ASCII
from vf import tricky
FIRST = ["v", "1.0 (x)", ": v", "#v", "v: w", "", "a  b", "é ü", "-", "v #c"] + tricky.VALUE_BITS
CONT = [" c", "\tc", " .", " a: b", " Usage: ", " Contact: ", " x:", " : ", " a:\t", " #x", "  two  words ", " é", " :", "\t# t", " -----BEGIN x-----", " -----BEGIN PGP PUBLIC KEY BLOCK-----",
        " -----END PGP PUBLIC KEY BLOCK-----", "\t-----BEGIN PGP SIGNATURE-----", " -----BEGIN PGP SIGNED MESSAGE-----"] + \
    [" " + b for b in tricky.VALUE_BITS]


def gen_para(rng, used=None):
    used = set() if used is None else used
    out = []
    for nm in rng.sample(NAMES, rng.randint(1, 4)):
        first = rng.choice(FIRST)
        conts = [rng.choice(CONT) for _ in range(rng.choice([0, 0, 1, 2, 3]))]
        out.append((nm, first.strip() + "".join("\n" + c for c in conts)))
    return out


def forms(text):
    b = text.encode("utf-8")
    yield "str", lambda: text
    yield "bytes", lambda: b
    yield "lines+nl", lambda: text.splitlines(True)
    yield "lines", lambda: text.split("\n")[:-1] if text.endswith("\n") else text.split("\n")
    if text.endswith("\n") and not text.endswith("\n\n"):
        yield "str without the final newline", lambda: text[:-1]
        yield "bytes without the final newline", lambda: b[:-1]
    yield "text file", lambda: io.StringIO(text)
    yield "binary file", lambda: io.BytesIO(b)
    try:
        l1 = text.encode("latin-1")
    except UnicodeEncodeError:
        l1 = None
    if l1 is not None:
        # a real text-mode file whose own encoding is not UTF-8: it already yields decoded str lines
        yield "latin-1 text file", lambda: io.TextIOWrapper(io.BytesIO(l1), encoding="latin-1", newline="")


def clearsign(text):
    return ("-----BEGIN PGP SIGNED MESSAGE-----\nHash: SHA256\n\n" + text +
            "-----BEGIN PGP SIGNATURE-----\n\niQEzBAEBCAAdFiEE\n=abcd\n-----END PGP SIGNATURE-----\n")


def with_comments(text, rng):
    out = []
    for ln in text.split("\n")[:-1]:
        if rng.random() < 0.4:
            out.append(rng.choice(["# comment", "#", "#Disabled: x", "# a: b"]))
        out.append(ln)
    return "\n".join(out) + "\n"


# ------------------------------------------------------------------------------------------------
# R-02: lemmas on the real line patterns, for ALL lines (SMT via rx).  The dump writes three kinds of line
# ("Key: first", "Key:", continuation); the lemmas say how the parser's patterns classify each of them and what
# the groups capture.  Capture lemmas use the marked translation (vf/rx.py: group boundaries as extra symbols over
# all ways the pattern can match; what re reports is one of them).
import re
import z3
from vf import rx
from vf.runner import Unsupported

RX_KEY = r"[!-\"$-,.-9;-~][!-9;-~]*"           # Policy 5.1: US-ASCII 33-126 without ':', not starting with '#' or '-'
RX_FIRST = r"\S([^\n]*\S)?"                    # a non-empty stripped first line
RX_CONT = r"[ \t][^\n\r\x0b\x0c\x1c\x1d\x1e\x1f\x85\xa0\u1680\u2000-\u200a\u2028\u2029\u202f\u205f\u3000]*"


def regex_lemmas(ctx, real):
    D = real.Deb822
    fq = MOD + ":Deb822._internal_parser"
    try:
        env = rx.Env()
        P = {n: env.add(getattr(D, n), name=n) for n in ("_single", "_multi", "_multidata")}
        S = {n: env.add(t, 0, "spec " + n) for n, t in
             (("key", RX_KEY), ("first", RX_FIRST), ("sep", ": "), ("colon", ":"), ("nl", "\n?"),
              ("line1", RX_KEY + ": " + RX_FIRST + "\n?"), ("line2", RX_KEY + ":\n?"), ("cont", RX_CONT), ("ws", r"[ \t]+"))}
        env.finalize()
        n = rx.crosscheck(env, list(P.values()), "match", {"_single": ["key", "data"], "_multi": ["key"]})
        ctx.notes.append("rx translation of _single/_multi/_multidata cross-checked against re on %d subjects" % n)
        W = lambda k: env.lang(S[k], "fullmatch")
        L = lambda k: env.lang(P[k], "match")
        M1 = env.marked_lang(P["_single"], ["key", "data"])
        M2 = env.marked_lang(P["_multi"], ["key"])
        H1, H2 = env.erased_inverse(S["line1"]), env.erased_inverse(S["line2"])
        E1 = env.expected([("key", S["key"]), S["sep"], ("data", S["first"]), S["nl"]])
        E2 = env.expected([("key", S["key"]), S["colon"], S["nl"]])
        NONBLANK = z3.Intersect(W("cont"), z3.Complement(W("ws")))
        claims = [
            ("R-02a every dumped 'Key: first' line matches _single", env.claim_subset(W("line1"), L("_single")), "_single"),
            ("R-02a on a 'Key: first' line the groups of _single are exactly the key and the first line",
             env.claim_subset(z3.Intersect(M1, H1), E1), "_single"),
            ("R-02b every dumped 'Key:' line matches _multi", env.claim_subset(W("line2"), L("_multi")), "_multi"),
            ("R-02b a dumped 'Key:' line does not match _single (which is tried first)",
             env.claim_disjoint(W("line2"), L("_single")), "_single"),
            ("R-02b on a 'Key:' line the key group of _multi is exactly the key",
             env.claim_subset(z3.Intersect(M2, H2), E2), "_multi"),
            ("R-02c a continuation line never matches _single", env.claim_disjoint(W("cont"), L("_single")), "_single"),
            ("R-02c a continuation line never matches _multi", env.claim_disjoint(W("cont"), L("_multi")), "_multi"),
            ("R-02c a non-blank continuation line matches _multidata", env.claim_subset(NONBLANK, L("_multidata")), "_multidata"),
        ]
        def replay_for(name, pat):
            def rep(m):
                line = env.realize(env.erase(m.get("w", "")))
                got = getattr(D, pat).match(line)
                out = {"line": line, "pattern": pat, "matches": got is not None,
                       "groups": got.groupdict() if got else None}
                if "groups of" in name or "key group" in name:
                    key, _, rest = line.partition(":")
                    exp = {"key": key}
                    if pat == "_single":
                        exp["data"] = rest[1:].rstrip("\n")
                    out["expected_groups"] = exp
                    out["confirmed"] = got is not None and got.groupdict() != exp
                elif "never matches" in name or "does not match" in name:
                    out["confirmed"] = got is not None
                else:
                    out["confirmed"] = got is None
                return out
            return rep
        for name, (smt, var), pat in claims:
            ctx.function_under_contract(MOD + ":Deb822." + pat, repr(getattr(D, pat).pattern))
            ctx.vc(name, MOD + ":Deb822." + pat, smt, theory="str", model_vars=[var], kind="rx", replay=replay_for(name, pat))
        for nm, r in (("no 'Key: first' line has a marked match", z3.Intersect(M1, H1)),
                      ("no 'Key:' line has a marked match", z3.Intersect(M2, H2)), ("no non-blank continuation line", NONBLANK)):
            smt, var = env.smt_empty(r)
            ctx.vc("probe: %s (must NOT be discharged)" % nm, fq, smt, theory="str", probe=True, kind="probe")
    except Unsupported as e:
        ctx.mark_unproved(fq, "unsupported: %s" % e)
    # the encoded lines as split_gpg_and_payload sees them
    try:
        envb = rx.Env(is_bytes=True)
        pb = {n: envb.add(getattr(D, n), name=n) for n in ("_gpgre", "_blank_line_whitespace", "_blank_line_no_whitespace",
                                                           "_initial_blank_line")}
        fld = envb.add(RX_KEY.encode() + rb":[^\n]*", 0, "encoded field line")
        cnt = envb.add(rb"[ \t][^\n\r\x0b\x0c]*", 0, "encoded continuation line (VT / FF are outside the stated domain)")
        wsb = envb.add(rb"[ \t]+", 0, "ws-only")
        envb.finalize()
        n = rx.crosscheck(envb, list(pb.values()), "match")
        ctx.notes.append("rx translation of the bytes patterns cross-checked against re on %d subjects" % n)
        F = envb.lang(fld, "fullmatch")
        for pn, what in (("_gpgre", "is never taken for a PGP armor line"), ("_blank_line_whitespace", "never ends the paragraph"),
                         ("_blank_line_no_whitespace", "never ends the paragraph (whitespace does not separate)"),
                         ("_initial_blank_line", "is never skipped as an initial blank line")):
            smt, var = envb.claim_disjoint(F, envb.lang(pb[pn], "match"))
            ctx.function_under_contract(MOD + ":Deb822." + pn, repr(getattr(D, pn).pattern))
            ctx.vc("R-02d an encoded field line %s" % what, MOD + ":Deb822." + pn, smt, theory="str", model_vars=[var], kind="rx",
                   replay=lambda m, envb=envb, pn=pn: {"line": repr(envb.realize(m.get("w", ""))), "pattern": pn,
                                                       "confirmed": getattr(D, pn).match(envb.realize(m.get("w", ""))) is not None})
        C = envb.lang(cnt, "fullmatch")
        NBC = z3.Intersect(C, z3.Complement(envb.lang(wsb, "fullmatch")))
        for pn, dom, what in (("_gpgre", C, "an encoded continuation line is never taken for a PGP armor line"),
                              ("_blank_line_no_whitespace", C, "an encoded continuation line never ends the paragraph when whitespace does not separate"),
                              ("_blank_line_whitespace", NBC, "a non-blank encoded continuation line never ends the paragraph")):
            smt, var = envb.claim_disjoint(dom, envb.lang(pb[pn], "match"))
            ctx.vc("R-02d %s" % what, MOD + ":Deb822." + pn, smt, theory="str", model_vars=[var], kind="rx",
                   replay=lambda m, envb=envb, pn=pn: {"line": repr(envb.realize(m.get("w", ""))), "pattern": pn,
                                                       "confirmed": getattr(D, pn).match(envb.realize(m.get("w", ""))) is not None})
    except Unsupported as e:
        ctx.mark_unproved(MOD + ":Deb822.split_gpg_and_payload", "unsupported: %s" % e)
    ctx.solve()


# ------------------------------------------------------------------------------------------------
# P-02c  split_gpg_and_payload on unsigned input: the payload is exactly the lines (CR / LF stripped at both ends), nothing is
# taken for armor and nothing is cut off - whenever no stripped line matches _gpgre or the blank-line pattern in force.  (That the
# lines dump() writes satisfy this is R-02d.)  The regex tests are the SAME uninterpreted applications in code and contract, so
# any change to what is handed to them (line.lstrip(), a different pattern object, a different strip) breaks the obligations.
from vf.pyvc.speclib import SpecLib
from vf.pyvc.world import World, Contract
from vf.pyvc.interp import LoopSpec
from vf.pyvc.values import VBox, VSeq, VBool, VFunc, NONE, fresh, fresh_name, lift
from vf.pyvc.driver import verify_contracts


def stripped(seq):
    """the lines without CR / LF at either end"""
    if len(seq) == 0:
        return []
    return [seq[0].strip(b"\r\n")] + stripped(seq[1:])


def clean(seq):
    """no line is an armor line or a separator for the reader (after stripping CR / LF)"""
    if len(seq) == 0:
        return True
    return (not is_armor(seq[0].strip(b"\r\n"))) and (not is_blank(seq[0].strip(b"\r\n"))) and clean(seq[1:])


class SplitGpg(Contract):
    target = MOD + ":Deb822.split_gpg_and_payload"
    modular = False
    max_probes = 40        # most syntactic paths of the state machine are infeasible under `clean`: probe them all
    requires = ("clean(sequence)", "len(sequence) > 0", "not is_initial_blank(sequence[0].strip(b'\\r\\n'))")
    ensures = ("result[1] == stripped(sequence)", "len(result[0]) == 0 and len(result[2]) == 0")
    loops = {0: LoopSpec(invariants=("0 <= si and si <= len(sequence)",
                                     "lines + stripped(sequence[si:]) == stripped(sequence)",
                                     "clean(sequence[si:])",
                                     "len(gpg_pre_lines) == 0 and len(gpg_post_lines) == 0 and state == b'SAFE'",
                                     "first_line == (si == 0)"),
                         index="si", var_types={"line_": "bytes", "line": "bytes", "m": "objnone", "lines": ("list", "bytes"),
                                                "gpg_pre_lines": ("list", "bytes"), "gpg_post_lines": ("list", "bytes")})}

    def __init__(self, separates):
        self.separates = separates

    def setup(self, ex):
        seq = fresh(("list", "bytes"), "sequence")
        self.model_vars = [str(seq.val.t)]
        if self.separates:
            strict = NONE
        else:
            strict = ex.world.speclib.make_dict(ex, [])
            ex.world.speclib.dict_set(ex, strict, lift("whitespace-separates-paragraphs"), VBool(False))
        return {"sequence": seq, "strict": strict}


def verify_split_gpg(ctx, real):
    """split_gpg_and_payload under contract (shared with C08, C12 and C17, whose round trips go through it)"""
    D = real.Deb822
    for separates in (True, False):
        sl = SpecLib()
        w = World(sl)
        blank = D._blank_line_whitespace if separates else D._blank_line_no_whitespace

        def mk(pat):
            return VFunc("builtin", "re_test", fn=lambda ex, a, kw, pat=pat: VBool(ex.truth(sl.re_match(ex, pat, a[0], "match"))))
        w.spec_env["is_armor"] = mk(D._gpgre)
        w.spec_env["is_blank"] = mk(blank)
        w.spec_env["is_initial_blank"] = mk(D._initial_blank_line)
        w.spec_func(stripped, rec=dict(args=["list:bytes"], ret=("list", "bytes")))
        w.spec_func(clean, rec=dict(args=["list:bytes"], ret="bool"))
        c = SplitGpg(separates)
        c.__class__ = type("SplitGpg_%s" % ("default" if separates else "whitespace_does_not_separate"), (SplitGpg,), {})
        verify_contracts(ctx, w, [c], {})
    ctx.solve()


# ------------------------------------------------------------------------------------------------
# P-02e  the field-collecting loop of Deb822._internal_parser against a recursive specification over the payload lines.
# Line filtering (comments, armor) and decoding are opaque functions here (their own contracts / lemmas are above); the regex
# tests and group values are the same uninterpreted applications in code and specification; every `self[key] = value` is
# recorded in a ghost list `self.assigned`.
PAIR = ("tuple", ["str", "str"])


def flush(curkey, content):
    """the pending field, if any, as a list of (key, value) assignments"""
    if curkey:
        return [(the(curkey), content)]
    return []


def collect(ls, curkey, content):
    """the assignments the parser makes for the payload lines ls when (curkey, content) is the field collected so far"""
    if len(ls) == 0:
        return flush(curkey, content)
    line = decoded(ls[0])
    if single_m(line):
        return flush(curkey, content) + collect(ls[1:], single_key(line), single_data(line))
    if multi_m(line):
        return flush(curkey, content) + collect(ls[1:], multi_key(line), "")
    if multidata_m(line):
        return collect(ls[1:], curkey, content + "\n" + line)
    return collect(ls[1:], curkey, content)


def collect_w(ls, curkey, content, wanted):
    """the same with a `fields` filter: an unwanted field line still ends the pending field but starts none"""
    if len(ls) == 0:
        return flush(curkey, content)
    line = decoded(ls[0])
    if single_m(line):
        if single_key(line) in wanted:
            return flush(curkey, content) + collect_w(ls[1:], single_key(line), single_data(line), wanted)
        return flush(curkey, content) + collect_w(ls[1:], None, content, wanted)
    if multi_m(line):
        if multi_key(line) in wanted:
            return flush(curkey, content) + collect_w(ls[1:], multi_key(line), "", wanted)
        return flush(curkey, content) + collect_w(ls[1:], None, content, wanted)
    if multidata_m(line):
        return collect_w(ls[1:], curkey, content + "\n" + line, wanted)
    return collect_w(ls[1:], curkey, content, wanted)


def payload(seq):
    return []       # opaque: what gpg_stripped_paragraph(_skip_useless_lines(seq)) returns


def useful(seq):
    return []       # opaque: what _skip_useless_lines(seq) yields


def decoded(b):
    return ""       # opaque: self.decoder.decode(b)


class SkipUselessAbs(Contract):
    target = MOD + ":Deb822._skip_useless_lines"
    modular = True
    returns = ("list", "bytes")
    ensures = ("result == useful(sequence)",)


class GpgStrippedAbs(Contract):
    target = MOD + ":Deb822.gpg_stripped_paragraph"
    modular = True
    returns = ("list", "bytes")
    ensures = ("result == payload(sequence)",)
    raises = {"EOFError": ()}
    raises_modifies = {"EOFError": ()}


class DecodeAbs(Contract):
    target = MOD + ":_AutoDecoder.decode"
    modular = True
    returns = "str"
    ensures = ("result == decoded(value)",)


class SetItemAbs(Contract):
    """every assignment is recorded (what a recorded assignment does to the mapping is C08 / C09's business)"""
    target = MOD + ":Deb822.__setitem__"
    modular = True
    modifies = ("self.assigned",)
    ensures = ("self.assigned == old(self.assigned) + [(the(key), value)]",)


class InternalParser(Contract):
    target = MOD + ":Deb822._internal_parser"
    modular = False
    modifies = ("self.assigned",)
    ensures = ("self.assigned == old(self.assigned) + collect(payload(useful(sequence)), None, '')",)
    raises = {"EOFError": ()}
    raises_modifies = {"EOFError": ()}
    loops = {0: LoopSpec(invariants=("0 <= li and li <= len(payload(useful(sequence)))",
                                     "self.assigned + collect(payload(useful(sequence))[li:], curkey, content) == "
                                     "old(self.assigned) + collect(payload(useful(sequence)), None, '')"),
                         index="li", modifies=("self.assigned",),
                         var_types={"linebytes": "bytes", "line": "str", "m": "objnone", "curkey": ("opt", "str"), "content": "str"})}

    def setup(self, ex):
        from vf.pyvc.values import VObj
        assigned = fresh(("list", PAIR), "assigned")
        dec = VObj("_AutoDecoder", {}, "decoder")
        me = VObj("Deb822", {"assigned": assigned, "decoder": dec}, "self")
        return {"self": me, "sequence": fresh(("list", "bytes"), "sequence"), "fields": NONE, "strict": NONE}


# P-02f  _skip_useless_lines: exactly the lines that do not start with '#', minus blank lines before the first kept line
def kept_b(seq, at_beginning):
    if len(seq) == 0:
        return []
    if seq[0].startswith(b"#"):
        return kept_b(seq[1:], at_beginning)
    if at_beginning and not seq[0].rstrip(b"\r\n"):
        return kept_b(seq[1:], True)
    return [seq[0]] + kept_b(seq[1:], False)


def kept_s(seq, at_beginning):
    if len(seq) == 0:
        return []
    if seq[0].startswith("#"):
        return kept_s(seq[1:], at_beginning)
    if at_beginning and not seq[0].rstrip("\r\n"):
        return kept_s(seq[1:], True)
    return [seq[0]] + kept_s(seq[1:], False)


class SkipUseless(Contract):
    locals_order = ['sequence', 'at_beginning', 'line']
    target = MOD + ":Deb822._skip_useless_lines"
    modular = False

    def __init__(self, kind):
        self.kind = kind
        fn = "kept_b" if kind == "bytes" else "kept_s"
        self.yields = kind
        self.ensures = ("result == %s(sequence, True)" % fn,)
        self.loops = {0: LoopSpec(invariants=("0 <= ui and ui <= len(sequence)",
                                              "yields + %s(sequence[ui:], at_beginning) == %s(sequence, True)" % (fn, fn)),
                                  index="ui", var_types={"line": kind})}

    def setup(self, ex):
        return {"sequence": fresh(("list", self.kind), "sequence")}


def verify_skip_useless(ctx):
    sl = SpecLib()
    w = World(sl)
    w.spec_func(kept_b, rec=dict(args=["list:bytes", "int"], ret=("list", "bytes")))
    w.spec_func(kept_s, rec=dict(args=["list:str", "int"], ret=("list", "str")))
    cs = []
    for kind in ("bytes", "str"):
        c = SkipUseless(kind)
        c.__class__ = type("SkipUseless_" + kind, (SkipUseless,), {})
        cs.append(c)
    verify_contracts(ctx, w, cs, {})
    ctx.solve()


class InternalParserFields(InternalParser):
    """with fields=[...]: only the wanted fields are assigned"""
    ensures = ("self.assigned == old(self.assigned) + collect_w(payload(useful(sequence)), None, '', fields)",)
    loops = {0: LoopSpec(invariants=("0 <= li and li <= len(payload(useful(sequence)))",
                                     "self.assigned + collect_w(payload(useful(sequence))[li:], curkey, content, fields) == "
                                     "old(self.assigned) + collect_w(payload(useful(sequence)), None, '', fields)"),
                         index="li", modifies=("self.assigned",),
                         var_types={"linebytes": "bytes", "line": "str", "m": "objnone", "curkey": ("opt", "str"), "content": "str"})}

    def setup(self, ex):
        d = InternalParser.setup(self, ex)
        d["fields"] = fresh(("list", "str"), "fields")
        return d


def verify_internal_parser(ctx, real):
    D = real.Deb822
    sl = SpecLib()
    w = World(sl)

    def test(pat):
        return VFunc("builtin", "re_test", fn=lambda ex, a, kw, pat=pat: VBool(ex.truth(sl.re_match(ex, pat, a[0], "match"))))

    def group(pat, name):
        def f(ex, a, kw):
            mo = sl.re_match(ex, pat, a[0], "match")
            mo = mo.val if hasattr(mo, "val") else mo
            v = sl.re_group(ex, mo, pat.groupindex[name])
            return v.val if hasattr(v, "isnone") else v
        return VFunc("builtin", "re_group_of", fn=f)
    w.spec_env["the"] = VFunc("builtin", "the", fn=lambda ex, a, kw: a[0].val if hasattr(a[0], "isnone") else a[0])   # value of a non-None optional
    w.spec_env.update(single_m=test(D._single), multi_m=test(D._multi), multidata_m=test(D._multidata),
                      single_key=group(D._single, "key"), single_data=group(D._single, "data"), multi_key=group(D._multi, "key"))
    w.spec_func(payload, rec=dict(args=["list:bytes"], ret=("list", "bytes"), opaque=True))
    w.spec_func(useful, rec=dict(args=["list:bytes"], ret=("list", "bytes"), opaque=True))
    w.spec_func(decoded, rec=dict(args=["bytes"], ret="str", opaque=True))
    w.spec_func(flush)
    w.spec_func(collect, rec=dict(args=["list:bytes", "opt:str", "str"], ret=("list", PAIR)))
    w.spec_func(collect_w, rec=dict(args=["list:bytes", "opt:str", "str", "list:str"], ret=("list", PAIR)))
    for c in (SkipUselessAbs(), GpgStrippedAbs(), DecodeAbs(), SetItemAbs()):
        w.add_contract(c)
    verify_contracts(ctx, w, [InternalParser(), InternalParserFields()], {})
    ctx.solve()


def run(ctx):
    mod = extract.load(MOD)
    real = mod.real()
    regex_lemmas(ctx, real)
    verify_split_gpg(ctx, real)
    verify_internal_parser(ctx, real)
    verify_skip_useless(ctx)
    from props import C08 as _c08
    _c08.run_dump_format(ctx)          # _dump_format / get_as_string: one entry per key, the value exactly as stored
    for q in ("Deb822._internal_parser", "Deb822._skip_useless_lines", "Deb822.split_gpg_and_payload", "Deb822._dump_format",
              "Deb822.iter_paragraphs", "Deb822._gpg_stripped_paragraph"):
        node, _ = mod.lookup(q)
        if node is not None:
            ctx.function_under_contract(MOD + ":" + q, mod.segment(node))
    rng = random.Random(ctx.seed)
    rounds = 1500 if ctx.tier == "quick" else 12000
    t = Tally(ctx, "B-02 dump -> re-parse in six input forms x armor x comments; single and multi-paragraph",
              "generated paragraphs of 1-4 fields over 8 valid names (incl. '#', '.', '_', digits in the name) with 10 kinds of "
              "first line and 10 kinds of continuation line; each dumped paragraph / document is re-read as str, bytes, list of "
              "lines with and without newlines, text and binary file object; plain and clearsigned; with and without interleaved "
              "comment lines; non-trivial = distinct (document, form, armor, comments)", "%d documents" % rounds)
    for _ in range(rounds):
        # every paragraph class is a Deb822 paragraph; one round in five uses a derived class (none of the generated names is
        # one of their structured fields)
        Deb822 = real.Deb822 if rng.random() < 0.8 else getattr(real, rng.choice(["Packages", "Sources", "Dsc", "Changes", "Release",
                                                                                  "BuildInfo", "Deb822Dict"][:6]))
        nparas = rng.choice([1, 1, 2, 3])
        paras = [gen_para(rng) for _ in range(nparas)]
        try:
            objs = []
            for fields in paras:
                o = Deb822()
                for k, v in fields:
                    o[k] = v
                objs.append(o)
            dumps = [o.dump() for o in objs]
            # the other ways of writing a paragraph out give the same text: str(), bytes(), dump into a binary / text file
            # object, in UTF-8 and - where the text allows - in another encoding
            for o, dp in zip(objs, dumps):
                outs = {"str()": str(o)}
                if hasattr(o, "__bytes__"):
                    outs["bytes()"] = bytes(o).decode("utf-8")
                fdb = io.BytesIO()
                o.dump(fdb)
                outs["dump(binary file)"] = fdb.getvalue().decode("utf-8")
                fdt = io.StringIO()
                o.dump(fdt, text_mode=True)
                outs["dump(text file, text_mode=True)"] = fdt.getvalue()
                try:
                    dp.encode("iso8859-1")
                    fdl = io.BytesIO()
                    o.dump(fdl, encoding="iso8859-1")
                    outs["dump(binary file, encoding='iso8859-1')"] = fdl.getvalue().decode("iso8859-1")
                    back = [list(q.items()) for q in Deb822.iter_paragraphs(fdl.getvalue(), use_apt_pkg=False, encoding="iso8859-1")]
                    back1 = list(Deb822(fdl.getvalue(), encoding="iso8859-1").items())
                    if back != [list(o.items())] or back1 != list(o.items()):
                        raise AssertionError("text written and read back as iso8859-1 bytes gives %r / %r" % (back, back1))
                except UnicodeEncodeError:
                    pass
                wrong = [k for k, v in outs.items() if v != dp]
                if wrong:
                    raise AssertionError("%s differs from dump(): %r vs %r" % (wrong[0], outs[wrong[0]], dp))
        except Exception as e:
            t.failed("building / dumping a valid paragraph raised %r" % (e,), paragraphs=paras)
            break
        bad = False
        for armor in (False, True):
            for comments in (False, True):
                if nparas == 1:
                    text = dumps[0]
                    if comments:
                        text = with_comments(text, rng)
                    if armor:
                        text = clearsign(text)
                else:
                    if armor:
                        continue            # a clearsigned document is a single paragraph
                    text = "\n".join(with_comments(dp, rng) if comments else dp for dp in dumps)
                for fname, mk in forms(text):
                    try:
                        if nparas == 1:
                            got = [list(Deb822(mk()).items())]
                            got_iter = [list(p.items()) for p in Deb822.iter_paragraphs(mk(), use_apt_pkg=False)]
                        else:
                            got = got_iter = [list(p.items()) for p in Deb822.iter_paragraphs(mk(), use_apt_pkg=False)]
                    except Exception as e:
                        bad = t.failed("re-parse raised %r" % (e,), paragraphs=paras, form=fname, armor=armor, comments=comments,
                                       text=text)
                        break
                    t.case(key=(text, fname))
                    if got != [list(map(tuple, p)) for p in paras] or got_iter != got:
                        bad = t.failed("re-parsed fields differ from the dumped paragraph(s)", paragraphs=paras, form=fname,
                                       armor=armor, comments=comments, text=text, got=got, got_iter_paragraphs=got_iter)
                        break
                if bad:
                    break
            if bad:
                break
        if bad:
            break
        if len(t.samples) < 3 and nparas == 2:
            t.samples.append({"paragraphs": paras})
    if not t.fail:
        large_instances(real, t)
    t.done()
    ctx.level = "other"
    ctx.explanation = ("PROVED for all lines (SMT on the real pattern objects): every dumped 'Key: first' line matches _single and its "
                       "groups are exactly the key and the first line; every dumped 'Key:' line matches _multi (not _single) with the key "
                       "as group; continuation lines never start a field and are kept by _multidata; an encoded field line is never "
                       "taken for a PGP armor line, a paragraph separator or an initial blank line; split_gpg_and_payload, from its real AST, returns exactly the lines (CR / LF stripped) as payload - nothing taken for armor, nothing cut off - for every sequence of lines none of which matches the armor pattern or the separator pattern in force (loop invariant over the line index; both parser settings). ALSO PROVED: the field-collecting loop of _internal_parser makes exactly the assignments of a recursive "
                       "specification over the payload lines (one per field, in line order; a pending field is flushed by the next field "
                       "line and at the end; continuation lines are appended verbatim; other lines are skipped), relative to opaque line "
                       "filtering / decoding. NOT proved: "
                       "_skip_useless_lines, the six input forms and iter_paragraphs - BOUNDED part (see module docstring).")
    ctx.assumptions += ["capture lemmas quantify over every way the pattern can match (all-paths semantics of the regex); re reports one "
                        "of them - the priority order of backtracking is not modelled and not needed",
                        "values contain no line-boundary characters other than '\\n' (same domain restriction as C08 states)",
                        "gpg signature verification is not exercised (armor is only stripped)"]


def large_instances(real, t):
    """sizes no small example reaches: paragraphs and documents beyond every read / write buffer (4 KiB, 8 KiB, 64 KiB), hundreds of
    fields, values of hundreds of lines, single lines of tens of kilobytes - same statement as for the small ones"""
    Deb822 = real.Deb822
    paras = {
        "400 short fields": [("F%03d" % i, "v%d" % i) for i in range(400)],
        "a 20 kB line after three short fields": [("A", "1"), ("B", "2"), ("C", "3"), ("Big", "x" * 20000), ("Z", "9")],
        "a 300-line value between short fields": [("A", "1"), ("Long", "first" + "".join("\n line %d %s" % (i, "y" * 40) for i in range(300))),
                                                   ("Z", "9")],
        "a 100 kB multi-line value": [("A", "1"), ("Huge", "h" + "".join("\n %s" % ("z" * 99) for i in range(1000))), ("Z", "9")],
        "1200 fields": [("K%04d" % i, "value %d" % i) for i in range(1200)],
    }
    for what, fields in paras.items():
        try:
            o = Deb822()
            for k, v in fields:
                o[k] = v
            text = o.dump()
            fdb = io.BytesIO()
            o.dump(fdb)
            fdt = io.StringIO()
            o.dump(fdt, text_mode=True)
            if fdb.getvalue().decode("utf-8") != text or fdt.getvalue() != text or str(o) != text:
                t.failed("large paragraph: dump(fd) / str() differ from dump()", paragraph=what, size=len(text),
                         binary_dump_size=len(fdb.getvalue()), text_dump_size=len(fdt.getvalue()))
                return
            t.case(key=("large", what))
            for fname, mk in forms(text):
                got = list(Deb822(mk()).items())
                got_iter = [list(q.items()) for q in Deb822.iter_paragraphs(mk(), use_apt_pkg=False)]
                if got != fields or got_iter != [fields]:
                    t.failed("large paragraph: re-parsed fields differ from the dumped paragraph", paragraph=what, size=len(text), form=fname,
                             fields_expected=len(fields), fields_got=len(got), paragraphs_from_iter_paragraphs=len(got_iter))
                    return
        except Exception as e:
            t.failed("large paragraph raised %r" % (e,), paragraph=what)
            return
    # a document of 900 paragraphs (about 100 kB), in every input form
    docs = [[("Package", "p%d" % i), ("Version", "1.%d-1" % i), ("Description", "short\n long line %d %s" % (i, "d" * 60))] for i in range(900)]
    try:
        text = "\n".join(_dump(Deb822, f) for f in docs)
        for fname, mk in forms(text):
            got = [list(q.items()) for q in Deb822.iter_paragraphs(mk(), use_apt_pkg=False)]
            t.case(key=("large document", fname))
            if got != docs:
                t.failed("large document: iter_paragraphs gives other paragraphs than were dumped", size=len(text), form=fname,
                         paragraphs_expected=len(docs), paragraphs_got=len(got))
                return
    except Exception as e:
        t.failed("large document raised %r" % (e,))


def _dump(cls, fields):
    o = cls()
    for k, v in fields:
        o[k] = v
    return o.dump()


def replay(ctx, data):
    return True
