"""C13  Package relationship fields: format and parse are inverse.

R-13 (proved, all formatted atoms): match and per-group capture lemmas on the real __dep_RE.
B-13 bounded stand-in (the printer contracts of DESIGN §5 C13 are not generated): generated relation structures (1-3 conjuncts x 1-3 alternatives; valid names;
optional architecture qualifier; optional version constraint with the five operators; optional
architecture list of 1-3 plain or negated names; optional restriction formula of 1-4 groups of 1-3
plain or negated lower-case profiles; all combinations of the optional parts) are formatted with
PkgRelation.str and parsed back: identical structure, no warning, identical second string.
"""
import itertools
import random
import warnings

from vf.bounded import Tally
from vf.pyvc import extract

MOD = "debian.deb822"
NAMES = ["gcc", "libfoo1", "a", "0ad", "g++", "lib-x.y+z", "python3.11",
         # package names that are also architecture names / profile names / texts of whole lists used elsewhere in the same process
         "i386", "amd64", "any", "linux-any", "nocheck", "stage1", "cross"]
QUALS = [None, "any", "native", "amd64", "a-b"]
OPS = ["<<", "<=", "=", ">=", ">>"]
VERS = ["1", "1.0-1", "2:1.0~rc1+b1", "0.1-2-3", "1a.b", "2.7.STABLE9-4", "1.0~RC1", "1.0+B.a-Z9", "0:1.2-3", "0:0", "00:1", "10:0"]
ARCHS = ["amd64", "i386", "linux-any", "any-arm", "hurd_x", "arm64", "armel", "armhf", "mips64el", "ppc64el", "riscv64", "s390x",
         "kfreebsd-any", "x32"]
PROFILES = ["stage1", "nocheck", "cross", "pkg.foo.bar", "a_b-c"]


def gen_atom(rng, PR, force=None):
    force = force or {}
    d = {"name": rng.choice(NAMES), "archqual": None, "version": None, "arch": None, "restrictions": None}
    if force.get("archqual", rng.random() < 0.3):
        d["archqual"] = rng.choice(QUALS[1:])
    if force.get("version", rng.random() < 0.5):
        d["version"] = (rng.choice(OPS), rng.choice(VERS))
    if force.get("arch", rng.random() < 0.4):
        mode = rng.choice(["plain", "negated", "mixed"])
        d["arch"] = [PR.ArchRestriction({"plain": True, "negated": False}.get(mode, rng.random() < 0.5), a)
                     for a in rng.sample(ARCHS, rng.choice([1, 2, 3, 3, 9, 10, 12, 14]))]
    if force.get("restrictions", rng.random() < 0.4):
        d["restrictions"] = [[PR.BuildRestriction(rng.random() < 0.5, p) for p in rng.sample(PROFILES, rng.randint(1, 3))]
                             for _ in range(rng.randint(1, 4))]
    return d


# ------------------------------------------------------------------------------------------------
# R-13: match and capture lemmas on the real __dep_RE for ALL formatted atoms (SMT via rx, marked translation)
import z3
from vf import rx
from vf.runner import Unsupported

RX = dict(name=r"[a-zA-Z0-9][a-zA-Z0-9.+\-]*", aq=r"[a-zA-Z0-9][a-zA-Z0-9\-]*", op=r"(<<|<=|=|>=|>>)", ver=r"[0-9a-zA-Z:\-+~.]+",
          colon=":", sp_lp=r" \(", sp=" ", rp=r"\)", sp_lb=r" \[", rb=r"\]")
_ARCH = r"!?[a-z0-9_\-]+"
RX["archs"] = _ARCH + "( " + _ARCH + ")*"
_TERM = r"!?[a-z0-9_.\-]+"
_GRP = "<" + _TERM + "( " + _TERM + ")*>"
RX["restr"] = _GRP + "( " + _GRP + ")*"
RX["atom"] = (RX["name"] + "(:" + RX["aq"] + ")?( \\(" + RX["op"] + " " + RX["ver"] + "\\))?( \\[" + RX["archs"] + "\\])?( "
              + RX["restr"] + ")?")
GROUPS = (("name", "name"), ("archqual", "aq"), ("relop", "op"), ("version", "ver"), ("archs", "archs"), ("restrictions", "restr"))


def regex_lemmas(ctx, PR):
    fq = MOD + ":PkgRelation.__dep_RE"
    dep = PR._PkgRelation__dep_RE
    ctx.function_under_contract(fq, repr(dep.pattern))
    missing = [a for a, _ in GROUPS if a not in dep.groupindex]
    if missing:
        # the lemmas speak about the six named groups; a pattern without one of them is a different design (e.g. a part split
        # off by another pattern first): nothing is concluded here, the bounded part decides
        ctx.mark_unproved(fq, "contract out of date: __dep_RE has no group %s" % ", ".join(missing))
        ctx.solve()
        return
    try:
        def build(marked):
            env = rx.Env()
            P = env.add(dep, name="__dep_RE")
            S = {n: env.add(t, 0, n) for n, t in RX.items()}
            env.finalize()
            W = lambda k: env.lang(S[k], "fullmatch")
            g = lambda n, k: z3.Concat(env.marker("<" + n), W(k), env.marker(n + ">")) if n == marked else W(k)
            return env, P, S, W, g
        env, P, S, W, g = build(None)
        n = rx.crosscheck(env, [P], "match", {"__dep_RE": [a for a, _ in GROUPS]})
        ctx.notes.append("rx translation of __dep_RE cross-checked against re on %d subjects" % n)

        def rep_match(m, env=env):
            s = env.realize(m.get("w", ""))
            return {"string": s, "confirmed": dep.match(s) is None}
        smt, var = env.claim_subset(W("atom"), env.lang(P, "match"))
        ctx.vc("R-13a every formatted atom matches __dep_RE (no 'cannot parse' fallback)", fq, smt, theory="str", model_vars=[var],
               kind="rx", replay=rep_match)
        smt, var = env.smt_empty(W("atom"))
        ctx.vc("probe: no formatted atom exists (must NOT be discharged)", fq, smt, theory="str", probe=True, kind="probe")
        for gname, key in GROUPS:
            env, P, S, W, g = build(gname)
            M = env.marked_lang(P, [gname])
            H = env.erased_inverse(S["atom"])
            E = z3.Concat(g("name", "name"), z3.Option(z3.Concat(W("colon"), g("archqual", "aq"))),
                          z3.Option(z3.Concat(W("sp_lp"), g("relop", "op"), W("sp"), g("version", "ver"), W("rp"))),
                          z3.Option(z3.Concat(W("sp_lb"), g("archs", "archs"), W("rb"))),
                          z3.Option(z3.Concat(W("sp"), g("restrictions", "restr"))))
            smt, var = env.claim_subset(z3.Intersect(M, H), E)

            def rep(m, env=env, gname=gname):
                w = m.get("w", "")
                s = env.realize(env.erase(w))
                got = dep.match(s)
                return {"string": s, "group": gname, "real_groups": got.groupdict() if got else None,
                        "marked_witness": env.realize(w), "confirmed": False}
            ctx.vc("R-13b on a formatted atom, group '%s' of __dep_RE is exactly the %s part that was written (absent when not written)"
                   % (gname, gname), fq, smt, theory="str", model_vars=[var], kind="rx", replay=rep)
    except Unsupported as e:
        ctx.mark_unproved(fq, "unsupported: %s" % e)
    ctx.solve()


def run(ctx):
    mod = extract.load(MOD)
    real = mod.real()
    PR = real.PkgRelation
    regex_lemmas(ctx, PR)
    for q in ("PkgRelation.parse_relations", "PkgRelation.str"):
        node, _ = mod.lookup(q)
        if node is not None:
            ctx.function_under_contract(MOD + ":" + q, mod.segment(node))
    rng = random.Random(ctx.seed)
    rounds = 6000 if ctx.tier == "quick" else 80000
    t = Tally(ctx, "B-13 parse_relations(PkgRelation.str(r)) == r, no warning, stable string",
              "seeded structures (see module docstring) including every combination of the four optional parts on a single "
              "atom; non-trivial = distinct formatted strings", "%d structures" % rounds)
    combos = list(itertools.product([False, True], repeat=4))
    for i in range(rounds):
        if i < len(combos) * 20:
            c = combos[i % len(combos)]
            force = dict(zip(("archqual", "version", "arch", "restrictions"), c))
            rels = [[gen_atom(rng, PR, force)]]
        else:
            rels = [[gen_atom(rng, PR) for _ in range(rng.randint(1, 3))] for _ in range(rng.randint(1, 3))]
        try:
            s = PR.str(rels)
            with warnings.catch_warnings(record=True) as w:
                warnings.simplefilter("always")
                back = PR.parse_relations(s)
            s2 = PR.str(back)
        except Exception as e:
            t.failed("format / parse raised %r" % (e,), structure=repr(rels))
            break
        t.case(key=s, sample={"string": s} if "<" in s and "[" in s else None)
        if w:
            t.failed("parse_relations emitted a warning on a formatted relationship", string=s, warning=str(w[0].message))
            break
        if back != rels:
            t.failed("parsed structure differs from the formatted one", string=s, parsed=repr(back), original=repr(rels))
            break
        if s2 != s:
            t.failed("formatting the parsed structure gives a different string", string=s, second=s2)
            break
        # the result of one parse belongs to the caller: editing it must not change what a later parse returns
        if i % 3 == 0:
            back[0][0]["name"] = "edited"
            back[0][0]["version"] = ("=", "0")
            if back[0][0]["arch"]:
                back[0][0]["arch"].append(PR.ArchRestriction(True, "edited"))
            try:
                again = PR.parse_relations(s)
            except Exception as e:
                t.failed("second parse raised %r" % (e,), string=s)
                break
            if again != rels:
                t.failed("a second parse of the same string is affected by edits to the first result", string=s,
                         parsed=repr(again), original=repr(rels))
                break
    if not t.fail:
        # sizes no small example reaches: 600 comma-separated relations of up to 6 alternatives each (about 40 kB of text)
        rng2 = random.Random(13)
        rels = [[gen_atom(rng2, PR) for _ in range(rng2.randint(1, 6))] for _ in range(600)]
        try:
            s = PR.str(rels)
            with warnings.catch_warnings(record=True) as w:
                warnings.simplefilter("always")
                back = PR.parse_relations(s)
            t.case(key="large: 600 relations")
            if w or back != rels or PR.str(back) != s:
                first = next((i for i, (x, y) in enumerate(zip(back, rels)) if x != y), min(len(back), len(rels)))
                t.failed("a field of 600 relations is not parsed back to the formatted structure", length=len(s), warnings=len(w),
                         relations_parsed=len(back), first_difference_at_relation=first)
        except Exception as e:
            t.failed("a field of 600 relations raised %r" % (e,))
    t.done()
    ctx.level = "other"
    ctx.explanation = ("PROVED for all formatted atoms (SMT on the real __dep_RE): the atom matches, and each named group captures exactly "
                       "the written part (one capture lemma per group, over every way the pattern can match). NOT proved: splitting at "
                       "',' / '|', parse_archs, parse_restrictions (__restriction_RE relies on the priority of the optional '!' group, "
                       "which the all-paths translation does not model), PkgRelation.str - BOUNDED part (see module docstring).")
    ctx.assumptions += ["build profiles are lower-case (parse_restrictions lower-cases the formula)"]


def replay(ctx, data):
    return True
