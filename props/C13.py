"""C13  Package relationship fields: format and parse are inverse.

B-13 bounded stand-in (the determinism analysis of __dep_RE and the printer contracts of DESIGN §5 C13
are not generated yet): generated relation structures (1-3 conjuncts x 1-3 alternatives; valid names;
optional architecture qualifier; optional version constraint with the five operators; optional
architecture list of 1-3 plain or negated names; optional restriction formula of 1-4 groups of 1-3
plain or negated lower-case profiles; all combinations of the optional parts) are formatted with
PkgRelation.str and parsed back: identical structure, no warning, identical second string.
"""
import itertools
import random
import warnings

from vf.bounded import Tally
from vf.pyvc import extract

MOD = "debian.deb822"
NAMES = ["gcc", "libfoo1", "a", "0ad", "g++", "lib-x.y+z", "python3.11"]
QUALS = [None, "any", "native", "amd64", "a-b"]
OPS = ["<<", "<=", "=", ">=", ">>"]
VERS = ["1", "1.0-1", "2:1.0~rc1+b1", "0.1-2-3", "1a.b"]
ARCHS = ["amd64", "i386", "linux-any", "any-arm", "hurd_x"]
PROFILES = ["stage1", "nocheck", "cross", "pkg.foo.bar", "a_b-c"]


def gen_atom(rng, PR, force=None):
    force = force or {}
    d = {"name": rng.choice(NAMES), "archqual": None, "version": None, "arch": None, "restrictions": None}
    if force.get("archqual", rng.random() < 0.3):
        d["archqual"] = rng.choice(QUALS[1:])
    if force.get("version", rng.random() < 0.5):
        d["version"] = (rng.choice(OPS), rng.choice(VERS))
    if force.get("arch", rng.random() < 0.4):
        neg = rng.random() < 0.5
        d["arch"] = [PR.ArchRestriction(not neg, a) for a in rng.sample(ARCHS, rng.randint(1, 3))]
    if force.get("restrictions", rng.random() < 0.4):
        d["restrictions"] = [[PR.BuildRestriction(rng.random() < 0.5, p) for p in rng.sample(PROFILES, rng.randint(1, 3))]
                             for _ in range(rng.randint(1, 4))]
    return d


def run(ctx):
    mod = extract.load(MOD)
    real = mod.real()
    PR = real.PkgRelation
    for q in ("PkgRelation.parse_relations", "PkgRelation.str"):
        node, _ = mod.lookup(q)
        if node is not None:
            ctx.function_under_contract(MOD + ":" + q, mod.segment(node))
    rng = random.Random(ctx.seed)
    rounds = 6000 if ctx.tier == "quick" else 80000
    t = Tally(ctx, "B-13 parse_relations(PkgRelation.str(r)) == r, no warning, stable string",
              "seeded structures (see module docstring) including every combination of the four optional parts on a single "
              "atom; non-trivial = distinct formatted strings", "%d structures" % rounds)
    combos = list(itertools.product([False, True], repeat=4))
    for i in range(rounds):
        if i < len(combos) * 20:
            c = combos[i % len(combos)]
            force = dict(zip(("archqual", "version", "arch", "restrictions"), c))
            rels = [[gen_atom(rng, PR, force)]]
        else:
            rels = [[gen_atom(rng, PR) for _ in range(rng.randint(1, 3))] for _ in range(rng.randint(1, 3))]
        try:
            s = PR.str(rels)
            with warnings.catch_warnings(record=True) as w:
                warnings.simplefilter("always")
                back = PR.parse_relations(s)
            s2 = PR.str(back)
        except Exception as e:
            t.failed("format / parse raised %r" % (e,), structure=repr(rels))
            break
        t.case(key=s, sample={"string": s} if "<" in s and "[" in s else None)
        if w:
            t.failed("parse_relations emitted a warning on a formatted relationship", string=s, warning=str(w[0].message))
            break
        if back != rels:
            t.failed("parsed structure differs from the formatted one", string=s, parsed=repr(back), original=repr(rels))
            break
        if s2 != s:
            t.failed("formatting the parsed structure gives a different string", string=s, second=s2)
            break
    t.done()
    ctx.level = "other"
    ctx.explanation = "BOUNDED ONLY in this revision (see module docstring)."
    ctx.assumptions += ["build profiles are lower-case (parse_restrictions lower-cases the formula)"]


def replay(ctx, data):
    return True
