"""C12  Structured multi-line fields round-trip as records and can always be dumped.

B-12 bounded stand-in (the get_as_string / _fixed_field_lengths contracts of DESIGN §5 C12 are not
generated yet): for every class with structured fields (Dsc, Changes, BuildInfo, Release in both
size_field_behaviors, PdiffIndex) x subsets of its structured fields x record lists of 1-3 records
over whitespace-free tokens: the dump must be exactly the documented text (size column right-aligned
to 16 / to the longest size present), and re-parsing must give the same records (documented
sub-field names, same order).  Dumping must never fail because other structured fields are absent.
"""
import itertools
import random

from vf.bounded import Tally
from vf.pyvc import extract

MOD = "debian.deb822"
from vf import tricky
TOK = ["aa", "b3f", "x-y_z", "é", "0", "main/a.deb", "12:30"] + tricky.WORDS
SIZES = ["1", "22", "00042", "977", "12k", "1234567890123456789"]


def expected_field_text(display, order, records, width, single):
    if single:
        r = records[0]
        return "%s: %s\n" % (display, "".join(" %s" % r[x] for x in order))
    out = "%s:\n" % display
    for r in records:
        cols = []
        for x in order:
            v = r[x]
            if x == "size" and width is not None:
                v = " " * (width - len(v)) + v
            cols.append(v)
        out += "".join(" %s" % c for c in cols) + "\n"
    return out


def run(ctx):
    mod = extract.load(MOD)
    real = mod.real()
    for q in ("_multivalued.__init__", "_multivalued.get_as_string", "PdiffIndex._fixed_field_lengths",
              "PdiffIndex._get_size_field_length", "Release._fixed_field_lengths", "Release._get_size_field_length"):
        node, _ = mod.lookup(q)
        if node is not None:
            ctx.function_under_contract(MOD + ":" + q, mod.segment(node))
    # every record is dumped as one continuation line: the reader must never take such a line for an armor line or a separator
    from props import C08 as _c08
    _c08.armor_lemmas(ctx, real, tag="R-12d")
    from props import C02 as _c02
    _c02.verify_split_gpg(ctx, real)
    _c02.verify_internal_parser(ctx, real)
    rng = random.Random(ctx.seed)
    configs = [("Dsc", real.Dsc, None), ("Changes", real.Changes, None), ("BuildInfo", real.BuildInfo, None),
               ("Release/apt-ftparchive", real.Release, "apt-ftparchive"), ("Release/dak", real.Release, "dak"),
               ("PdiffIndex", real.PdiffIndex, None)]
    t = Tally(ctx, "B-12 structured multi-line fields: exact dump text, alignment, record round trip, absent optional fields",
              "class x subset of its structured fields (all subsets for <= 4 fields, seeded subsets for PdiffIndex) x record lists "
              "of 1-3 records over whitespace-free tokens; sizes include leading zeros, a non-numeric token and a 19-digit number; "
              "non-trivial = distinct (class, present fields, records)", "%s" % ("quick" if ctx.tier == "quick" else "thorough"))
    reps = 6 if ctx.tier == "quick" else 60
    for cname, cls, behaviour in configs:
        mv = cls._multivalued_fields
        keys = list(mv)
        if len(keys) <= 4:
            subsets = [list(s) for n in range(1, len(keys) + 1) for s in itertools.combinations(keys, n)]
        else:
            subsets = [[k] for k in keys] + [rng.sample(keys, rng.randint(2, len(keys))) for _ in range(20)]
        for subset in subsets:
            for _ in range(reps):
                obj = cls()
                if behaviour:
                    obj.size_field_behavior = behaviour
                obj["Origin"] = "x"
                model = {}
                for k in subset:
                    order = mv[k]
                    single = cname == "PdiffIndex" and k.endswith("-current")
                    n = 1 if single else rng.randint(1, 3)
                    recs = []
                    for _r in range(n):
                        recs.append({x: (rng.choice(SIZES) if x == "size" else rng.choice(TOK)) for x in order})
                    if len(order) == 3 and not single and rng.random() < 0.15:
                        # whitespace-free tokens that together look like an OpenPGP armor line
                        recs[rng.randrange(len(recs))] = dict(zip(order, rng.choice([("-----BEGIN", "PGP", "X-----"),
                                                                                    ("-----END", "PGP", "SIGNATURE-----")])))
                    display = "-".join(p.capitalize() for p in k.split("-"))
                    obj[display] = recs[0] if single else recs
                    model[k] = (display, order, recs, single)
                if behaviour:
                    # another Release object configured the other way must not influence this one
                    other = cls()
                    other.size_field_behavior = "dak" if behaviour == "apt-ftparchive" else "apt-ftparchive"
                # second round on the same object: one record of a multi-record field swapped for one with a longer size
                # (same record count), the field re-assigned - what the first dump measured must not be reused
                for round_ in (0, 1):
                    if round_ == 1:
                        multi = [k for k in subset if not model[k][3]]
                        if not multi or "size" not in mv[multi[0]]:
                            break
                        k = rng.choice(multi)
                        display, order, recs, single = model[k]
                        longest = max(len(r["size"]) for kk in subset for r in model[kk][2] if "size" in r)
                        newrec = dict(rng.choice(recs), size="9" * (longest + rng.randint(1, 3)))
                        recs = list(recs)
                        recs[rng.randrange(len(recs))] = newrec
                        model[k] = (display, order, recs, single)
                        obj[display] = recs
                    if check_dump(t, cls, cname, behaviour, obj, subset, model, second=(round_ == 1)):
                        break
                if t.fail:
                    break
            if t.fail:
                break
        if t.fail:
            break
        t.samples.append({"class": cname, "fields": subsets[-1]})
    t.done()
    ctx.level = "other"
    ctx.explanation = ("PROVED for all lines (SMT on the real pattern objects): a record line, being a continuation line, is never taken "
                       "for a PGP armor line or a paragraph separator by the patterns of split_gpg_and_payload; split_gpg_and_payload, from its real AST, returns exactly the lines (CR / LF stripped) as payload - nothing taken for armor, nothing cut off - for every sequence of lines none of which matches the armor pattern or the separator pattern in force (loop invariant over the line index; both parser settings). Everything else - "
                       "record <-> line conversion, sub-field names, alignment, absent optional fields - BOUNDED (see module docstring).")
    ctx.assumptions += ["record lists are non-empty (an empty list formats to an empty value, which parses back as a single-line "
                        "empty mapping: outside 'any list of records')"]


def check_dump(t, cls, cname, behaviour, obj, subset, model, second=False):
    """dump obj and compare with the documented text and the records of `model`; True when a failure was recorded"""
    try:
        text = obj.dump()
    except Exception as e:
        t.failed("dump raised %r" % (e,), cls=cname, present=subset, records={k: v[2] for k, v in model.items()})
        return True
    exp = "Origin: x\n"
    for k in subset:
        display, order, recs, single = model[k]
        if cname.startswith("Release"):
            width = 16 if behaviour == "apt-ftparchive" else max(len(r["size"]) for r in recs)
        elif cname == "PdiffIndex":
            width = None if single else max(len(r["size"]) for r in recs)
        else:
            width = None
        exp += expected_field_text(display, order, recs, width, single)
    t.case(key=(cname, tuple(subset), text))
    if text != exp:
        t.failed("dump text differs from the documented layout (alignment / ordering / separators)", cls=cname,
                 present=subset, dump=text, expected=exp, second_dump_after_replacing_a_record=second)
        return True
    try:
        back = cls(text)
        if behaviour:
            back.size_field_behavior = behaviour
        again = back.dump()
    except Exception as e:
        t.failed("re-parse / second dump raised %r" % (e,), cls=cname, present=subset, dump=text)
        return True
    for k in subset:
        display, order, recs, single = model[k]
        got = back[display]
        got_recs = [dict(got)] if single else [dict(r) for r in got]
        names_ok = all(list(r.keys()) == order for r in ([got] if single else got))
        if got_recs != recs or not names_ok:
            t.failed("re-parsed records differ", cls=cname, field=display, got=got_recs, expected=recs, dump=text)
            return True
    if again != text:
        t.failed("dump of the re-parsed paragraph differs", cls=cname, present=subset, dump=text, second=again)
        return True
    return bool(t.fail)


def replay(ctx, data):
    return True
