"""C12  Structured multi-line fields round-trip as records and can always be dumped.

Deductive part (P-12a / P-12b below): _multivalued.get_as_string, Release / PdiffIndex._fixed_field_lengths and
_get_size_field_length from their real ASTs against a recursive specification of the field text and of the width table.

B-12 bounded stand-in for what is not under contract (the line -> record conversion of _multivalued.__init__, the class tables,
the composition with the Deb822 reader / writer): for every class with structured fields (Dsc, Changes, BuildInfo, Release in
both size_field_behaviors, PdiffIndex) x subsets of its structured fields x record lists of 1-3 records over whitespace-free
tokens: the dump must be exactly the documented text (size column right-aligned to 16 / to the longest size present), and
re-parsing must give the same records (documented sub-field names, same order).  Dumping must never fail because other
structured fields are absent.
"""
import itertools
import random

from vf.bounded import Tally
from vf.pyvc import extract

MOD = "debian.deb822"
from vf import tricky
TOK = ["aa", "b3f", "x-y_z", "é", "0", "main/a.deb", "12:30"] + tricky.WORDS
SIZES = ["1", "22", "00042", "977", "12k", "1234567890123456789"]


# ------------------------------------------------------------------------------------------------
# P-12a  _multivalued.get_as_string from its real AST: stored value -> field text.  For a structured field the text is
#   [newline, unless the value is a single record] + for every record, in order: for every sub-field of the class's table, in
#   table order: " " + the component (left-padded with blanks to the width _fixed_field_lengths gives for that sub-field, if it
#   gives one); newline after every record - with trailing newlines stripped; ValueError iff a component contains a newline.
# P-12b  Release / PdiffIndex._get_size_field_length and _fixed_field_lengths from their real ASTs: the width table has an entry
#   exactly for the structured fields that are present (PdiffIndex: and are not single records), each entry is {"size": w} with
#   w == 16 (Release, apt-ftparchive) or the maximum of the lengths of the size components of the field's records.
# A stored value is an object the code only reads: hasattr(v, 'keys') tells a single record (is_record) from a list of records
# (items_of); item[x] of a record is cell(item, x).  Components are str (str(item[x]) is item[x]).
from vf.pyvc.speclib import SpecLib, Unsupported
from vf.pyvc.world import World, Contract
from vf.pyvc.interp import LoopSpec
from vf.pyvc.values import VObj, VBox, VSeq, VBool, VInt, VRef, VFunc, NONE, fresh, fresh_name, lift
from vf.pyvc.driver import verify_contracts

VAL = ("ref", "Val")
TABLE = ("dict", "str", ("list", "str"))
ROW = ("dict", "str", "int")
LENGTHS = ("dict", "str", ROW)


def cell(item, x):
    return ""        # opaque: str(item[x]), the component x of a record


def is_record(v):
    return False     # opaque: hasattr(v, 'keys') - the stored value is one record, not a list of records


def items_of(v):
    return []        # opaque: the records of a stored list of records, in order


def stored(self_, key):
    return None      # opaque: the value stored under key (self[key])


def has_field(self_, key):
    return False     # opaque: key in self


def size_len(beh, keyl):
    # the width of the size column of field keyl: 16 for a Release file in apt-ftparchive style, else the longest size present
    if beh == "apt-ftparchive":
        return 16
    return max(widths(items_of(stored(0, keyl))))


def comp_plain(item, x, keyl, beh):
    return cell(item, x)


def comp_sized(item, x, keyl, beh):
    # the classes with a width table: it has an entry for keyl unless the value is a single record of a pdiff index (single_exempt)
    if x == "size" and not (single_exempt(0) and is_record(stored(0, keyl))):
        return (size_len(beh, keyl) - len(cell(item, x))) * " " + cell(item, x)
    return cell(item, x)


def rec_line(item, order, keyl, beh):
    if len(order) == 0:
        return ""
    return " " + comp(item, order[0], keyl, beh) + rec_line(item, order[1:], keyl, beh)


def rec_lines(items, order, keyl, beh):
    if len(items) == 0:
        return ""
    return rec_line(items[0], order, keyl, beh) + "\n" + rec_lines(items[1:], order, keyl, beh)


def line_has_nl(item, order, keyl, beh):
    if len(order) == 0:
        return False
    return ("\n" in comp(item, order[0], keyl, beh)) or line_has_nl(item, order[1:], keyl, beh)


def any_has_nl(items, order, keyl, beh):
    if len(items) == 0:
        return False
    return line_has_nl(items[0], order, keyl, beh) or any_has_nl(items[1:], order, keyl, beh)


def records(v):
    if is_record(v):
        return [v]
    return items_of(v)


def mv_text(v, order, keyl, beh):
    if is_record(v):
        return rec_lines([v], order, keyl, beh)
    return "\n" + rec_lines(items_of(v), order, keyl, beh)


def width_of(item):
    return len(cell(item, "size"))


def widths(items):
    if len(items) == 0:
        return []
    return [width_of(items[0])] + widths(items[1:])


class StoredAbs(Contract):
    """self[key]: the stored value"""
    target = MOD + ":Deb822Dict.__getitem__"
    modular = True
    returns = VAL
    ensures = ("result == stored(0, key)",)


class ContainsAbs(Contract):
    target = MOD + ":Deb822Dict.__contains__"
    modular = True
    returns = "bool"
    ensures = ("result == has_field(0, key)",)


class SizeLenRelease(Contract):
    target = MOD + ":Release._get_size_field_length"
    modular = True
    returns = "int"
    ensures = ("self.size_field_behavior == 'apt-ftparchive' or self.size_field_behavior == 'dak'",
               "result == size_len(self.size_field_behavior, key)")
    raises = {"ValueError": ("self.size_field_behavior == 'dak' and len(items_of(stored(0, key))) == 0 or "
                             "(self.size_field_behavior != 'apt-ftparchive' and self.size_field_behavior != 'dak')",)}
    raises_modifies = {"ValueError": ()}
    comprehensions = {0: ("widths", "width_of")}

    def setup(self, ex):
        me = VObj("Release", {"_Release__size_field_behavior": fresh("str", "behaviour")}, "self")
        return {"self": me, "key": fresh("str", "key")}


class SizeLenPdiff(Contract):
    target = MOD + ":PdiffIndex._get_size_field_length"
    modular = True
    returns = "int"
    ensures = ("result == size_len('', key)",)
    raises = {"ValueError": ("len(items_of(stored(0, key))) == 0",)}
    raises_modifies = {"ValueError": ()}
    comprehensions = {0: ("widths", "width_of")}

    def setup(self, ex):
        return {"self": VObj("PdiffIndex", {}, "self"), "key": fresh("str", "key")}


class FixedLengths(Contract):
    """pointwise in the ghost key keyl (an arbitrary key, so: for every key): the table has an entry for keyl exactly when keyl is
    a structured field of the class and present (PdiffIndex: and not a single record); the entry is {"size": width of the field}"""
    modular = True
    ghosts = ("keyl",)
    returns = LENGTHS
    locals_order = ['self', 'fixed_field_lengths', 'key', 'length']
    raises = {"ValueError": ()}        # an empty record list / an illegal size_field_behavior: outside the property's domain
    raises_modifies = {"ValueError": ()}

    def __init__(self, cls):
        self.cls = cls
        self.target = MOD + ":%s._fixed_field_lengths" % cls
        present = "keyl in self._multivalued_fields and has_field(0, keyl)"
        if cls == "PdiffIndex":
            present += " and not is_record(stored(0, keyl))"
        beh = "self.size_field_behavior" if cls == "Release" else "''"
        self.ensures = ("(keyl in result) == (%s)" % present,
                        "implies(keyl in result, result[keyl] == {'size': size_len(%s, keyl)})" % beh)
        seen = present.replace("keyl in self._multivalued_fields", "keyl in self._multivalued_fields and __pos0(keyl) < ki")
        self.loops = {0: LoopSpec(invariants=("0 <= ki and ki <= len(__seq0)",
                                              "(keyl in fixed_field_lengths) == (%s)" % seen,
                                              "implies(keyl in fixed_field_lengths, fixed_field_lengths[keyl] == {'size': size_len(%s, keyl)})" % beh),
                                  index="ki", var_types={"key": "str", "length": "int", "fixed_field_lengths": LENGTHS})}

    def setup(self, ex):
        fields = {"_multivalued_fields": fresh(TABLE, "table")}
        if self.cls == "Release":
            fields["_Release__size_field_behavior"] = fresh("str", "behaviour")
        return {"self": VObj(self.cls, fields, "self"), "keyl": fresh("str", "keyl")}


class MVGetAsString(Contract):
    locals_order = ['self', 'key', 'keyl', 'fd', 'array', 'order', 'field_lengths', 'item', 'x', 'raw_value', 'length', 'value']
    modular = False
    cover_loop_paths = True
    target = MOD + ":_multivalued.get_as_string"
    requires = ("key.lower() in self._multivalued_fields",
                # the paragraph is a case-insensitive mapping (C09) and the field is present
                "stored(0, key) == stored(0, key.lower())", "has_field(0, key.lower())")

    def __init__(self, cls):
        self.cls = cls
        B = "self.size_field_behavior" if cls == "Release" else "''"
        self.raises = {"ValueError": ("any_has_nl(records(stored(0, key)), self._multivalued_fields[key.lower()], key.lower(), %s)" % B,)}
        self.ensures = ("not any_has_nl(records(stored(0, key)), self._multivalued_fields[key.lower()], key.lower(), %s)" % B,
                        "result == mv_text(stored(0, key), self._multivalued_fields[key.lower()], key.lower(), %s).rstrip('\\n')" % B)
        self.loops = {
            0: LoopSpec(invariants=("0 <= ai and ai <= len(__seq0)", "__seq0 == records(stored(0, key))",
                                    "any_has_nl(__seq0[ai:], order, keyl, %s) == any_has_nl(__seq0, order, keyl, %s)" % (B, B),
                                    "fd.buffer + rec_lines(__seq0[ai:], order, keyl, %s) == mv_text(stored(0, key), order, keyl, %s)" % (B, B)),
                        index="ai", modifies=("fd.buffer",),
                        var_types={"item": VAL, "x": "str", "raw_value": "str", "length": "int", "value": "str"}),
            1: LoopSpec(invariants=("0 <= xi and xi <= len(order)",
                                    "line_has_nl(item, order[xi:], keyl, %s) == line_has_nl(item, order, keyl, %s)" % (B, B),
                                    "fd.buffer + rec_line(item, order[xi:], keyl, %s) == old_buffer + rec_line(item, order, keyl, %s)" % (B, B)),
                        index="xi", modifies=("fd.buffer",), entry={"old_buffer": "fd.buffer"},
                        exit=("fd.buffer == old_buffer + rec_line(item, order, keyl, %s)" % B,),
                        var_types={"x": "str", "raw_value": "str", "length": "int", "value": "str"}),
        }
        if cls != "Dsc":
            # the width table may fail (empty record list, illegal size_field_behavior): when ValueError is raised is then not
            # pinned down; the normal exit still is
            self.raises = {"ValueError": ()}

    def setup(self, ex):
        fields = {"_multivalued_fields": fresh(TABLE, "table")}
        if self.cls == "Release":
            fields["_Release__size_field_behavior"] = fresh("str", "behaviour")
        return {"self": VObj(self.cls, fields, "self"), "key": fresh("str", "key")}


def build_world_mv(cls):
    sl = SpecLib()
    w = World(sl)
    w.heap_classes = {"Val": {}}
    w.abstract_items = {"Val": "cell"}                     # item[x] on a record is cell(item, x)
    w.abstract_iter = {"Val": "items_of"}                  # iterating a stored list of records
    w.abstract_hasattr = {("Val", "keys"): "is_record"}    # hasattr(v, 'keys')
    w.spec_func(cell, rec=dict(args=[VAL, "str"], ret="str", opaque=True))
    w.spec_func(is_record, rec=dict(args=[VAL], ret="bool", opaque=True))
    w.spec_func(items_of, rec=dict(args=[VAL], ret=("list", VAL), opaque=True))
    w.spec_func(stored, rec=dict(args=["int", "str"], ret=VAL, opaque=True))
    w.spec_func(has_field, rec=dict(args=["int", "str"], ret="bool", opaque=True))
    w.spec_func(size_len)
    w.spec_func(comp_plain if cls == "Dsc" else comp_sized, name="comp")
    w.spec_env["single_exempt"] = VFunc("builtin", "single_exempt", fn=lambda ex, a, kw: VBool(cls == "PdiffIndex"))
    w.spec_func(rec_line, rec=dict(args=[VAL, "list:str", "str", "str"], ret="str"))
    w.spec_func(rec_lines, rec=dict(args=[("list", VAL), "list:str", "str", "str"], ret="str"))
    w.spec_func(line_has_nl, rec=dict(args=[VAL, "list:str", "str", "str"], ret="bool"))
    w.spec_func(any_has_nl, rec=dict(args=[("list", VAL), "list:str", "str", "str"], ret="bool"))
    w.spec_func(records)
    w.spec_func(mv_text)
    w.spec_func(width_of)
    w.spec_func(widths, rec=dict(args=[("list", VAL)], ret=("list", "int")))
    w.add_contract(StoredAbs())
    w.add_contract(ContainsAbs())
    return w


def run_deductive(ctx):
    for cls in ("Dsc", "Release", "PdiffIndex"):
        w = build_world_mv(cls)
        cs = [MVGetAsString(cls)]
        if cls != "Dsc":
            size_len_c = SizeLenRelease() if cls == "Release" else SizeLenPdiff()
            fixed = FixedLengths(cls)
            w.add_contract(size_len_c)
            w.add_contract(fixed)
            cs = [size_len_c, fixed] + cs
        verify_contracts(ctx, w, cs, {})
    ctx.solve()


def expected_field_text(display, order, records, width, single):
    if single:
        r = records[0]
        return "%s: %s\n" % (display, "".join(" %s" % r[x] for x in order))
    out = "%s:\n" % display
    for r in records:
        cols = []
        for x in order:
            v = r[x]
            if x == "size" and width is not None:
                v = " " * (width - len(v)) + v
            cols.append(v)
        out += "".join(" %s" % c for c in cols) + "\n"
    return out


def run(ctx):
    mod = extract.load(MOD)
    real = mod.real()
    for q in ("_multivalued.__init__", "_multivalued.get_as_string", "PdiffIndex._fixed_field_lengths",
              "PdiffIndex._get_size_field_length", "Release._fixed_field_lengths", "Release._get_size_field_length"):
        node, _ = mod.lookup(q)
        if node is not None:
            ctx.function_under_contract(MOD + ":" + q, mod.segment(node))
    # every record is dumped as one continuation line: the reader must never take such a line for an armor line or a separator
    from props import C08 as _c08
    _c08.armor_lemmas(ctx, real, tag="R-12d")
    from props import C02 as _c02
    _c02.verify_split_gpg(ctx, real)
    _c02.verify_internal_parser(ctx, real)
    run_deductive(ctx)
    rng = random.Random(ctx.seed)
    configs = [("Dsc", real.Dsc, None), ("Changes", real.Changes, None), ("BuildInfo", real.BuildInfo, None),
               ("Release/apt-ftparchive", real.Release, "apt-ftparchive"), ("Release/dak", real.Release, "dak"),
               ("PdiffIndex", real.PdiffIndex, None)]
    t = Tally(ctx, "B-12 structured multi-line fields: exact dump text, alignment, record round trip, absent optional fields",
              "class x subset of its structured fields (all subsets for <= 4 fields, seeded subsets for PdiffIndex) x record lists "
              "of 1-3 records over whitespace-free tokens; sizes include leading zeros, a non-numeric token and a 19-digit number; "
              "non-trivial = distinct (class, present fields, records)", "%s" % ("quick" if ctx.tier == "quick" else "thorough"))
    reps = 10 if ctx.tier == "quick" else 60
    for cname, cls, behaviour in configs:
        mv = cls._multivalued_fields
        keys = list(mv)
        if len(keys) <= 4:
            subsets = [list(s) for n in range(1, len(keys) + 1) for s in itertools.combinations(keys, n)]
        else:
            subsets = [[k] for k in keys] + [rng.sample(keys, rng.randint(2, len(keys))) for _ in range(20)]
        for subset in subsets:
            for _ in range(reps):
                obj = cls()
                if behaviour:
                    obj.size_field_behavior = behaviour
                obj["Origin"] = "x"
                model = {}
                for k in subset:
                    order = mv[k]
                    single = cname == "PdiffIndex" and k.endswith("-current")
                    n = 1 if single else rng.randint(1, 3)
                    recs = []
                    for _r in range(n):
                        recs.append({x: (rng.choice(SIZES) if x == "size" else rng.choice(TOK)) for x in order})
                    if len(order) == 3 and not single and rng.random() < 0.15:
                        # whitespace-free tokens that together look like an OpenPGP armor line
                        recs[rng.randrange(len(recs))] = dict(zip(order, rng.choice([("-----BEGIN", "PGP", "X-----"),
                                                                                    ("-----END", "PGP", "SIGNATURE-----")])))
                    display = "-".join(p.capitalize() for p in k.split("-"))
                    obj[display] = recs[0] if single else recs
                    model[k] = (display, order, recs, single)
                if behaviour:
                    # another Release object configured the other way must not influence this one
                    other = cls()
                    other.size_field_behavior = "dak" if behaviour == "apt-ftparchive" else "apt-ftparchive"
                # second round on the same object: one record of a multi-record field swapped for one with a longer size
                # (same record count), the field re-assigned - what the first dump measured must not be reused
                for round_ in (0, 1):
                    if round_ == 1:
                        multi = [k for k in subset if not model[k][3]]
                        if not multi or "size" not in mv[multi[0]]:
                            break
                        k = rng.choice(multi)
                        display, order, recs, single = model[k]
                        longest = max(len(r["size"]) for kk in subset for r in model[kk][2] if "size" in r)
                        newrec = dict(rng.choice(recs), size="9" * (longest + rng.randint(1, 3)))
                        recs = list(recs)
                        recs[rng.randrange(len(recs))] = newrec
                        model[k] = (display, order, recs, single)
                        obj[display] = recs
                    if check_dump(t, cls, cname, behaviour, obj, subset, model, second=(round_ == 1)):
                        break
                if t.fail:
                    break
            if t.fail:
                break
        if t.fail:
            break
        t.samples.append({"class": cname, "fields": subsets[-1]})
    if not t.fail:
        large_records(real, t)
    t.done()
    ctx.level = "other"
    ctx.explanation = ("PROVED from the real ASTs, for all record lists, all class tables and all keys: _multivalued.get_as_string returns - "
                       "with trailing newlines stripped - a leading newline unless the value is a single record, then per record, in "
                       "order, ' ' + component for every sub-field in table order and a newline, each size component left-padded "
                       "with blanks to the width the class's table gives (none for Dsc / Changes / BuildInfo), and raises ValueError "
                       "when a component contains a newline (nested loop invariants over a recursive specification; every path "
                       "through the loop bodies has a satisfiability probe). Release / PdiffIndex._fixed_field_lengths have an "
                       "entry {'size': w} exactly for the structured fields that are present (PdiffIndex: and hold a list of "
                       "records), and _get_size_field_length gives w == 16 for an apt-ftparchive style Release file and otherwise "
                       "the maximum of the lengths of the size components (ValueError only for an empty record list or an illegal "
                       "size_field_behavior). ALSO PROVED (SMT on the real pattern objects): a record line, being a continuation "
                       "line, is never taken for a PGP armor line or a paragraph separator; split_gpg_and_payload returns exactly "
                       "the lines as payload for input without armor lines; the field-collecting loop of _internal_parser. "
                       "BOUNDED: the line -> record conversion of _multivalued.__init__, sub-field names, the composition "
                       "dump -> parse, absent optional fields, isolation between objects (see module docstring).")
    ctx.assumptions += ["components of a record are str (str(item[x]) is item[x]) and every record has all sub-fields of its table",
                        "the paragraph is a case-insensitive mapping: self[key] and self[key.lower()] are the same stored value (C09)",
                        "max() of a list and n * ' ' are uninterpreted functions with the stated facts (element of the list; length "
                        "max(n, 0), no line terminator)"]
    ctx.assumptions += ["record lists are non-empty (an empty list formats to an empty value, which parses back as a single-line "
                        "empty mapping: outside 'any list of records')"]


def check_dump(t, cls, cname, behaviour, obj, subset, model, second=False):
    """dump obj and compare with the documented text and the records of `model`; True when a failure was recorded"""
    try:
        text = obj.dump()
    except Exception as e:
        t.failed("dump raised %r" % (e,), cls=cname, present=subset, records={k: v[2] for k, v in model.items()})
        return True
    exp = "Origin: x\n"
    for k in subset:
        display, order, recs, single = model[k]
        if cname.startswith("Release"):
            width = 16 if behaviour == "apt-ftparchive" else max(len(r["size"]) for r in recs)
        elif cname == "PdiffIndex":
            width = None if single else max(len(r["size"]) for r in recs)
        else:
            width = None
        exp += expected_field_text(display, order, recs, width, single)
    t.case(key=(cname, tuple(subset), text))
    if text != exp:
        t.failed("dump text differs from the documented layout (alignment / ordering / separators)", cls=cname,
                 present=subset, dump=text, expected=exp, second_dump_after_replacing_a_record=second)
        return True
    try:
        back = cls(text)
        if behaviour:
            back.size_field_behavior = behaviour
        again = back.dump()
        # the other ways of handing the text in: by keyword, as bytes, as lines, as a file object
        import io as _io
        for how, mk in (("sequence= keyword", lambda: cls(sequence=text)), ("bytes", lambda: cls(text.encode("utf-8"))),
                        ("list of lines", lambda: cls(text.splitlines(True))), ("text file object", lambda: cls(_io.StringIO(text))),
                        ("iter_paragraphs", lambda: next(iter(cls.iter_paragraphs(text, use_apt_pkg=False))))):
            other = mk()
            if behaviour:
                other.size_field_behavior = behaviour
            if other.dump() != again:
                t.failed("the parsed paragraph depends on how the text is handed in", cls=cname, present=subset, dump=text, given_as=how,
                         second=other.dump())
                return True
    except Exception as e:
        t.failed("re-parse / second dump raised %r" % (e,), cls=cname, present=subset, dump=text)
        return True
    for k in subset:
        display, order, recs, single = model[k]
        got = back[display]
        got_recs = [dict(got)] if single else [dict(r) for r in got]
        names_ok = all(list(r.keys()) == order for r in ([got] if single else got))
        if got_recs != recs or not names_ok:
            t.failed("re-parsed records differ", cls=cname, field=display, got=got_recs, expected=recs, dump=text)
            return True
    if again != text:
        t.failed("dump of the re-parsed paragraph differs", cls=cname, present=subset, dump=text, second=again)
        return True
    return bool(t.fail)


def large_records(real, t):
    """sizes no small example reaches: hundreds of records per field (dumps beyond 64 KiB), size tokens longer than any fixed
    column - same statement as for the small ones"""
    import io
    rng = random.Random(12)
    for cname, cls, behaviour in (("Dsc", real.Dsc, None), ("Release/apt-ftparchive", real.Release, "apt-ftparchive"),
                                  ("Release/dak", real.Release, "dak"), ("PdiffIndex", real.PdiffIndex, None)):
        mv = cls._multivalued_fields
        subset = list(mv)[:3]
        obj = cls()
        if behaviour:
            obj.size_field_behavior = behaviour
        obj["Origin"] = "x"
        model = {}
        for n_k, k in enumerate(subset):
            order = mv[k]
            single = cname == "PdiffIndex" and k.endswith("-current")
            n = 1 if single else 400
            recs = []
            for i in range(n):
                # sizes of 1 to 31 digits: longer than the 16 columns of a Release file, and very different within one field
                size = str(rng.randrange(10 ** rng.choice([0, 3, 9, 15, 16, 17, 24, 30])))
                recs.append({x: (size if x == "size" else "%s%04d-%s" % (x[:3], i, "f" * 40)) for x in order})
            display = "-".join(p.capitalize() for p in k.split("-"))
            obj[display] = recs[0] if single else recs
            model[k] = (display, order, recs, single)
        t.case(key=("large records", cname))
        if check_dump(t, cls, cname, behaviour, obj, subset, model):
            return
        try:
            text = obj.dump()
            fdb = io.BytesIO()
            obj.dump(fdb)
            if fdb.getvalue().decode("utf-8") != text:
                t.failed("large structured fields: dump(fd) differs from dump()", cls=cname, size=len(text), binary_dump_size=len(fdb.getvalue()))
                return
        except Exception as e:
            t.failed("large structured fields: dump(fd) raised %r" % (e,), cls=cname)
            return


def replay(ctx, data):
    return True
