"""C20  The debtags database keeps its two indexes mutually inverse.

B-20 (bounded stand-in; the deductive obligations of DESIGN §5 C20 are not generated yet):
  (A) every history is run on the real DB objects and on a reference model that follows the
      docstrings literally (which derivations share set objects, which copy) and reproduces the ONE
      recorded deviation of DB.insert (first insert under a new tag stores set(pkg), the characters);
      after every step the db / rdb contents of every live collection must equal the model's.
      Any difference is a violation that is not covered by a known finding.
  (B) whenever the model's own two indexes are mutually inverse, the query methods of the real
      object must agree with the reference relation.
  (C) the recorded findings are re-demonstrated by their specific histories; each is matched by key
      in KNOWN_FINDINGS (KNOWN-FINDING line, exit 0) - if one stops failing it is simply not printed.
"""
import io
import random
import re

from vf.bounded import Tally
from vf.pyvc import extract

MOD = "debian.debtags"


class MDB:
    """reference model with explicit sharing (set objects have identity)"""

    def __init__(self):
        self.db = {}
        self.rdb = {}

    @staticmethod
    def _rev(db):
        res = {}
        for pkg, tags in db.items():
            for t in tags:
                res.setdefault(t, set()).add(pkg)
        return res

    def insert(self, pkg, tags, chars_deviation=True):
        self.db[pkg] = set(tags)
        for t in tags:
            if t in self.rdb:
                self.rdb[t].add(pkg)
            else:
                self.rdb[t] = set(pkg) if chars_deviation else {pkg}

    def read(self, lines, tag_filter=None):
        db, rdb = {}, {}
        for line in lines:
            m = re.match(r"^(.+?)(?::?\s*|:\s+(.+?)\s*)$", line)
            if not m:
                continue
            pkgs = set(m.group(1).split(", "))
            tags = set(m.group(2).split(", ")) if m.group(2) else set()
            if tag_filter is not None:
                tags = set(filter(tag_filter, tags))
            for p in pkgs:
                db[p] = set(tags)
            for t in tags:
                if t in rdb:
                    rdb[t] |= pkgs
                else:
                    rdb[t] = set(pkgs)
        self.db, self.rdb = db, rdb

    def reverse(self):
        r = MDB()
        r.db, r.rdb = self.rdb, self.db
        return r

    def copy(self):
        r = MDB()
        r.db = {k: set(v) for k, v in self.db.items()}
        r.rdb = {k: set(v) for k, v in self.rdb.items()}
        return r

    def reverse_copy(self):
        r = MDB()
        r.db = {k: set(v) for k, v in self.rdb.items()}
        r.rdb = {k: set(v) for k, v in self.db.items()}
        return r

    def _sel(self, keys, copy, src=None):
        src = self.db if src is None else src
        return {k: (set(src[k]) if copy else src[k]) for k in keys}

    def choose_packages(self, pkgs, copy=False):
        r = MDB()
        r.db = self._sel([p for p in pkgs if p in self.db], copy)
        r.rdb = self._rev(r.db)
        return r

    def filter_packages(self, f, copy=False):
        r = MDB()
        r.db = self._sel([p for p in self.db if f(p)], copy)
        r.rdb = self._rev(r.db)
        return r

    def filter_packages_tags(self, f, copy=False):
        r = MDB()
        r.db = self._sel([p for p, ts in self.db.items() if f((p, ts))], copy)
        r.rdb = self._rev(r.db)
        return r

    def filter_tags(self, f, copy=False):
        r = MDB()
        r.rdb = self._sel([t for t in self.rdb if f(t)], copy, self.rdb)
        r.db = self._rev(r.rdb)
        return r

    def facet_collection(self):
        r = MDB()
        for pkg, tags in self.db.items():
            r.insert(pkg, {re.sub(r"^([^:]+).+", r"\1", t) for t in tags})
        return r

    def inverse_ok(self):
        a = {(p, t) for p, ts in self.db.items() for t in ts}
        b = {(p, t) for t, ps in self.rdb.items() for p in ps}
        return a == b


def state(d):
    return ({k: set(v) for k, v in d.db.items()}, {k: set(v) for k, v in d.rdb.items()})


PKGS = ["p", "q", "r", "pk", "Pk", "p:x"]       # also two names equal up to case, and one with an architecture-like qualifier
TAGS = ["t", "u", "f::x", "f::y"]


def _camel(name):
    parts = name.split("_")
    return parts[0] + "".join(x.capitalize() for x in parts[1:])


def _call(rng, obj, name, *args):
    """obj.<name>(*args), half of the time through the deprecated camelCase alias (the same function under another name)"""
    alias = _camel(name)
    if alias != name and hasattr(obj, alias) and rng.random() < 0.5:
        import warnings
        with warnings.catch_warnings():
            warnings.simplefilter("ignore")
            return getattr(obj, alias)(*args)
    return getattr(obj, name)(*args)


def run_history(real, rng, n_ops, t):
    DB = real.DB
    colls = [(DB(), MDB())]
    ops = []
    for step in range(n_ops):
        i = rng.randrange(len(colls))
        d, m = colls[i]
        op = rng.choice(["insert", "insert", "insert", "read", "reverse", "copy", "reverse_copy", "choose_packages",
                         "choose_packages_copy", "filter_packages", "filter_packages_copy", "filter_packages_tags",
                         "filter_packages_tags_copy", "filter_tags", "filter_tags_copy", "facet_collection"])
        try:
            if op == "insert":
                # a reversed view has tags as its "packages" and packages as its "tags": insert in its own universe
                rev = any(k in PKGS for k in m.rdb) or any(k in TAGS for k in m.db)
                names, tagpool = (TAGS + ["zz"], PKGS) if rev else (PKGS, TAGS)
                cands = [p for p in names if p not in m.db]         # distinct package names (domain of the property)
                if not cands:
                    continue
                pkg = rng.choice(cands)
                tags = set(rng.sample(tagpool, rng.randint(0, 3)))
                if rev and m.rdb and rng.random() < 0.5:
                    tags = {rng.choice(sorted(m.rdb))}      # exactly one of the names the view already knows
                ops.append([i, "insert", pkg, sorted(tags)])
                d.insert(pkg, set(tags))
                m.insert(pkg, tags)
            elif op == "read":
                if m.db or m.rdb:
                    continue
                names = rng.sample(PKGS, rng.randint(1, 4))
                lines = []
                while names:
                    grp = names[:rng.choice([1, 1, 2, 3])]
                    names = names[len(grp):]
                    nm = ", ".join(grp)                           # several packages on one line share the line's tags
                    ts = rng.sample(TAGS, rng.randint(0, 3))
                    lines.append("%s: %s\n" % (nm, ", ".join(ts)) if ts else "%s\n" % nm)
                use_filter = rng.random() < 0.4
                flt = (lambda tg: tg != "u") if use_filter else None
                ops.append([i, "read", lines, "tag_filter: t != 'u'" if use_filter else None])
                d.read(iter(lines), flt)
                m.read(lines, flt)
            else:
                if op in ("reverse", "copy", "reverse_copy", "facet_collection"):
                    nd, nm_ = _call(rng, d, op), getattr(m, op)()
                    ops.append([i, op])
                elif op.startswith("choose_packages"):
                    sel = rng.sample(PKGS + ["nope", "t"], 2)     # also names the collection does not contain (they are ignored)
                    cp = op.endswith("_copy")
                    if cp:
                        sel = [p for p in sel if p in m.db]       # the copying variant raises KeyError for unknown names
                    nd, nm_ = _call(rng, d, op, list(sel)), m.choose_packages(sel, copy=cp)
                    ops.append([i, op, sel])
                elif op.startswith("filter_packages_tags"):
                    keep = rng.choice(["all", "has-t"])
                    f = (lambda pt: True) if keep == "all" else (lambda pt: "t" in pt[1])
                    nd, nm_ = _call(rng, d, op, f), m.filter_packages_tags(f, copy=op.endswith("_copy"))
                    ops.append([i, op, keep])
                elif op.startswith("filter_packages"):
                    keep = rng.choice(["all", "not-q"])
                    f = (lambda p: True) if keep == "all" else (lambda p: p != "q")
                    nd, nm_ = _call(rng, d, op, f), m.filter_packages(f, copy=op.endswith("_copy"))
                    ops.append([i, op, keep])
                else:
                    keep = rng.choice(["all", "not-u"])
                    f = (lambda tg: True) if keep == "all" else (lambda tg: tg != "u")
                    nd, nm_ = _call(rng, d, op, f), m.filter_tags(f, copy=op.endswith("_copy"))
                    ops.append([i, op, keep])
                colls.append((nd, nm_))
        except Exception as e:
            return t.failed("exception %r" % (e,), operations=ops)
        for k, (dd, mm) in enumerate(colls):
            if state(dd) != state(mm):
                return t.failed("collection %d differs from the reference model after step %d" % (k, step),
                                operations=ops, real={"db": _j(dd.db), "rdb": _j(dd.rdb)},
                                model={"db": _j(mm.db), "rdb": _j(mm.rdb)})
            if mm.inverse_ok():
                rel = {(p, tg) for p, ts in mm.db.items() for tg in ts}
                for p in sorted(set(PKGS) | set(mm.db)):       # in a reversed collection the "packages" are tags
                    if p in mm.db and _call(rng, dd, "tags_of_package", p) != {tg for (pp, tg) in rel if pp == p}:
                        return t.failed("tags_of_package disagrees with the relation", operations=ops, package=p)
                for tg in sorted(set(TAGS + ["f"]) | set(mm.rdb)):
                    exp = {pp for (pp, t2) in rel if t2 == tg}
                    if _call(rng, dd, "packages_of_tag", tg) != exp or dd.card(tg) != len(exp) or _call(rng, dd, "has_tag", tg) != (tg in mm.rdb):
                        return t.failed("packages_of_tag / card / has_tag disagree with the relation", operations=ops, tag=tg)
                if _call(rng, dd, "package_count") != len(mm.db) or _call(rng, dd, "tag_count") != len(mm.rdb):
                    return t.failed("package_count / tag_count disagree", operations=ops)
                # the remaining query methods, and a pickle round trip, against the same relation
                pk = sorted(mm.db)
                tg = [x for x in mm.rdb]
                if any(dd.has_package(p) != (p in mm.db) for p in PKGS + TAGS + [x.upper() for x in PKGS]) or \
                        set(dd.iter_packages()) != set(mm.db) or set(dd.iter_tags()) != set(mm.rdb) or \
                        {(p, x) for p, ts in dd.iter_packages_tags() for x in ts} != rel or \
                        {(p, x) for x, ps in dd.iter_tags_packages() for p in ps} != rel:
                    return t.failed("has_package / iter_* disagree with the relation", operations=ops)
                if pk and dd.tags_of_packages(pk) != {x for (_p, x) in rel}:
                    return t.failed("tags_of_packages disagrees with the relation", operations=ops)
                if tg and dd.packages_of_tags(tg) != {p for (p, _x) in rel}:
                    return t.failed("packages_of_tags disagrees with the relation", operations=ops)
                if tg and dd.discriminance(tg[0]) != min(len(mm.rdb[tg[0]]), len(mm.db) - len(mm.rdb[tg[0]])):
                    return t.failed("discriminance disagrees with the relation", operations=ops, tag=tg[0])
                buf = io.BytesIO()
                dd.qwrite(buf)
                buf.seek(0)
                back = real.DB()
                back.qread(buf)
                if state(back) != state(mm):
                    return t.failed("qwrite / qread does not reproduce the collection", operations=ops)
        t.case(key=tuple(map(str, ops)) if len(ops) >= 2 else None, sample=ops if len(ops) >= 4 else None)
    return False


def _j(d):
    return {k: sorted(v) for k, v in d.items()}


def inv(d):
    a = {(p, t) for p, ts in d.db.items() for t in ts}
    b = {(p, t) for t, ps in d.rdb.items() for p in ps}
    return a == b


def known_finding_histories(real):
    """(key, description, callable -> True if the property FAILS on this specific history)"""
    DB = real.DB

    def f1():
        d = DB()
        d.insert("ab", {"t"})
        return not inv(d)

    def shared(method, arg, reverse_first):
        def g():
            d = DB()
            d.insert("p", {"t"})
            c = getattr(d, method)(arg)
            if reverse_first:
                r = c.reverse()
                r.insert("u", {"p"})
            else:
                c.insert("q", {"t"})
            return not inv(d)
        return g
    return [
        ("C20-insert-new-tag-stores-characters",
         "DB().insert('ab', {'t'}): rdb['t'] == {'a','b'} (set((pkg)) on the first insert under a new tag; pinned by the "
         "unedited test_debtags.test_insert, so not repairable by a fix commit)", f1),
        ("C20-shared-sets-filter_tags-insert",
         "d.insert('p',{'t'}); c = d.filter_tags(all); c.insert('q',{'t'}) adds 'q' to a package set still owned by d "
         "(documented 'sharing package sets'): d's indexes disagree", shared("filter_tags", lambda t: True, False)),
        ("C20-shared-sets-filter_packages-reverse-insert",
         "d.insert('p',{'t'}); r = d.filter_packages(all).reverse(); r.insert('u',{'p'}) adds tag 'u' to a tag set still "
         "owned by d (documented 'sharing tagsets')", shared("filter_packages", lambda p: True, True)),
        ("C20-shared-sets-filter_packages_tags-reverse-insert",
         "same through filter_packages_tags(...).reverse()", shared("filter_packages_tags", lambda pt: True, True)),
        ("C20-shared-sets-choose_packages-reverse-insert",
         "same through choose_packages(['p']).reverse()", shared("choose_packages", ["p"], True)),
    ]


# ------------------------------------------------------------------------------------------------
# P-20a  the simple queries and reverse() from their real AST, over the two index dictionaries as opaque maps (set objects are
# identities here: what the sets contain is the bounded part's business)
import z3
from vf.pyvc.speclib import SpecLib
from vf.pyvc.world import World, Contract
from vf.pyvc.values import VObj, VBox, DictVal, empty_dict, fresh, fresh_name
from vf.pyvc.driver import verify_contracts


def _db(ex):
    def d(nm):
        e = empty_dict("str", "int")
        return VBox("dict", DictVal("str", "int", z3.Const(fresh_name(nm + "_keys"), e.keys.sort()),
                                    z3.Const(fresh_name(nm + "_vals"), e.vals.sort())), nm)
    return VObj("DB", {"db": d("db"), "rdb": d("rdb")}, "self")


class _Q(Contract):
    modular = False
    modifies = ()

    def setup(self, ex):
        return {"self": _db(ex), "pkg": fresh("str", "pkg"), "tag": fresh("str", "tag")}


def _q(name, params, ensures):
    class C(_Q):
        target = MOD + ":DB." + name
        def setup(self, ex, params=params):
            full = _Q.setup(self, ex)
            return {k: v for k, v in full.items() if k in ("self",) + params}
    C.ensures = ensures
    C.__name__ = "DB_" + name
    return C()


class Reverse(Contract):
    target = MOD + ":DB.reverse"
    modular = False
    modifies = ()
    ensures = ("result.db is self.rdb and result.rdb is self.db",)

    def setup(self, ex):
        return {"self": _db(ex)}


def run_deductive(ctx):
    w = World(SpecLib())
    cs = [_q("has_package", ("pkg",), ("result == (pkg in self.db)",)), _q("has_tag", ("tag",), ("result == (tag in self.rdb)",)),
          _q("package_count", (), ("result == len(self.db)",)), _q("tag_count", (), ("result == len(self.rdb)",)),
          # the two look-ups hand out the stored set of a known name (an unknown name gives a new set) and change neither index
          _q("tags_of_package", ("pkg",), ("implies(pkg in self.db, result == self.db[pkg])",)),
          _q("packages_of_tag", ("tag",), ("implies(tag in self.rdb, result == self.rdb[tag])",)), Reverse()]
    verify_contracts(ctx, w, cs, {})
    ctx.solve()


def run(ctx):
    run_deductive(ctx)
    mod = extract.load(MOD)
    real = mod.real()
    for q in ("DB.insert", "DB.read", "DB.copy", "DB.reverse", "DB.reverse_copy", "DB.choose_packages",
              "DB.choose_packages_copy", "DB.filter_packages", "DB.filter_packages_copy", "DB.filter_packages_tags",
              "DB.filter_packages_tags_copy", "DB.filter_tags", "DB.filter_tags_copy", "DB.facet_collection", "reverse",
              "read_tag_database_both_ways", "parse_tags"):
        node, _ = mod.lookup(q)
        if node is not None:
            ctx.function_under_contract(MOD + ":" + q, mod.segment(node))
    rng = random.Random(ctx.seed)
    rounds = 12000 if ctx.tier == "quick" else 100000
    t = Tally(ctx, "B-20 histories of read / insert / derivations on all live collections vs a sharing-aware reference model",
              "seeded histories of 2-7 operations over packages {p,q,r,pk,Pk,p:x} (distinct names; multi-letter, equal up to case, with a colon) and tags "
              "{t,u,f::x,f::y}; after every step every live collection (derived ones included) is compared with the model, and "
              "the query methods with the reference relation whenever the model is consistent; non-trivial = distinct histories of >= 2 operations",
              "%d histories, <= 7 operations" % rounds)
    for _ in range(rounds):
        if run_history(real, rng, rng.randint(2, 7), t):
            break
    if not t.fail:
        # sizes no small example reaches: 4000 packages (about 200 kB of input) read from a list, a generator and a text file
        # object; filters that drop one package in a hundred; the queries against the relation built by hand
        import io as _io
        lines, rel = [], set()
        for i in range(4000):
            tags = ["common::all", "grp::%d" % (i % 50)] + (["only::%d" % i] if i % 100 == 0 else [])
            lines.append("pkg%04d: %s\n" % (i, ", ".join(tags)))
            rel |= {("pkg%04d" % i, tg) for tg in tags}
        text = "".join(lines)
        for how, mk in (("list", lambda: lines), ("generator", lambda: (l for l in lines)), ("text file object", lambda: _io.StringIO(text))):
            d = real.DB()
            try:
                d.read(mk())
                views = {"the collection": (d, rel)}
                keep = lambda p: int(p[3:]) % 100 != 0
                views["filter_packages dropping 40 of 4000"] = (d.filter_packages(keep), {(p, tg) for p, tg in rel if keep(p)})
                views["filter_packages_copy dropping 40 of 4000"] = (d.filter_packages_copy(keep), {(p, tg) for p, tg in rel if keep(p)})
                for vname, (dd, r_) in views.items():
                    a = {(p, tg) for p, ts in dd.db.items() for tg in ts}
                    b = {(p, tg) for tg, ps in dd.rdb.items() for p in ps}
                    t.case(key=("large", how, vname))
                    if a != r_ or b != r_ or dd.tag_count() != len({tg for _, tg in r_}) or dd.package_count() != len({p for p, _ in r_}) \
                            or dd.card("common::all") != len({p for p, tg in r_ if tg == "common::all"}) \
                            or set(dd.iter_tags()) != {tg for _, tg in r_}:
                        t.failed("a collection of 4000 packages is not the relation that was read", input_given_as=how, view=vname,
                                 pairs_in_package_index=len(a), pairs_in_tag_index=len(b), pairs_expected=len(r_),
                                 tag_count=dd.tag_count(), tags_expected=len({tg for _, tg in r_}))
                        break
            except Exception as e:
                t.failed("reading / filtering a collection of 4000 packages raised %r" % (e,), input_given_as=how)
            if t.fail:
                break
    t.done()
    # (C) recorded findings, re-demonstrated on their specific histories
    for key, text, fails in known_finding_histories(real):
        try:
            bad = fails()
        except Exception as e:
            bad = True
            text += " (raised %r)" % (e,)
        if bad:
            ctx.violation(key, "F-20 " + key, text, inputs={"history": text}, confirmed=True)
    ctx.level = "other"
    ctx.explanation = (
        "PROVED from the AST (very small functions, but the real ones): has_package / has_tag are membership in the package / tag "
        "index, package_count / tag_count their sizes, reverse() a collection whose two indexes are the SAME dictionary objects, "
        "swapped; tags_of_package / packages_of_tag hand out the stored set of a known name and change neither index. Everything about the contents of the tag and package sets is BOUNDED: the reference model shares and copies set objects exactly as the docstrings say and "
        "reproduces the one recorded deviation of DB.insert; real and model states are compared for every live collection "
        "after every step, so a change in what is shared or copied, in the reverse index, in read/filter semantics or in the "
        "queries shows up as a state difference. Histories in which the documented sharing itself breaks the parent's "
        "indexes are listed in KNOWN_FINDINGS by their specific history.")
    ctx.assumptions += ["package names are distinct within a collection (domain of the property)",
                        "tag filters / package filters are pure predicates"]


def replay(ctx, data):
    return True
