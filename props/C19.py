"""C19  update_file converges to the published content and never corrupts the local file.

B-19 bounded stand-in (DESIGN §5 C19: the file-system ghost-state contracts for replace_file /
download_file / update_file are not generated yet): real file:// mirrors for histories of 1-4 versions
(patches derived by an independent differ, gzip, index with SHA1, SHA256 or both families), with the local copy at every v_i,
current, foreign or absent; each patch corrupted or truncated; index missing / empty / garbage /
without Current / with a wrong Current hash; the i-th write, the open and the final rename failing
(fault injection by patching module attributes from here, not in /repo).
"""
import gzip
import io
import hashlib
import os
import random
import shutil
import tempfile

from vf.bounded import Tally
from vf.pyvc import extract
from props.C18 import _ed_script_difflib

MOD = "debian.debian_support"
from vf import tricky


def sha1(lines, family="SHA1"):
    h = hashlib.sha1() if family == "SHA1" else hashlib.sha256()
    for l in lines:
        h.update(l.encode("utf-8"))
    return h.hexdigest()


def publish(root, versions, index_mode="ok", family="SHA1"):
    if family == "both":
        remote = publish(root, versions, index_mode, "SHA1")
        idx = os.path.join(root, "Packages.diff", "Index")
        first = open(idx).read() if os.path.exists(idx) else None
        publish(root, versions, index_mode, "SHA256")
        if first is not None and index_mode not in ("empty", "garbage"):
            second = open(idx).read()
            open(idx, "w").write(first + second.replace("X-Other: 1\n", ""))
        return remote
    _sha1 = sha1
    sha1_ = lambda lines: _sha1(lines, family)
    return _publish(root, versions, index_mode, family, sha1_)


def _publish(root, versions, index_mode, FAM, sha1):
    """write Packages.gz, Packages.diff/Index and the patches; returns the remote URL"""
    os.makedirs(os.path.join(root, "Packages.diff"), exist_ok=True)
    cur = versions[-1]
    with gzip.open(os.path.join(root, "Packages.gz"), "wt", encoding="utf-8") as f:
        f.writelines(cur)
    hist, patches = [], []
    for k in range(len(versions) - 1):
        name = "2024-01-%02d-0000.00" % (k + 1)
        script = _ed_script_difflib(versions[k], versions[k + 1])
        with gzip.open(os.path.join(root, "Packages.diff", name + ".gz"), "wt", encoding="utf-8") as f:
            f.writelines(script)
        hist.append("%s %d %s" % (sha1(versions[k]), sum(len(l.encode()) for l in versions[k]), name))
        patches.append("%s %d %s" % (sha1(script), sum(len(l.encode()) for l in script), name))
    idx = os.path.join(root, "Packages.diff", "Index")
    cur_line = FAM + "-Current: %s %d\n" % (sha1(cur), sum(len(l.encode()) for l in cur))
    body = FAM + "-History:\n" + "".join(" %s\n" % h for h in hist) + FAM + "-Patches:\n" + "".join(" %s\n" % p for p in patches)
    if index_mode == "ok":
        open(idx, "w").write(cur_line + body)
    elif index_mode == "missing":
        pass
    elif index_mode == "empty":
        open(idx, "w").write("")
    elif index_mode == "garbage":
        open(idx, "w").write("this is not\nan index : at all\n\x00\n")
    elif index_mode == "no-current":
        open(idx, "w").write(body)
    elif index_mode == "wrong-current":
        open(idx, "w").write(FAM + "-Current: %s 1\n" % ("0" * (40 if FAM == "SHA1" else 64)) + body)
    elif index_mode == "extra-fields":
        open(idx, "w").write("X-Other: 1\n" + cur_line + body + "X-Unmerged-" + FAM + "-History:\n")
    return "file://" + os.path.join(root, "Packages")


# ------------------------------------------------------------------------------------------------
# P-19a  replace_file against a ghost file system: every failure point is an explicit path
import z3
from vf.pyvc.speclib import SpecLib
from vf.pyvc.world import World, Contract
from vf.pyvc.interp import LoopSpec
from vf.pyvc.values import VBox, VSeq, VFunc, DictVal, empty_dict, fresh, fresh_name, lift, sort_of
from vf.pyvc.driver import verify_contracts


def join_upto(ls, k):
    """concatenation of the first k strings of ls"""
    if k <= 0:
        return ""
    return join_upto(ls, k - 1) + ls[k - 1]


class ReplaceFile(Contract):
    locals_order = ['lines', 'local', 'encoding', 'local_new', 'new_file', 'l']
    target = MOD + ":replace_file"
    modular = False
    requires = ()
    ensures = ("fs == fs_del(fs_store(old(fs), local, join_upto(lines, len(lines))), local + '.new')",)
    raises = {"OSError": ("fs == fs_del(old(fs), local + '.new') or (local + '.new' not in old(fs) and fs == old(fs))",)}
    modifies = ("fs",)
    raises_modifies = {"OSError": ("fs",)}
    loops = {0: LoopSpec(
        invariants=("fs == fs_store(old(fs), local + '.new', join_upto(lines, li))",
                    "0 <= li and li <= len(lines)", "mention(join_upto(lines, li + 1))"),
        index="li", modifies=("fs",), var_types={"l": "str"})}
    locals_order = ["lines", "local", "encoding", "local_new", "new_file", "l"]

    def setup(self, ex):
        d = empty_dict("str", "str")
        fs = VBox("dict", DictVal("str", "str", z3.Const(fresh_name("fs_keys"), d.keys.sort()),
                                  z3.Const(fresh_name("fs_vals"), d.vals.sort())), "fs")
        ex.fs = fs
        lines = fresh(("list", "str"), "lines")
        local = fresh("str", "local")
        return {"lines": lines.val, "local": local, "encoding": lift("UTF-8"), "fs": fs}


def run_deductive(ctx):
    sl = SpecLib()
    w = World(sl)
    w.spec_func(join_upto, rec=dict(args=[("list", "str"), "int"], ret="str"))

    def fs_store(ex, a, kw):
        d, k, v = a
        box = VBox("dict", d.val, "tmp")
        sl.dict_set(ex, box, k, v)
        return box

    def fs_del(ex, a, kw):
        d, k = a
        dv = d.val
        kk = k.t
        junk = empty_dict(dv.kty, dv.vty).vals
        return VBox("dict", DictVal(dv.kty, dv.vty, z3.Store(dv.keys, kk, z3.BoolVal(False)),
                                    z3.Store(dv.vals, kk, z3.Select(junk, kk))), "tmp")
    w.spec_env["fs_store"] = VFunc("builtin", "fs_store", fn=fs_store)
    w.spec_env["fs_del"] = VFunc("builtin", "fs_del", fn=fs_del)
    c = ReplaceFile()
    verify_contracts(ctx, w, [c], {})
    ctx.solve()


def gen_versions(rng):
    pool = ["Package: a\n", "Version: 1\n", "\n", "Package: b\n", "Depends: a, b\n", "Description: é\n", " more\n", ".\n", " .\n", "x\n",
            "Description: a\u2028b\n", "ff\x0cx\n", " n\x85l \x1c\n"] + ["X: %s\n" % b for b in tricky.VALUE_BITS if b not in (".",)]
    v = [rng.choice(pool) for _ in range(rng.randint(0, 6))]
    if v and rng.random() < 0.1:
        v[0] = "\ufeff" + v[0]          # the published text may start with a byte order mark: it is content like any other
    out = [list(v)]
    for _ in range(rng.randint(0, 3)):
        v = list(v)
        for _e in range(rng.randint(1, 3)):
            k = rng.choice(["ins", "del", "chg"])
            pos = rng.randrange(len(v) + 1)
            if k == "ins" or not v:
                v.insert(pos, rng.choice(pool))
            elif k == "del":
                del v[min(pos, len(v) - 1)]
            else:
                v[min(pos, len(v) - 1)] = rng.choice(pool)
        if v == out[-1]:
            v = v + ["changed\n"]
        out.append(v)
    # a content line that is exactly ".\n" cannot be transported by ed scripts (diff -e escapes it); keep it out
    out = [[l for l in ver if l != ".\n"] for ver in out]
    dedup = [out[0]]
    for ver in out[1:]:
        if ver != dedup[-1] and ver not in dedup:
            dedup.append(ver)
    if rng.random() < 0.12:
        # the repository republished one version unchanged: two consecutive history entries with the same content and an empty
        # patch between them
        k = rng.randrange(len(dedup))
        dedup.insert(k, list(dedup[k]))
    if len(dedup) >= 2 and rng.random() < 0.2:
        # a reverted change: an earlier content comes back later (A-B-A-C, A-B-C-B-D), so the same hash stands twice in the
        # history, each time with its own patch; the chain starts at the first entry that matches the local copy
        j = rng.randrange(1, len(dedup))
        i = rng.randrange(0, j)
        dedup.insert(j + 1, list(dedup[i]))
        if j + 1 == len(dedup) - 1 or rng.random() < 0.5:
            dedup.append(dedup[-1] + [rng.choice(pool[:8]).replace(".\n", "y\n")])
    return dedup


def read_local(path):
    if not os.path.exists(path):
        return None
    return open(path, encoding="utf-8").readlines()


def run(ctx):
    mod = extract.load(MOD)
    real = mod.real()
    for q in ("update_file", "replace_file", "download_file", "download_gunzip_lines", "patch_lines", "patches_from_ed_script"):
        node, _ = mod.lookup(q)
        if node is not None:
            ctx.function_under_contract(MOD + ":" + q, mod.segment(node))
    run_deductive(ctx)
    rng = random.Random(ctx.seed)
    rounds = 300 if ctx.tier == "quick" else 2000
    t = Tally(ctx, "B-19 real file:// mirrors: convergence, hash failures, unusable indexes, injected write / rename faults",
              "seeded histories of 1-4 versions (0-8 lines) published as gz + index (SHA1, SHA256 or both families) + ed patches from an independent differ; local "
              "copy at every v_i / current / foreign / absent; index ok / missing / empty / garbage / without Current / wrong Current / "
              "with unknown fields; each patch garbled or truncated; open, i-th write (every i) and rename failing; non-trivial = "
              "distinct (history, local state, fault)", "%d histories" % rounds)
    base = tempfile.mkdtemp(prefix="verif-c19-", dir="/dev/shm" if os.path.isdir("/dev/shm") else None)
    try:
        for r in range(rounds):
            versions = gen_versions(rng)
            cur = versions[-1]
            root = os.path.join(base, "m%d" % r)
            os.makedirs(root)
            local = os.path.join(root, "local")
            locals_ = [("v%d" % i, v) for i, v in enumerate(versions)] + [("foreign", ["foreign\n", "content\n"]), ("absent", None)]
            scenarios = []
            for lname, lcontent in locals_:
                scenarios.append((lname, lcontent, "ok", None))
            lname, lcontent = rng.choice(locals_)
            for im in ("missing", "empty", "garbage", "no-current", "wrong-current", "extra-fields"):
                scenarios.append((lname, lcontent, im, None))
            if len(versions) > 1 and all(versions[k] != versions[k + 1] for k in range(len(versions) - 1)):
                # (with a republished version it depends on the entry the library starts from whether a damaged patch is used at all)
                scenarios.append(("v0", versions[0], "ok", ("garble", rng.randrange(len(versions) - 1))))
                scenarios.append(("v0", versions[0], "ok", ("truncate", rng.randrange(len(versions) - 1))))
            for fault in ("open", "rename") + tuple(("write", i) for i in range(len(cur) + 1)):
                scenarios.append((rng.choice(locals_)[0], None, "ok", fault))
            for lname, lcontent, index_mode, fault in scenarios:
                if lcontent is None and lname != "absent":
                    lcontent = dict(locals_)[lname]
                shutil.rmtree(os.path.join(root, "Packages.diff"), ignore_errors=True)
                family = rng.choice(["SHA1", "SHA256", "both"])
                remote = publish(root, versions, index_mode, family)
                for f in (local, local + ".new"):
                    if os.path.exists(f):
                        os.unlink(f)
                if lcontent is not None:
                    open(local, "w", encoding="utf-8").writelines(lcontent)
                desc = dict(versions=versions, local=lname, index=index_mode, hashes=family, fault=str(fault))
                expect_error = False
                restore = []
                if isinstance(fault, tuple) and fault[0] in ("garble", "truncate"):
                    name = os.path.join(root, "Packages.diff", "2024-01-%02d-0000.00.gz" % (fault[1] + 1))
                    script = gzip.open(name, "rt", encoding="utf-8").readlines()
                    script = (script + ["99a\n", "junk\n", ".\n"]) if fault[0] == "garble" else script[:-1]
                    gzip.open(name, "wt", encoding="utf-8").writelines(script)
                    expect_error = True
                elif fault is not None:
                    counter = {"n": 0}
                    target = fault[1] if isinstance(fault, tuple) else None

                    class FailingFile:
                        def __init__(self, f):
                            self.f = f

                        def write(self, s):
                            if counter["n"] == target:
                                counter["n"] += 1
                                raise IOError("injected write failure")
                            counter["n"] += 1
                            return self.f.write(s)

                        def __enter__(self):
                            return self

                        def __exit__(self, *a):
                            self.f.close()
                            return False

                        def __getattr__(self, k):
                            return getattr(self.f, k)
                    import builtins

                    def fake_open(path, mode="r", *a, **kw):
                        if str(path).endswith(".new") and "w" in mode:
                            if fault == "open":
                                raise IOError("injected open failure")
                            return FailingFile(builtins.open(path, mode, *a, **kw))
                        return builtins.open(path, mode, *a, **kw)
                    if fault == "rename":
                        orig_rename = real.os.rename

                        def fake_rename(a, b):
                            raise OSError("injected rename failure")
                        real.os.rename = fake_rename
                        restore.append(lambda: setattr(real.os, "rename", orig_rename))
                    else:
                        real.open = fake_open
                        restore.append(lambda: delattr(real, "open"))
                before = read_local(local)
                try:
                    if rng.random() < 0.3:
                        import contextlib
                        with contextlib.redirect_stdout(io.StringIO()), contextlib.redirect_stderr(io.StringIO()):
                            result = real.update_file(remote, local, verbose=True)     # progress messages must not change the outcome
                        desc["verbose"] = True
                    else:
                        result = real.update_file(remote, local)
                    err = None
                except Exception as e:
                    result, err = None, e
                finally:
                    for fn in restore:
                        fn()
                after = read_local(local)
                leftover = os.path.exists(local + ".new")
                t.case(key=(str(versions), lname, index_mode, str(fault)))
                # was the injected fault reached?  (no write happens when the local copy is already current)
                fault_reached = fault is not None and not isinstance(fault, tuple) or (isinstance(fault, tuple) and fault[0] == "write")
                if fault is not None and not expect_error:
                    up_to_date = before == cur and index_mode == "ok"
                    if up_to_date or (isinstance(fault, tuple) and fault[0] == "write" and fault[1] >= len(cur)):
                        fault_reached = False
                if index_mode == "wrong-current":
                    # the index lies about the published file: only safety can be demanded
                    if leftover or (err is not None and after != before):
                        t.failed("local file touched or temporary file left although an error was raised", scenario=desc,
                                 error=repr(err), leftover=leftover)
                        break
                    continue
                if expect_error or fault_reached:
                    if err is None and expect_error and before != cur:
                        t.failed("a garbled / truncated patch did not raise", scenario=desc, result=result)
                        break
                    if err is not None or fault_reached:
                        if err is None:
                            t.failed("an injected write / rename failure did not raise", scenario=desc)
                            break
                        if after != before or leftover:
                            t.failed("after a failure the local file was changed or a temporary file was left", scenario=desc,
                                     error=repr(err), before=before, after=after, leftover=leftover)
                            break
                        continue
                if err is not None:
                    t.failed("update_file raised %r" % (err,), scenario=desc)
                    break
                if result != cur or after != cur or leftover:
                    t.failed("local file / returned lines differ from the published content", scenario=desc, result=result,
                             local_after=after, published=cur, leftover=leftover)
                    break
                # converged: updating again changes nothing and still returns the published content
                try:
                    result2 = real.update_file(remote, local)
                except Exception as e:
                    t.failed("a second update_file on the converged copy raised %r" % (e,), scenario=desc)
                    break
                if result2 != cur or read_local(local) != cur or os.path.exists(local + ".new"):
                    t.failed("a second update_file on the converged copy changed something", scenario=desc, result=result2)
                    break
            shutil.rmtree(root, ignore_errors=True)
            if t.fail:
                break
            if len(t.samples) < 2 and len(versions) >= 3:
                t.samples.append({"versions": versions})
        # sizes no small example reaches: a published file of 9000 lines / 250 kB (beyond every read and write block size) with a
        # chain of three versions; local copy absent, foreign, at each version
        if not t.fail:
            v0 = ["Package: p%d\nDescription: %s\n" % (i, "d" * (i % 40)) for i in range(4500)]
            v0 = [l for two in v0 for l in two.splitlines(True)]
            v1 = list(v0)
            v1[100:103] = ["changed a\n"]
            v1[5000:5000] = ["inserted %d\n" % j for j in range(30)]
            v2 = list(v1)
            del v2[8000:8010]
            v2[4095:4097] = ["boundary 1\n", "boundary 2\n", "boundary 3\n"]
            big_versions = [v0, v1, v2]
            for lname, lcontent in [("absent", None), ("foreign", ["foreign\n"] * 5000), ("v0", v0), ("v1", v1), ("v2", v2)]:
                root = os.path.join(base, "big-" + lname)
                os.makedirs(root)
                local = os.path.join(root, "local")
                try:
                    remote = publish(root, big_versions, "ok", rng.choice(["SHA1", "SHA256", "both"]))
                    if lcontent is not None:
                        with open(local, "w", encoding="utf-8") as f:
                            f.writelines(lcontent)
                    result = real.update_file(remote, local)
                    on_disk = read_local(local)
                except Exception as e:
                    t.failed("update_file on a 9000-line repository raised %r" % (e,), local=lname)
                    break
                t.case(key=("large", lname))
                if result != v2 or on_disk != v2 or os.path.exists(local + ".new"):
                    first = next((i for i, (x, y) in enumerate(zip(on_disk or [], v2)) if x != y), min(len(on_disk or []), len(v2)))
                    t.failed("update_file on a 9000-line repository does not end with the published content", local=lname,
                             lines_returned=len(result or []), lines_on_disk=len(on_disk or []), lines_published=len(v2),
                             first_difference_at_line=first)
                    break
                shutil.rmtree(root, ignore_errors=True)
    finally:
        shutil.rmtree(base, ignore_errors=True)
    t.done()
    ctx.level = "other"
    ctx.explanation = (
        "PROVED (pyvc, ghost file system path -> content with a may-raise outcome for open, every write, close and rename): "
        "replace_file on normal exit leaves exactly the joined lines in `local` and no '.new' file, nothing else changed; on "
        "EVERY OSError exit (open fails, the i-th write fails for any i - one loop invariant -, close fails, rename fails) the "
        "file system equals the old one minus a possibly stale '.new' file, i.e. `local` is untouched and no temporary file "
        "remains. NOT proved: update_file / download_file / download_gunzip_lines (hash checks, index parsing, network) - "
        "covered by the BOUNDED part on real file:// mirrors with injected faults.")
    ctx.assumptions += ["os.unlink / os.path.exists in the finally block do not themselves fail; open(path,'w+') fails before creating or not at all",
                        "the mirror is consistent: Current is the hash of the published file, patch k turns v_k into v_k+1",
                        "content lines equal to a lone '.' cannot be transported by ed scripts and are not generated"]


def replay(ctx, data):
    return True
