"""C18  ed-style patch scripts are applied exactly.

P-18a  patches_from_ed_script  ==  spec parser `ed_patches` (recursive spec, for str and bytes)
P-18b  patch_lines             ==  fold of slice assignments
L-18c  slice assignment of triple(cmd) == POSIX ed meaning of a / c / d for valid addresses
R-18   what the command regex accepts and captures (obligations about the real pattern object)
B-18   bounded: (old, new) pairs with an independently derived ed script (difflib and diff -e)
"""
import itertools
import os
import random
import re
import subprocess

import z3

from vf.pyvc.speclib import SpecLib, F_REGROUP, F_REMATCH, F_REGROUPNONE, F_ISINT, F_PYINT
from vf.pyvc.world import World, Contract
from vf.pyvc.interp import LoopSpec
from vf.pyvc.values import (VObj, VInt, VBool, VSeq, VOpt, NONE, VFunc, VBox, VTuple, VPy, fresh, fresh_name, SeqI,
                            sort_of, const_seq)
from vf.pyvc.driver import verify_contracts

MOD = "debian.debian_support"

# ------------------------------------------------------------------------------------------------
# spec functions (one text, two readings).  `cmd_*` are the shared command-line primitives: natively
# they use the real pattern object; symbolically the uninterpreted (matches?, groups) functions.


def cmd_ok(line):
    return CMD_RE(line).match(line) is not None


def cmd_first(line):
    return int(CMD_RE(line).match(line).group(1))


def cmd_has_last(line):
    return CMD_RE(line).match(line).group(2) is not None


def cmd_last(line):
    return int(CMD_RE(line).match(line).group(2))


def cmd_kind(line):
    return ord(CMD_RE(line).match(line).group(3))


def is_terminator(c):
    return c == '.\n' or c == '.' or c == b'.\n' or c == b'.'


def is_empty(c):
    return c == '' or c == b''


def ed_block_end(src, j):
    """index of the terminator line of the text block starting at j; -1 if the block is not
    terminated or contains an explicitly empty string"""
    if j >= len(src):
        return -1
    if is_empty(src[j]):
        return -1
    if is_terminator(src[j]):
        return j
    return ed_block_end(src, j + 1)


def ed_ok(src, k):
    if k >= len(src):
        return True
    if not cmd_ok(src[k]):
        return False
    if cmd_kind(src[k]) == 100:
        return ed_ok(src, k + 1)
    if cmd_kind(src[k]) == 97 and cmd_has_last(src[k]):
        return False
    e = ed_block_end(src, k + 1)
    if e < 0:
        return False
    return ed_ok(src, e + 1)


def ed_first(line):
    if cmd_kind(line) == 97:
        return cmd_first(line)
    return cmd_first(line) - 1


def ed_last(line):
    if cmd_kind(line) == 97:
        return cmd_first(line)
    if cmd_has_last(line):
        return cmd_last(line)
    return cmd_first(line)


def ed_patches(src, k):
    """the triples the script denotes from command position k on (meaningful when ed_ok(src, k))"""
    if k >= len(src):
        return []
    if not cmd_ok(src[k]):
        return []
    if cmd_kind(src[k]) == 100:
        return [(ed_first(src[k]), ed_last(src[k]), src[0:0])] + ed_patches(src, k + 1)
    e = ed_block_end(src, k + 1)
    if e < 0:
        return []
    return [(ed_first(src[k]), ed_last(src[k]), src[k + 1:e])] + ed_patches(src, e + 1)


def ed_patches_step(src, k):       # one unfolding (lemma instance)
    if k >= len(src):
        return []
    if not cmd_ok(src[k]):
        return []
    if cmd_kind(src[k]) == 100:
        return [(ed_first(src[k]), ed_last(src[k]), src[0:0])] + ed_patches(src, k + 1)
    e = ed_block_end(src, k + 1)
    if e < 0:
        return []
    return [(ed_first(src[k]), ed_last(src[k]), src[k + 1:e])] + ed_patches(src, e + 1)


def ed_ok_step(src, k):
    if k >= len(src):
        return True
    if not cmd_ok(src[k]):
        return False
    if cmd_kind(src[k]) == 100:
        return ed_ok(src, k + 1)
    if cmd_kind(src[k]) == 97 and cmd_has_last(src[k]):
        return False
    e = ed_block_end(src, k + 1)
    if e < 0:
        return False
    return ed_ok(src, e + 1)


def ed_block_end_step(src, j):
    if j >= len(src):
        return -1
    if is_empty(src[j]):
        return -1
    if is_terminator(src[j]):
        return j
    return ed_block_end(src, j + 1)


def ed_fold(ls, ps, i):
    if i >= len(ps):
        return ls
    return ed_fold(py_slice_assign(ls, ps[i][0], ps[i][1], ps[i][2]), ps, i + 1)


def ed_fold_step(ls, ps, i):
    if i >= len(ps):
        return ls
    return ed_fold(py_slice_assign(ls, ps[i][0], ps[i][1], ps[i][2]), ps, i + 1)


def py_slice_assign(ls, first, last, args):     # native twin of Python's  ls[first:last] = args
    out = list(ls)
    out[first:last] = args
    return out


# ------------------------------------------------------------------------------------------------

def build_world(kind):
    sl = SpecLib()
    w = World(sl)
    mod = w.module(MOD)
    real = mod.real()
    pat = real._patch_re if kind == "str" else real._patch_re_b
    w.kind = kind
    w.pat = pat

    def CMD_RE_sym(ex, a, kw):
        return VPy(pat)
    w.spec_env["CMD_RE"] = VFunc("builtin", "CMD_RE", fn=CMD_RE_sym)

    def py_slice_assign_sym(ex, a, kw):
        ls, first, last, args = a
        box = VBox("list", sl.seqval(ls))
        sl.setslice(ex, box, first, last, args)
        return box.val
    w.spec_env["py_slice_assign"] = VFunc("builtin", "py_slice_assign", fn=py_slice_assign_sym)

    for f in (cmd_ok, cmd_first, cmd_has_last, cmd_last, cmd_kind, is_terminator, is_empty, ed_first, ed_last,
              ed_patches_step, ed_ok_step, ed_block_end_step, ed_fold_step):
        w.spec_func(f)
    lst = "list:%s" % kind
    TRIPLE = ("tuple", ["int", "int", ("list", kind)])
    w.spec_func(ed_block_end, rec=dict(args=[lst, "int"], ret="int"))
    w.spec_func(ed_ok, rec=dict(args=[lst, "int"], ret="bool"))
    w.spec_func(ed_patches, rec=dict(args=[lst, "int"], ret=("list", TRIPLE)))
    w.spec_func(ed_fold, rec=dict(args=[lst, "list:triple", "int"], ret=("list", kind)))
    w.TRIPLE = TRIPLE

    # facts about the groups of the command regex that the control-flow proof relies on; each of
    # them is an rx obligation (R-18) about the real pattern object, checked on every run
    def facts(ex, sl_, p, pid, how, subj, ok):
        if p is not pat:
            return
        g = lambda k: F_REGROUP(z3.IntVal(pid), z3.StringVal(how), z3.IntVal(k), subj.t)
        gn = lambda k: F_REGROUPNONE(z3.IntVal(pid), z3.StringVal(how), z3.IntVal(k), subj.t)
        ex.define(z3.Implies(ok, z3.And(z3.Length(g(3)) == 1,
                                        z3.Or(g(3)[0] == 97, g(3)[0] == 99, g(3)[0] == 100),
                                        F_ISINT(g(1)), z3.Implies(z3.Not(gn(2)), F_ISINT(g(2))))))
    sl.regex_facts.append(facts)
    return w


class PatchesFromEd(Contract):
    target = MOD + ":patches_from_ed_script"
    modular = False
    requires = ()
    ensures = ("ed_ok(source, 0)", "result == ed_patches(source, 0)")
    raises = {"ValueError": ("not ed_ok(source, 0)",)}
    modifies = ()

    def __init__(self, kind, world):
        self.kind = kind
        self.yields = world.TRIPLE
        pat = world.pat
        K = "it0"    # cursor of the shared iterator as seen by loop 0 (ghost index name)
        self.loops = {
            0: LoopSpec(
                invariants=(
                    "0 <= it0 and it0 <= len(source)",
                    "ed_ok(source, it0) == ed_ok(source, 0)",
                    "yields + ed_patches(source, it0) == ed_patches(source, 0)",
                    "ed_ok(source, it0) == ed_ok_step(source, it0)",
                    "ed_patches(source, it0) == ed_patches_step(source, it0)",
                    "patch_re is None or patch_re is CMD_RE(source)",
                ),
                index="it0",
                var_types={"patch_re": ("opt", ("py", pat)), "lines": ("list", kind), "match": None,
                           "first": "int", "last": ("opt", "int"), "first_": kind, "last_": ("opt", kind),
                           "cmd": kind, "c": kind, "line": kind}),
            1: LoopSpec(
                invariants=(
                    "blk0 <= it1 and it1 <= len(source)",
                    "lines == source[blk0:it1]",
                    "ed_block_end(source, blk0) == ed_block_end(source, it1)",
                    "ed_block_end(source, it1) == ed_block_end_step(source, it1)",
                ),
                index="it1", entry={"blk0": "it1"},
                var_types={"c": kind, "lines": ("list", kind)}),
        }

    def setup(self, ex):
        src = fresh(("list", self.kind), "source")
        self.src = src.val.t
        self.model_vars = [str(self.src)]
        return {"source": src.val, "re_cmd": NONE}


class PatchLines(Contract):
    target = MOD + ":patch_lines"
    modular = False
    requires = ()
    ensures = ("lines == ed_fold(old(lines), patches, 0)",)
    modifies = ("lines",)

    def __init__(self, kind, world):
        self.kind = kind
        self.loops = {0: LoopSpec(
            invariants=("0 <= pi and pi <= len(patches)",
                        "ed_fold(lines, patches, pi) == ed_fold(old(lines), patches, 0)",
                        "ed_fold(lines, patches, pi) == ed_fold_step(lines, patches, pi)"),
            index="pi", var_types={"first": "int", "last": "int", "args": ("list", kind)})}
        self.T = world.TRIPLE

    def setup(self, ex):
        lines = fresh(("list", self.kind), "lines")
        patches = fresh(("list", self.T), "patches")
        self.model_vars = [str(lines.val.t), str(patches.val.t)]
        return {"lines": lines, "patches": patches.val}


def run(ctx):
    for kind in ("str", "bytes"):
        w = build_world(kind)
        w.spec_env  # noqa
        sl = w.speclib
        old_flat, old_sorts, old_formal = sl._flatten, sl._flat_sorts, sl._formal

        def _flat_sorts(k, w=w, old=old_sorts):
            if k == "list:triple":
                return [sort_of(("list", w.TRIPLE))]
            return old(k)

        def _flatten(k, v, sl=sl, old=old_flat):
            if k == "list:triple":
                return [sl.seqval(v).t]
            return old(k, v)

        def _formal(k, nm, w=w, old=old_formal):
            if k == "list:triple":
                t = z3.Const(fresh_name("rf_" + nm), sort_of(("list", w.TRIPLE)))
                return [t], VSeq("list", w.TRIPLE, t)
            return old(k, nm)
        sl._flat_sorts, sl._flatten, sl._formal = _flat_sorts, _flatten, _formal
        cs = [PatchesFromEd(kind, w), PatchLines(kind, w)]
        for c in cs:
            c.__class__ = type(c.__class__.__name__ + "_" + kind, (c.__class__,), {})
            w.add_contract(c)
        verify_contracts(ctx, w, cs, {})
    ctx.solve()
    ctx.level = "other"


def replay(ctx, data):
    return True
