"""C18  ed-style patch scripts are applied exactly.

P-18a  patches_from_ed_script  ==  spec parser `ed_patches` (recursive spec, for str and bytes)
P-18b  patch_lines             ==  fold of slice assignments
L-18c  slice assignment of triple(cmd) == POSIX ed meaning of a / c / d for valid addresses
R-18   what the command regex accepts and captures (obligations about the real pattern object)
B-18   bounded: (old, new) pairs with an independently derived ed script (difflib and diff -e)
"""
import itertools
import os
import random
import re
import subprocess

import z3

from vf.pyvc.speclib import SpecLib, F_REGROUP, F_REMATCH, F_REGROUPNONE, F_ISINT, F_PYINT
from vf.pyvc.world import World, Contract
from vf.pyvc.interp import LoopSpec
from vf.pyvc.values import (VObj, VInt, VBool, VSeq, VOpt, NONE, VFunc, VBox, VTuple, VPy, fresh, fresh_name, SeqI,
                            sort_of, const_seq)
from vf.pyvc.driver import verify_contracts

MOD = "debian.debian_support"

# ------------------------------------------------------------------------------------------------
# spec functions (one text, two readings).  `cmd_*` are the shared command-line primitives: natively
# they use the real pattern object; symbolically the uninterpreted (matches?, groups) functions.


def cmd_ok(line):
    return CMD_RE(line).match(line) is not None


def cmd_first(line):
    return int(CMD_RE(line).match(line).group(1))


def cmd_has_last(line):
    return CMD_RE(line).match(line).group(2) is not None


def cmd_last(line):
    return int(CMD_RE(line).match(line).group(2))


def cmd_kind(line):
    return ord(CMD_RE(line).match(line).group(3))


def is_terminator(c):
    return c == '.\n' or c == '.' or c == b'.\n' or c == b'.'


def is_empty(c):
    return c == '' or c == b''


def ed_block_end(src, j):
    """index of the terminator line of the text block starting at j; -1 if the block is not
    terminated or contains an explicitly empty string"""
    if j >= len(src):
        return -1
    if is_empty(src[j]):
        return -1
    if is_terminator(src[j]):
        return j
    return ed_block_end(src, j + 1)


def ed_ok(src, k):
    if k >= len(src):
        return True
    if not cmd_ok(src[k]):
        return False
    if cmd_kind(src[k]) == 100:
        return ed_ok(src, k + 1)
    if cmd_kind(src[k]) == 97 and cmd_has_last(src[k]):
        return False
    e = ed_block_end(src, k + 1)
    if e < 0:
        return False
    return ed_ok(src, e + 1)


def ed_first(line):
    if cmd_kind(line) == 97:
        return cmd_first(line)
    return cmd_first(line) - 1


def ed_last(line):
    if cmd_kind(line) == 97:
        return cmd_first(line)
    if cmd_has_last(line):
        return cmd_last(line)
    return cmd_first(line)


def ed_patches(src, k):
    """the triples the script denotes from command position k on (meaningful when ed_ok(src, k))"""
    if k >= len(src):
        return []
    if not cmd_ok(src[k]):
        return []
    if cmd_kind(src[k]) == 100:
        return [(ed_first(src[k]), ed_last(src[k]), src[0:0])] + ed_patches(src, k + 1)
    e = ed_block_end(src, k + 1)
    if e < 0:
        return []
    return [(ed_first(src[k]), ed_last(src[k]), src[k + 1:e])] + ed_patches(src, e + 1)


def ed_patches_step(src, k):       # one unfolding (lemma instance)
    if k >= len(src):
        return []
    if not cmd_ok(src[k]):
        return []
    if cmd_kind(src[k]) == 100:
        return [(ed_first(src[k]), ed_last(src[k]), src[0:0])] + ed_patches(src, k + 1)
    e = ed_block_end(src, k + 1)
    if e < 0:
        return []
    return [(ed_first(src[k]), ed_last(src[k]), src[k + 1:e])] + ed_patches(src, e + 1)


def ed_ok_step(src, k):
    if k >= len(src):
        return True
    if not cmd_ok(src[k]):
        return False
    if cmd_kind(src[k]) == 100:
        return ed_ok(src, k + 1)
    if cmd_kind(src[k]) == 97 and cmd_has_last(src[k]):
        return False
    e = ed_block_end(src, k + 1)
    if e < 0:
        return False
    return ed_ok(src, e + 1)


def ed_block_end_step(src, j):
    if j >= len(src):
        return -1
    if is_empty(src[j]):
        return -1
    if is_terminator(src[j]):
        return j
    return ed_block_end(src, j + 1)


def ed_fold(ls, ps, i):
    if i >= len(ps):
        return ls
    return ed_fold(py_slice_assign(ls, ps[i][0], ps[i][1], ps[i][2]), ps, i + 1)


def ed_fold_step(ls, ps, i):
    if i >= len(ps):
        return ls
    return ed_fold(py_slice_assign(ls, ps[i][0], ps[i][1], ps[i][2]), ps, i + 1)


def py_slice_assign(ls, first, last, args):     # native twin of Python's  ls[first:last] = args
    out = list(ls)
    out[first:last] = args
    return out


# ------------------------------------------------------------------------------------------------

def build_world(kind):
    sl = SpecLib()
    w = World(sl)
    mod = w.module(MOD)
    real = mod.real()
    pat = real._patch_re if kind == "str" else real._patch_re_b
    w.kind = kind
    w.pat = pat

    def CMD_RE_sym(ex, a, kw):
        return VPy(pat)
    w.spec_env["CMD_RE"] = VFunc("builtin", "CMD_RE", fn=CMD_RE_sym)

    def py_slice_assign_sym(ex, a, kw):
        ls, first, last, args = a
        box = VBox("list", sl.seqval(ls))
        sl.setslice(ex, box, first, last, args)
        return box.val
    w.spec_env["py_slice_assign"] = VFunc("builtin", "py_slice_assign", fn=py_slice_assign_sym)

    for f in (cmd_ok, cmd_first, cmd_has_last, cmd_last, cmd_kind, is_terminator, is_empty, ed_first, ed_last,
              ed_patches_step, ed_ok_step, ed_block_end_step, ed_fold_step):
        w.spec_func(f)
    lst = "list:%s" % kind
    TRIPLE = ("tuple", ["int", "int", ("list", kind)])
    w.spec_func(ed_block_end, rec=dict(args=[lst, "int"], ret="int"))
    w.spec_func(ed_ok, rec=dict(args=[lst, "int"], ret="bool"))
    w.spec_func(ed_patches, rec=dict(args=[lst, "int"], ret=("list", TRIPLE)))
    w.spec_func(ed_fold, rec=dict(args=[lst, "list:triple", "int"], ret=("list", kind)))
    w.TRIPLE = TRIPLE

    # facts about the groups of the command regex that the control-flow proof relies on; each of
    # them is an rx obligation (R-18) about the real pattern object, checked on every run
    def facts(ex, sl_, p, pid, how, subj, ok):
        if p is not pat:
            return
        g = lambda k: F_REGROUP(z3.IntVal(pid), z3.StringVal(how), z3.IntVal(k), subj.t)
        gn = lambda k: F_REGROUPNONE(z3.IntVal(pid), z3.StringVal(how), z3.IntVal(k), subj.t)
        ex.define(z3.Implies(ok, z3.And(z3.Length(g(3)) == 1,
                                        z3.Or(g(3)[0] == 97, g(3)[0] == 99, g(3)[0] == 100),
                                        F_ISINT(g(1)), z3.Implies(z3.Not(gn(2)), F_ISINT(g(2))))))
    sl.regex_facts.append(facts)
    return w


class PatchesFromEd(Contract):
    locals_order = ['source', 're_cmd', 'i', 'patch_re', 'line', 'match', 'first_', 'last_', 'cmd', 'first', 'last', 'lines', 'c']
    target = MOD + ":patches_from_ed_script"
    modular = False
    requires = ()
    ensures = ("ed_ok(source, 0)", "result == ed_patches(source, 0)")
    raises = {"ValueError": ("not ed_ok(source, 0)",)}
    modifies = ()

    def __init__(self, kind, world):
        self.kind = kind
        self.yields = world.TRIPLE
        pat = world.pat
        K = "it0"    # cursor of the shared iterator as seen by loop 0 (ghost index name)
        self.loops = {
            0: LoopSpec(
                invariants=(
                    "0 <= it0 and it0 <= len(source)",
                    "ed_ok(source, it0) == ed_ok(source, 0)",
                    "yields + ed_patches(source, it0) == ed_patches(source, 0)",
                    "patch_re is None or patch_re is CMD_RE(source)",
                ),
                index="it0",
                var_types={"patch_re": ("opt", ("py", pat)), "lines": ("list", kind), "match": None,
                           "first": "int", "last": ("opt", "int"), "first_": kind, "last_": ("opt", kind),
                           "cmd": kind, "c": kind, "line": kind}),
            1: LoopSpec(
                invariants=(
                    "blk0 <= it1 and it1 <= len(source)",
                    "lines == source[blk0:it1]",
                    "ed_block_end(source, blk0) == ed_block_end(source, it1)",
                    "law_slice_extend(source, blk0, it1)",
                ),
                index="it1", entry={"blk0": "it1"},
                var_types={"c": kind, "lines": ("list", kind)}),
        }

    def setup(self, ex):
        src = fresh(("list", self.kind), "source")
        self.src = src.val.t
        self.model_vars = [str(self.src)]
        return {"source": src.val, "re_cmd": NONE}


class PatchLines(Contract):
    locals_order = ['lines', 'patches', 'first', 'last', 'args']
    target = MOD + ":patch_lines"
    modular = False
    requires = ()
    ensures = ("lines == ed_fold(old(lines), patches, 0)",)
    modifies = ("lines",)

    def __init__(self, kind, world):
        self.kind = kind
        self.loops = {0: LoopSpec(
            invariants=("0 <= pi and pi <= len(patches)",
                        "ed_fold(lines, patches, pi) == ed_fold(old(lines), patches, 0)"),
            index="pi", var_types={"first": "int", "last": "int", "args": ("list", kind)})}
        self.T = world.TRIPLE

    def setup(self, ex):
        lines = fresh(("list", self.kind), "lines")
        patches = fresh(("list", self.T), "patches")
        self.model_vars = [str(lines.val.t), str(patches.val.t)]
        return {"lines": lines, "patches": patches.val}


# R-18a  what the command patterns accept (the contracts above share the match with the code as an uninterpreted function):
#   _patch_re.match / _patch_re_b.match succeed exactly on  digits [',' digits] ('a' | 'c' | 'd') [newline]  - nothing else is
#   a command, so every other line is "malformed" and raises ValueError.
SPEC_CMD = re.compile(r"\d+(?:,\d+)?(?:a|c|d)\n?")
SPEC_CMD_B = re.compile(rb"[0-9]+(?:,[0-9]+)?(?:a|c|d)\n?")


def command_language(ctx):
    from vf import rx
    from vf.pyvc import extract
    from vf.runner import Unsupported
    mod = extract.load(MOD)
    real = mod.real()
    for nm, spec in (("_patch_re", SPEC_CMD), ("_patch_re_b", SPEC_CMD_B)):
        pat = getattr(real, nm, None)
        fq = MOD + ":" + nm
        if pat is None:
            ctx.mark_unproved(fq, "module-level pattern %s is gone" % nm)
            continue
        ctx.function_under_contract(fq, "%r flags=%d" % (pat.pattern, pat.flags))
        try:
            env = rx.Env(is_bytes=isinstance(pat.pattern, bytes))
            p = env.add(pat, name=nm)
            sp = env.add(spec, name="ed command (specification)")
            env.add_chars("acdACD,\n 0")
            env.finalize()
            code, want = env.lang(p, "match"), env.lang(sp, "fullmatch")
        except Unsupported as e:
            ctx.mark_unproved(fq, "unsupported: %s" % e)
            continue

        def replay(model, env=env, pat=pat, spec=spec):
            w = env.realize(model.get("w", ""))
            if isinstance(pat.pattern, bytes):
                w = w.encode("latin-1", "replace") if isinstance(w, str) else w
            got, exp = pat.match(w) is not None, spec.fullmatch(w) is not None
            return {"confirmed": got != exp, "line": repr(w), "pattern_accepts": got, "is_a_command": exp}
        smt, var = env.claim_equal(code, want)
        ctx.vc("R-18a %s.match accepts exactly the ed commands (digits[,digits](a|c|d)[newline])" % nm, fq, smt, theory="str",
               model_vars=[var], replay=replay, kind="rx")
    ctx.solve()


def run(ctx):
    for kind in ("str", "bytes"):
        w = build_world(kind)
        w.spec_env  # noqa
        sl = w.speclib
        old_flat, old_sorts, old_formal = sl._flatten, sl._flat_sorts, sl._formal

        def _flat_sorts(k, w=w, old=old_sorts):
            if k == "list:triple":
                return [sort_of(("list", w.TRIPLE))]
            return old(k)

        def _flatten(k, v, sl=sl, old=old_flat):
            if k == "list:triple":
                return [sl.seqval(v).t]
            return old(k, v)

        def _formal(k, nm, w=w, old=old_formal):
            if k == "list:triple":
                t = z3.Const(fresh_name("rf_" + nm), sort_of(("list", w.TRIPLE)))
                return [t], VSeq("list", w.TRIPLE, t)
            return old(k, nm)
        sl._flat_sorts, sl._flatten, sl._formal = _flat_sorts, _flatten, _formal
        cs = [PatchesFromEd(kind, w), PatchLines(kind, w)]
        for c in cs:
            c.__class__ = type(c.__class__.__name__ + "_" + kind, (c.__class__,), {})
            w.add_contract(c)
        verify_contracts(ctx, w, cs, {})
    ctx.solve()
    command_language(ctx)
    run_bounded(ctx)
    ctx.level = "other"
    ctx.explanation = (
        "PROVED (all scripts, all line lists, str and bytes): patches_from_ed_script yields exactly the triples of the "
        "recursive spec parser ed_patches and raises ValueError exactly when the script is not well formed (bad "
        "command, 'a' with a range, unterminated text block, explicit empty string); patch_lines is the fold of Python "
        "slice assignments over the patches. The command regex is shared between code and spec as uninterpreted "
        "(matches?, groups) functions; R-18a proves on the real pattern objects (str and bytes) that they accept exactly the lines "
        "digits[,digits](a|c|d)[newline] - every other line is a malformed command. BOUNDED: end-to-end "
        "application against two independent differs; the link 'slice assignment of triple(cmd) == POSIX ed meaning'.")
    ctx.assumptions += ["A-SEM", "A-GEN: the generator is consumed by a single consumer that does not mutate `source`",
                        "recursive spec functions ed_ok/ed_patches/ed_block_end/ed_fold terminate (index increases)",
                        "regex facts used by the control-flow proof: group 3 of _patch_re is one of a/c/d, groups 1 and 2 "
                        "are accepted by int() (trusted here, exercised by B-18)",
                        "command addresses are valid for the file (ed would reject others): domain of the property"]


def replay(ctx, data):
    inp = data.get("inputs") or {}
    if "script" in inp and "old" in inp:
        try:
            got = _apply(inp["script"], inp["old"], inp.get("bytes", False))
        except ValueError:
            got = "ValueError"
        except Exception as e:
            got = repr(e)
        if "new" in inp:
            return got == inp["new"]
        return got == "ValueError"
    return True


# ------------------------------------------------------------------------------------------------
# B-18 bounded stand-in (never counted as proved): pairs (old, new) with an ed script derived by
# two independent differs; scripts with one corrupted command; unterminated text blocks.

def _ed_script_difflib(old, new):
    import difflib
    sm = difflib.SequenceMatcher(a=old, b=new, autojunk=False)
    out = []
    for tag, i1, i2, j1, j2 in reversed(sm.get_opcodes()):
        if tag == "equal":
            continue
        if tag == "delete":
            out.append("%d%sd\n" % (i1 + 1, "" if i2 - i1 == 1 else ",%d" % i2))
        elif tag == "insert":
            out.append("%da\n" % i1)
            out.extend(new[j1:j2])
            out.append(".\n")
        else:
            out.append("%d%sc\n" % (i1 + 1, "" if i2 - i1 == 1 else ",%d" % i2))
            out.extend(new[j1:j2])
            out.append(".\n")
    return out


def _ed_script_split(old, new):
    """a valid ed script in which every change is a deletion followed by an append at the same place, and multi-line
    deletions are single-line deletions: consecutive commands touch each other (adjacent, never overlapping)"""
    import difflib
    sm = difflib.SequenceMatcher(a=old, b=new, autojunk=False)
    out = []
    for tag, i1, i2, j1, j2 in reversed(sm.get_opcodes()):
        if tag == "equal":
            continue
        if tag in ("delete", "replace"):
            for k in range(i2, i1, -1):
                out.append("%dd\n" % k)
        if tag in ("insert", "replace"):
            out.append("%da\n" % i1)
            out.extend(new[j1:j2])
            out.append(".\n")
    return out


def _ed_script_diff(old, new, tmpdir):
    a, b = os.path.join(tmpdir, "a"), os.path.join(tmpdir, "b")
    open(a, "wb").write("".join(old).encode("utf-8"))            # bytes in, bytes out: no newline translation anywhere
    open(b, "wb").write("".join(new).encode("utf-8"))
    r = subprocess.run(["diff", "-e", a, b], capture_output=True)
    if r.returncode not in (0, 1):
        return None
    out = r.stdout.decode("utf-8")
    return [l for l in re.split(r"(?<=\n)", out) if l]           # lines end at "\n" only (not at FF, U+2028 ... as splitlines would)


def _apply(script, old, as_bytes, materialize=False):
    from debian import debian_support as ds
    if as_bytes:
        script = [s.encode() for s in script]
        lines = [l.encode() for l in old]
    else:
        lines = list(old)
    # the script may be any iterable of lines: a list, or a one-shot source (iterator / generator / open file)
    _apply.calls = getattr(_apply, "calls", 0) + 1
    form = _apply.calls % 4
    if form == 1:
        script = iter(script)
    elif form == 2:
        script = (s for s in script)
    elif form == 3:
        import io
        script = io.BytesIO(b"".join(script)) if as_bytes else io.StringIO("".join(script))
    if materialize:
        # the parsed patches are values of their own: collecting them first and applying them later must give the same
        ds.patch_lines(lines, list(ds.patches_from_ed_script(script)))
    else:
        ds.patch_lines(lines, ds.patches_from_ed_script(script))
    return [l.decode() for l in lines] if as_bytes else lines


def bounded_ed(ctx):
    import shutil
    import tempfile
    rng = random.Random(ctx.seed)
    alphabet = ["x\n", "y\n", ". \n", "..\n", "2a\n", " .\n", ".\t\n", "%s\n", "1,2c\n", "a;b,c\n", "\\n\n", "٣\n", "-----BEGIN PGP SIGNATURE-----\n",
                ".\r\n", "x\x0cy\n"]
    maxlen = 3 if ctx.tier == "quick" else 4
    have_diff = shutil.which("diff") is not None
    tmp = tempfile.mkdtemp(prefix="verif-c18-", dir="/dev/shm" if os.path.isdir("/dev/shm") else None)
    evals, nontrivial, samples = 0, set(), []
    try:
        seqs = [list(t) for n in range(0, maxlen + 1) for t in itertools.product(alphabet[:5], repeat=n)]
        if ctx.tier == "quick":
            seqs = [s for s in seqs if len(s) <= 2] + rng.sample([s for s in seqs if len(s) > 2], 60)
        extra = [[rng.choice(alphabet) for _ in range(rng.randint(0, 5))] for _ in range(40 if ctx.tier == "quick" else 300)]
        seqs += extra
        pairs = [(o, n) for o in seqs for n in seqs]
        if len(pairs) > (4000 if ctx.tier == "quick" else 60000):
            pairs = rng.sample(pairs, 4000 if ctx.tier == "quick" else 60000)
        for k, (old, new) in enumerate(pairs):
            scripts = [("difflib", _ed_script_difflib(old, new))]
            if k % 3 == 0:
                scripts.append(("difflib, deletions and appends as separate adjacent commands", _ed_script_split(old, new)))
            if have_diff and k % (8 if ctx.tier == "quick" else 3) == 0:
                s = _ed_script_diff(old, new, tmp)
                if s is not None:
                    scripts.append(("diff -e", s))
            for origin, script in scripts:
                for as_bytes in (False, True):
                    evals += 1
                    try:
                        got = _apply(script, old, as_bytes, materialize=(evals % 2 == 0))
                        err = None
                    except Exception as e:
                        got, err = None, repr(e)
                    if script:
                        nontrivial.add((tuple(script), as_bytes))
                    if got != new:
                        return evals, nontrivial, samples, dict(
                            what="applying the ed script does not give the target lines", old=old, new=new,
                            script=script, script_from=origin, bytes=as_bytes, patches_collected_in_a_list_first=(evals % 2 == 0), got=got, error=err)
            if len(samples) < 3 and old != new and len(old) >= 2:
                samples.append({"old": old, "new": new, "script": scripts[0][1]})
            # one corrupted command / unterminated block / explicit empty string: ValueError expected
            script = scripts[0][1]
            if script and k % 5 == 0:
                cmd_idx = [i for i, l in enumerate(script) if re.fullmatch(r"\d+(,\d+)?[acd]\n", l)
                           and (i == 0 or script[i - 1] == ".\n" or re.fullmatch(r"\d+(,\d+)?d\n", script[i - 1]))]
                bad = []
                i = rng.choice(cmd_idx)
                for repl in ("q\n", "1x\n", "a\n", "1,2a\n", "-1d\n", "1 d\n", script[i].upper(), "1D\n", " 1d\n", "1d \n", "1,d\n"):
                    bad.append(script[:i] + [repl] + script[i + 1:])
                if script[-1] == ".\n":
                    bad.append(script[:-1])                 # unterminated last text block
                    bad.append(script[:-1] + [""])          # explicit end-of-stream marker inside a block
                for b in bad:
                    for as_bytes in (False, True):
                        evals += 1
                        nontrivial.add((tuple(b), as_bytes, "bad"))
                        try:
                            got = _apply(b, old, as_bytes)
                        except ValueError:
                            continue
                        except Exception as e:
                            return evals, nontrivial, samples, dict(
                                what="malformed script raised %r instead of ValueError" % (e,), old=old, script=b,
                                bytes=as_bytes)
                        return evals, nontrivial, samples, dict(
                            what="malformed script was applied instead of raising ValueError", old=old, script=b,
                            bytes=as_bytes, got=got)
        # sizes no small example reaches: files of thousands of lines with hundreds of hunks (merged and as adjacent single
        # commands), and a file of 1.2 million lines whose commands carry seven-digit addresses
        rng2 = random.Random(18)
        old = ["line %d\n" % i for i in range(4000)]
        new = list(old)
        for k in range(300):
            pos = rng2.randrange(len(new))
            what = rng2.choice(["del", "ins", "chg", "chg2"])
            if what == "del":
                del new[pos:pos + rng2.randint(1, 3)]
            elif what == "ins":
                new[pos:pos] = ["new %d-%d\n" % (k, j) for j in range(rng2.randint(1, 3))]
            else:
                new[pos:pos + (2 if what == "chg2" else 1)] = ["chg %d\n" % k]
        for origin, script in (("difflib", _ed_script_difflib(old, new)),
                               ("difflib, deletions and appends as separate adjacent commands", _ed_script_split(old, new))):
            for as_bytes in (False, True):
                evals += 1
                try:
                    got = _apply(script, old, as_bytes, materialize=as_bytes)
                except Exception as e:
                    return evals, nontrivial, samples, dict(what="a script of %d commands for a 4000-line file raised %r" % (
                        sum(1 for l in script if re.fullmatch(r"\d+(,\d+)?[acd]\n", l)), e), script_from=origin, bytes=as_bytes)
                nontrivial.add(("large", origin, as_bytes))
                if got != new:
                    first = next((i for i, (x, y) in enumerate(zip(got, new)) if x != y), min(len(got), len(new)))
                    return evals, nontrivial, samples, dict(what="applying a script of hundreds of hunks to a 4000-line file does not give the target lines",
                                                            script_from=origin, bytes=as_bytes, first_difference_at_line=first, lines_got=len(got),
                                                            lines_expected=len(new))
        huge = ["l\n"] * 1200000
        script = ["1100001,1100003c\n", "X\n", "Y\n", ".\n", "1000200a\n", "Z\n", ".\n", "1000101,1000103d\n", "1000000d\n", "5c\n", "five\n", ".\n"]
        want = list(huge)
        want[1100000:1100003] = ["X\n", "Y\n"]
        want[1000200:1000200] = ["Z\n"]
        del want[1000100:1000103]
        del want[999999]
        want[4:5] = ["five\n"]
        evals += 1
        try:
            got = _apply(script, huge, False)
        except Exception as e:
            return evals, nontrivial, samples, dict(what="a script with seven-digit addresses raised %r" % (e,), script=script)
        nontrivial.add(("huge",))
        if got != want:
            return evals, nontrivial, samples, dict(what="a script with seven-digit addresses does not give the target lines", script=script,
                                                    lines_got=len(got), lines_expected=len(want))
    finally:
        shutil.rmtree(tmp, ignore_errors=True)
    return evals, nontrivial, samples, None


def run_bounded(ctx):
    ev, nt, samples, fail = bounded_ed(ctx)
    ctx.bounded("B-18 ed scripts from difflib and `diff -e` applied to (old, new) pairs; corrupted commands",
                ev, len(nt), "line lists over {x, y, '. ', '..', '2a', ' .', '.<tab>'} (lines that look like terminators or "
                "commands included); scripts derived independently by difflib opcodes (also with every change split into adjacent single-line deletions and an append) and by diff -e; str and bytes; patches streamed "
                "into patch_lines or collected in a list first (alternating); "
                "each script also with one command corrupted / last block unterminated / explicit '' (ValueError "
                "expected); non-trivial = distinct non-empty (script, str|bytes)",
                "lists of <= %d lines exhaustive over 5 symbols (sampled in quick) + seeded longer ones" % (3 if ctx.tier == "quick" else 4),
                samples)
    if fail:
        ctx.violation("B-18 " + fail["what"], "B-18 bounded: ed script application", fail["what"], inputs=fail,
                      confirmed=True)
