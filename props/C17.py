"""C17  Copyright documents and license texts survive dump and re-parse.

B-17 bounded stand-in (codec / paragraph contracts of DESIGN §5 C17 are not generated yet):
 (a) multiline codec: every list of <= 3/4 lines over a line alphabet (empty, indented, '..', ' .', '. ',
     '  .', 'x y', non-ASCII; whitespace-only and lone '.' only to check the side condition) satisfies
     parse_multiline_as_lines(format_multiline_lines(ls)) == ls whenever no line is whitespace-only or
     a lone '.';
 (b) documents: header + 0-3 Files paragraphs + 0-3 License paragraphs in any interleaving, multi-line
     copyright and license texts with empty lines, indentation and non-ASCII characters: dump ->
     strict parse -> same paragraphs (pattern lists, copyright, synopsis, text) -> identical dump.
"""
import itertools
import random
import warnings

from vf.bounded import Tally
from vf.pyvc import extract

MOD = "debian.copyright"
from vf import tricky
LINES = ["", "a", " b", "x y", "..", " .", ". ", "  .", "é ü", "\ttab", "a ", ".", "  ", " ", "%s", "a;b,c", "-----BEGIN PGP SIGNATURE-----", "#x"]
PATTERNS = ["*", "src/*", "debian/rules", "a?.c", "doc/日本語.txt", "doc/日本語　ガイド.txt", "x\\*y", "é", "data/a,b.txt", "x,", ",", "src/\\d*.c", "trailing\\"]
TEXTS = ["line1", "line1\n\n  indented\nlast", "é ü\n\n\nx", "a\n .\nb", "  lead", "t\n. \n  .\nend", "", "ends with blanks  ",
         "l1\nlast line\t ", "a\nb\u3000",
         "quoted statement:\n-----BEGIN PGP SIGNED MESSAGE-----\nHash: SHA256\n\nbody\n-----BEGIN PGP SIGNATURE-----\nabc=\n-----END PGP SIGNATURE-----\nafter",
         "-----END PGP PUBLIC KEY BLOCK-----", "\nsecond line after an empty first line", "\n\n  x", "Rene\u0301 Mu\u0308ller\n\u212b \u2126 \ufb01 (not in a Unicode normal form)"]
SYNOPSES = ["GPL-2+", "MIT or Expat", "X", "GPL-2+ with exception"]
COPYRIGHTS = ["2020 A", "2020 A\n 2021 B <b@c>", "© é", "", "2020 Rene\u0301 \u212b", "2020 A\n 2021 B  ", "2020 A\n -----BEGIN PGP SIGNATURE-----\n 2021 B"]


def in_domain(ls):
    return all(not (l != "" and l.strip() == "") and l != "." for l in ls) and ls != [""]


# ------------------------------------------------------------------------------------------------
# P-17a: the multiline codec functions against per-line specs; round trip of one line as a lemma
import z3
from vf.pyvc.speclib import SpecLib
from vf.pyvc.world import World, Contract
from vf.pyvc.interp import LoopSpec
from vf.pyvc.values import VSeq, VFunc, fresh, fresh_name
from vf.pyvc.driver import verify_contracts, verify_lemmas, Lemma


def fmt_line(i, line):
    """what format_multiline_lines does to line i"""
    if i == 0:
        return line
    if not line.strip():
        return " ."
    return " " + line


def fmt_upto(ls, k):
    if k <= 0:
        return empty_lines()
    return fmt_upto(ls, k - 1) + [fmt_line(k - 1, ls[k - 1])]


def dec_line(i, line):
    """what parse_multiline_as_lines does to line i (for lines that start with a blank)"""
    if i == 0:
        return line
    if line[1:] == ".":
        return ""
    return line[1:]


class FormatLines(Contract):
    locals_order = ['lines', 'out_lines', 'i', 'line']
    target = MOD + ":format_multiline_lines"
    modular = False
    ensures = ("result == '\\n'.join(fmt_upto(lines, len(lines)))",)
    loops = {0: LoopSpec(invariants=("out_lines == fmt_upto(lines, fi)", "0 <= fi and fi <= len(lines)",
                                     "mention(fmt_upto(lines, fi + 1))"),
                         index="fi", var_types={"i": "int", "line": "str", "out_lines": ("list", "str")})}
    locals_order = ["lines", "out_lines", "i", "line"]

    def setup(self, ex):
        return {"lines": fresh(("list", "str"), "lines").val}


class LineRoundTrip(Lemma):
    name = "decoding an encoded line gives the line back"
    function = "spec:fmt_line"
    params = (("i", "int"), ("line", "str"))
    # side condition of the property: the line is not whitespace-only (empty is fine) and not a lone '.'
    requires = ("i >= 0", "line == '' or len(line.strip()) > 0", "line != '.'")
    claim = "dec_line(i, fmt_line(i, line)) == line and (i == 0 or fmt_line(i, line).startswith(' '))"


# P-17c  _SpaceSeparated.to_str (what assigning a pattern list to `files` stores): None for an empty list; otherwise the values,
# each stripped, joined by exactly one blank, in order; MachineReadableFormatError iff a value contains whitespace or is empty.
def strip_all(l):
    if len(l) == 0:
        return empty_lines()
    return [l[0].strip()] + strip_all(l[1:])


def all_plain(l):
    if len(l) == 0:
        return True
    return (not has_space(l[0])) and len(l[0].strip()) > 0 and all_plain(l[1:])


class SpaceSeparatedToStr(Contract):
    locals_order = ['cls', 'seq', 'l', 'tmp', 's']
    target = MOD + ":_SpaceSeparated.to_str"
    modular = False
    ensures = ("all_plain(seq)", "implies(len(seq) == 0, result is None)",
               "implies(len(seq) > 0, result == ' '.join(strip_all(seq)))")
    raises = {"MachineReadableFormatError": ("not all_plain(seq)",)}
    loops = {0: LoopSpec(invariants=("0 <= si and si <= len(l)", "l == seq", "tmp + strip_all(l[si:]) == strip_all(l)",
                                     "all_plain(l[si:]) == all_plain(l)"),
                         index="si", var_types={"s": "str", "tmp": ("list", "str")})}

    def setup(self, ex):
        return {"cls": ex.eval_text("_SpaceSeparated"), "seq": fresh(("list", "str"), "seq").val}


# P-17d  _LineBased.to_str (how the copyright-holder / file lists of a header are stored): None for an empty list, the stripped
# value for one element, otherwise an empty first line and ' ' + stripped value per element, joined by newlines, in order;
# MachineReadableFormatError iff a stripped value is empty or contains a newline.
def lines_of(l):
    if len(l) == 0:
        return empty_lines()
    return [" " + l[0].strip()] + lines_of(l[1:])


def all_lines_ok(l):
    if len(l) == 0:
        return True
    return len(l[0].strip()) > 0 and ("\n" not in l[0].strip()) and all_lines_ok(l[1:])


class LineBasedToStr(Contract):
    locals_order = ['seq', 'l', 'process_and_validate', 'tmp', 's']
    target = MOD + ":_LineBased.to_str"
    modular = False
    requires = ("mention(all_lines_ok(seq[1:]))",)       # (always true: asks for the unfolding of the predicate on the tail)
    ensures = ("all_lines_ok(seq)", "implies(len(seq) == 0, result is None)",
               "implies(len(seq) == 1, result == seq[0].strip())",
               "implies(len(seq) > 1, result == '\\n'.join([''] + lines_of(seq)))")
    raises = {"MachineReadableFormatError": ("not all_lines_ok(seq)",)}
    loops = {0: LoopSpec(invariants=("0 <= si and si <= len(l)", "l == seq", "tmp + lines_of(l[si:]) == [''] + lines_of(l)",
                                     "all_lines_ok(l[si:]) == all_lines_ok(l)"),
                         index="si", var_types={"s": "str", "tmp": ("list", "str")})}

    def setup(self, ex):
        return {"seq": fresh(("list", "str"), "seq").val}


# P-17e  parse_multiline_as_lines (the reader of every multi-line field): the first line as it is, every later line without its
# leading blank, a lone '.' after the blank standing for an empty line; MachineReadableFormatError exactly when a later line does
# not start with a blank.  str.splitlines is an uninterpreted function here (the same application in code and contract), the
# list is edited in place while it is being enumerated.
def dec_upto(ls, k):
    if k <= 0:
        return empty_lines()
    return dec_upto(ls, k - 1) + [dec_line(k - 1, ls[k - 1])]


def cont_from(ls, k):
    """every line from index k on, the first line of the text excepted, starts with a blank"""
    if k >= len(ls):
        return True
    return (k == 0 or ls[k].startswith(" ")) and cont_from(ls, k + 1)


class ParseLines(Contract):
    locals_order = ['s', 'lines', 'i', 'line']
    target = MOD + ":parse_multiline_as_lines"
    modular = False
    ensures = ("cont_from(s.splitlines(), 0)",
               "result == dec_upto(s.splitlines(), len(s.splitlines()))")
    raises = {"MachineReadableFormatError": ("not cont_from(s.splitlines(), 0)",)}
    loops = {0: LoopSpec(invariants=("0 <= pi and pi <= len(lines)", "len(lines) == len(s.splitlines())",
                                     "lines[:pi] == dec_upto(s.splitlines(), pi)", "lines[pi:] == s.splitlines()[pi:]",
                                     "cont_from(s.splitlines(), pi) == cont_from(s.splitlines(), 0)",
                                     "mention(dec_upto(s.splitlines(), pi + 1))", "mention(cont_from(s.splitlines(), pi + 1))"),
                         index="pi", var_types={"i": "int", "line": "str"})}

    def setup(self, ex):
        return {"s": fresh("str", "s")}


# P-17f  the two entry points every caller goes through: None stays None, anything else is split with str.splitlines and handed to
# the list functions above, which are used through their CONTRACTS here (modular calls)
class FormatLinesAbs(Contract):
    target = MOD + ":format_multiline_lines"
    modular = True
    returns = "str"
    ensures = FormatLines.ensures


class ParseLinesAbs(Contract):
    target = MOD + ":parse_multiline_as_lines"
    modular = True
    returns = ("list", "str")
    ensures = ("cont_from(s.splitlines(), 0)", "result == dec_upto(s.splitlines(), len(s.splitlines()))")
    raises = {"MachineReadableFormatError": ("not cont_from(s.splitlines(), 0)",)}
    raises_modifies = {"MachineReadableFormatError": ()}


class FormatMultiline(Contract):
    locals_order = ['s']
    target = MOD + ":format_multiline"
    modular = False
    ensures = ("implies(s is None, result is None)",
               "implies(s is not None, result == '\\n'.join(fmt_upto(s.splitlines(), len(s.splitlines()))))")

    def setup(self, ex):
        return {"s": fresh(("opt", "str"), "s")}


class ParseMultiline(Contract):
    locals_order = ['s']
    target = MOD + ":parse_multiline"
    modular = False
    ensures = ("implies(s is None, result is None)",
               "implies(s is not None, cont_from(s.splitlines(), 0))",
               "implies(s is not None, result == '\\n'.join(dec_upto(s.splitlines(), len(s.splitlines()))))")
    raises = {"MachineReadableFormatError": ("s is not None", "not cont_from(s.splitlines(), 0)")}

    def setup(self, ex):
        return {"s": fresh(("opt", "str"), "s")}


# P-17g  License.to_str: the text a License object is stored as - the synopsis followed by the lines of the text, through the
# encoder's contract (so: synopsis as it is, every text line behind one blank, whitespace-only lines as ' .')
class LicenseToStr(Contract):
    locals_order = ['self']
    target = MOD + ":License.to_str"
    modular = False
    ensures = ("result == '\\n'.join(fmt_upto([self.synopsis] + self.text.splitlines(), 1 + len(self.text.splitlines())))",)

    def setup(self, ex):
        from vf.pyvc.values import VObj
        return {"self": VObj("License", {"synopsis": fresh("str", "synopsis"), "text": fresh("str", "text")}, "self")}


def verify_entry_points(ctx):
    sl = SpecLib()
    w = World(sl)
    w.spec_env["empty_lines"] = VFunc("builtin", "empty_lines",
                                      fn=lambda ex, a, kw: VSeq("list", "str", z3.Empty(z3.SeqSort(z3.SeqSort(z3.IntSort())))))
    for f in (fmt_line, dec_line):
        w.spec_func(f)
    w.spec_func(fmt_upto, rec=dict(args=[("list", "str"), "int"], ret=("list", "str")))
    w.spec_func(dec_upto, rec=dict(args=[("list", "str"), "int"], ret=("list", "str")))
    w.spec_func(cont_from, rec=dict(args=[("list", "str"), "int"], ret="bool"))
    w.add_contract(FormatLinesAbs())
    w.add_contract(ParseLinesAbs())
    verify_contracts(ctx, w, [FormatMultiline(), ParseMultiline(), LicenseToStr()], {})
    ctx.solve()


def verify_parse_lines(ctx):
    sl = SpecLib()
    w = World(sl)
    w.spec_env["empty_lines"] = VFunc("builtin", "empty_lines",
                                      fn=lambda ex, a, kw: VSeq("list", "str", z3.Empty(z3.SeqSort(z3.SeqSort(z3.IntSort())))))
    w.spec_func(dec_line)
    w.spec_func(dec_upto, rec=dict(args=[("list", "str"), "int"], ret=("list", "str")))
    w.spec_func(cont_from, rec=dict(args=[("list", "str"), "int"], ret="bool"))
    verify_contracts(ctx, w, [ParseLines()], {})
    ctx.solve()


def verify_space_separated(ctx, real):
    sl = SpecLib()
    w = World(sl)
    pat = real._SpaceSeparated._has_space
    w.spec_env["has_space"] = VFunc("builtin", "re_test",
                                    fn=lambda ex, a, kw: __import__("vf.pyvc.values", fromlist=["VBool"]).VBool(ex.truth(sl.re_match(ex, pat, a[0], "search"))))
    w.spec_env["empty_lines"] = VFunc("builtin", "empty_lines",
                                      fn=lambda ex, a, kw: VSeq("list", "str", z3.Empty(z3.SeqSort(z3.SeqSort(z3.IntSort())))))
    w.spec_func(strip_all, rec=dict(args=[("list", "str")], ret=("list", "str")))
    w.spec_func(all_plain, rec=dict(args=[("list", "str")], ret="bool"))
    w.spec_func(lines_of, rec=dict(args=[("list", "str")], ret=("list", "str")))
    w.spec_func(all_lines_ok, rec=dict(args=[("list", "str")], ret="bool"))
    verify_contracts(ctx, w, [SpaceSeparatedToStr(), LineBasedToStr()], {})
    ctx.solve()


def run_deductive(ctx):
    sl = SpecLib()
    w = World(sl)
    w.spec_env["empty_lines"] = VFunc("builtin", "empty_lines",
                                      fn=lambda ex, a, kw: VSeq("list", "str", z3.Empty(z3.SeqSort(z3.SeqSort(z3.IntSort())))))
    for f in (fmt_line, dec_line):
        w.spec_func(f)
    w.spec_func(fmt_upto, rec=dict(args=[("list", "str"), "int"], ret=("list", "str")))
    c = FormatLines()
    verify_contracts(ctx, w, [c], {})
    verify_lemmas(ctx, w, [LineRoundTrip()])
    ctx.solve()


def run(ctx):
    mod = extract.load(MOD)
    real = mod.real()
    # every line of a copyright / license text is dumped as a continuation line of a Deb822 paragraph: the reader must never
    # take such a line for an armor line or a paragraph separator (same lemmas as C08, on the patterns of debian.deb822)
    from props import C08 as _c08
    _c08.armor_lemmas(ctx, extract.load("debian.deb822").real(), tag="R-17d")
    from props import C02 as _c02
    _c02.verify_split_gpg(ctx, extract.load("debian.deb822").real())
    _c02.verify_internal_parser(ctx, extract.load("debian.deb822").real())
    _c08.run_dump_format(ctx)
    for q in ("format_multiline", "parse_multiline", "format_multiline_lines", "parse_multiline_as_lines", "License.from_str", "License.to_str", "_SpaceSeparated.from_str",
              "_SpaceSeparated.to_str", "_LineBased.from_str", "_LineBased.to_str", "Copyright.__init__", "Copyright.dump"):
        node, _ = mod.lookup(q)
        if node is not None:
            ctx.function_under_contract(MOD + ":" + q, mod.segment(node))
    run_deductive(ctx)
    verify_space_separated(ctx, extract.load(MOD).real())
    verify_parse_lines(ctx)
    verify_entry_points(ctx)
    rng = random.Random(ctx.seed)
    N = 3 if ctx.tier == "quick" else 4
    t = Tally(ctx, "B-17 multiline codec on all short line lists; documents dump -> strict parse -> dump",
              "(a) all line lists of length <= %d over %d lines; (b) seeded documents of 0-3 Files and 0-3 License paragraphs over 8 "
              "patterns (one with U+3000, which must either be refused at construction or survive), 7 license texts, 4 synopses, 3 "
              "copyright texts; non-trivial = distinct in-domain line lists of length >= 2 and distinct documents" % (N, len(LINES)),
              "line lists <= %d; documents seeded" % N)
    for n in range(0, N + 1):
        for ls in itertools.product(LINES, repeat=n):
            ls = list(ls)
            if not in_domain(ls):
                continue
            try:
                enc = real.format_multiline_lines(ls)
                dec = real.parse_multiline_as_lines(enc)
            except Exception as e:
                t.failed("codec raised %r" % (e,), lines=ls)
                break
            t.case(key=tuple(ls) if len(ls) >= 2 else None)
            if dec != ls:
                t.failed("decode(encode(lines)) != lines", lines=ls, encoded=enc, decoded=dec)
                break
            # the string wrappers are the same codec on '\n'-joined text (and None stays None)
            try:
                joined = "\n".join(ls)
                enc_s = real.format_multiline(joined)
                dec_s = real.parse_multiline(enc_s)
                none_ok = real.format_multiline(None) is None and real.parse_multiline(None) is None
            except Exception as e:
                t.failed("the string wrappers of the codec raised %r" % (e,), lines=ls)
                break
            if joined.splitlines() == ls and (enc_s != enc or dec_s != joined or not none_ok):
                t.failed("format_multiline / parse_multiline differ from the list versions", lines=ls, encoded=enc_s, decoded=dec_s,
                         list_version_encoded=enc)
                break
            # the decoded list is the caller's: changing it does not change what the same text decodes to next time
            try:
                dec.append("changed by the caller")
                del dec[0]
                again = real.parse_multiline_as_lines(enc)
            except Exception as e:
                t.failed("decoding the same text a second time raised %r" % (e,), lines=ls)
                break
            if again != ls:
                t.failed("decoding the same text again, after the caller changed the first result, gives other lines", lines=ls,
                         encoded=enc, decoded_again=again)
                break
        if t.fail:
            break
    rounds = 4000 if ctx.tier == "quick" else 25000
    for _ in range(rounds if not t.fail else 0):
        try:
            cp = real.Copyright()
            cp.header.upstream_name = rng.choice(["foo", "é"])
            model = []
            for _p in range(rng.randint(0, 5)):
                if rng.random() < 0.6:
                    files = rng.sample(PATTERNS, rng.randint(1, 3))
                    cr = rng.choice(COPYRIGHTS)
                    lic = real.License(rng.choice(SYNOPSES), rng.choice(TEXTS))
                    if rng.random() < 0.08:
                        lic = real.License("")          # an empty License field, the last field of the paragraph
                    cp.add_files_paragraph(real.FilesParagraph.create(files, cr, lic))
                    last = max([i for i, m in enumerate(model) if m[0] == "files"], default=-1)
                    model.insert(last + 1, ("files", tuple(files), cr, (lic.synopsis, lic.text)))
                else:
                    lic = real.License(rng.choice(SYNOPSES), rng.choice([x for x in TEXTS if x]))
                    cp.add_license_paragraph(real.LicenseParagraph.create(lic))
                    model.append(("license", (lic.synopsis, lic.text)))
        except real.MachineReadableFormatError:
            continue                 # the library refused to build this document: nothing is claimed
        except Exception as e:
            t.failed("building a document raised %r" % (e,))
            break
        # an assignment the paragraph refuses (an empty line inside the value) leaves the document as it was
        if rng.random() < 0.3:
            fps = [p for p in cp.all_paragraphs() if isinstance(p, real.FilesParagraph)]
            if fps:
                try:
                    before = cp.dump()
                    fp = rng.choice(fps)
                    try:
                        if rng.random() < 0.5:
                            fp.copyright = "2020 A\n\n2021 B"
                        else:
                            fp.comment = "first\n\nsecond"
                        refused = False
                    except ValueError:
                        refused = True
                    after = cp.dump()
                except Exception as e:
                    t.failed("a refused assignment raised %r" % (e,))
                    break
                if refused and after != before:
                    t.failed("an assignment that was refused with ValueError changed the document", before=before, after=after)
                    break
                if not refused:
                    t.failed("a value with an empty line was accepted into a copyright paragraph", after=after)
                    break
        try:
            text = cp.dump()
            with warnings.catch_warnings():
                warnings.simplefilter("error")
                cp2 = real.Copyright(text.splitlines(True), strict=True)
            got = []
            for p in cp2.all_paragraphs():
                if isinstance(p, real.FilesParagraph):
                    got.append(("files", tuple(p.files), p.copyright, (p.license.synopsis, p.license.text)))
                elif isinstance(p, real.LicenseParagraph):
                    got.append(("license", (p.license.synopsis, p.license.text)))
            text2 = cp2.dump()
            # dumping into a text file object writes the same text as dump() returns
            import io as _io
            _f = _io.StringIO()
            if cp.dump(_f) is not None or _f.getvalue() != text:
                raise AssertionError("dump(f) wrote %r, dump() returns %r" % (_f.getvalue(), text))
        except Exception as e:
            t.failed("dump / strict re-parse raised %r" % (e,), model=repr(model))
            break
        t.case(key=text, sample={"document": text} if len(model) == 2 else None)
        if got != model:
            t.failed("re-parsed paragraphs differ", document=text, got=repr(got), expected=repr(model))
            break
        if text2 != text:
            t.failed("dump of the re-parsed document differs", document=text, second=text2)
            break
    if not t.fail:
        large_documents(real, t)
    t.done()
    ctx.level = "other"
    ctx.explanation = ("PROVED from the AST: format_multiline_lines(lines) == '\\n'.join of the per-line encoding fmt_line (loop invariant); "
                       "LEMMA (all lines): decoding an encoded line gives the line back whenever it is not whitespace-only and not a "
                       "lone '.', and every encoded continuation line starts with a blank; a continuation line is never taken for a "
                       "PGP armor line or a paragraph separator by the patterns of split_gpg_and_payload (SMT on the real patterns); split_gpg_and_payload, from its real AST, returns exactly the lines (CR / LF stripped) as payload - nothing taken for armor, nothing cut off - for every sequence of lines none of which matches the armor pattern or the separator pattern in force (loop invariant over the line index; both parser settings). ALSO PROVED from the ASTs: _SpaceSeparated.to_str and _LineBased.to_str against recursive specifications (every value stripped, in order, joined by exactly one blank resp. each on a line of its own after an empty first line; None for an empty list; MachineReadableFormatError exactly when a value is empty or contains whitespace resp. a newline). ALSO PROVED from the AST: parse_multiline_as_lines against a recursive per-line decoding of s.splitlines() (first line kept, "
                       "later lines without their leading blank, a lone '.' after it standing for an empty line; list edited in place while "
                       "enumerated; MachineReadableFormatError exactly when a later line does not start with a blank) - str.splitlines "
                       "itself is an uninterpreted function; the entry points format_multiline / parse_multiline (None stays None, otherwise splitlines + the list function, used through its contract - a modular call - and joined with newlines); License.to_str == the encoder's contract applied to the synopsis followed by the lines of the text. NOT proved: the join/splitlines law, License / paragraph classes - BOUNDED part (see module docstring).")
    ctx.assumptions += ["the single empty line list [''] is outside the domain of the codec clause (it encodes to '' which decodes to [])",
                        "lines contain no line-boundary characters"]


def large_documents(real, t):
    """sizes no small example reaches: hundreds of paragraphs, licence texts of thousands of lines, long pattern lists with
    hyphenated patterns, documents beyond 64 KiB re-read from str, lines and file objects - same statement as for the small ones"""
    import io
    try:
        cp = real.Copyright()
        cp.header.upstream_name = "big"
        model = []
        for i in range(300):
            files = ["src/dir-%03d/*" % i, "tests/data/test-fixtures-%d/*" % i] + ["vendor/third-party/lib-%03d/*" % j for j in range(i % 7)]
            lic = real.License("L-%d" % (i % 5), "text %d\n\n  indented\nlast" % i if i % 3 else "")
            cp.add_files_paragraph(real.FilesParagraph.create(files, "2020 A %d\n 2021 B" % i, lic))
            model.append(("files", tuple(files), "2020 A %d\n 2021 B" % i, (lic.synopsis, lic.text)))
        big_text = "\n".join("line %d of a long licence %s" % (i, "w " * 20) if i % 50 else "" for i in range(2500)).strip()
        for i in range(40):
            lic = real.License("Big-%d" % i, big_text if i % 10 == 0 else "short %d" % i)
            cp.add_license_paragraph(real.LicenseParagraph.create(lic))
            model.append(("license", (lic.synopsis, lic.text)))
        text = cp.dump()
        f = io.StringIO()
        cp.dump(f)
        if f.getvalue() != text:
            t.failed("large document: dump(f) differs from dump()", size=len(text), written=len(f.getvalue()))
            return
        for how, mk in (("list of lines", lambda: text.splitlines(True)), ("str via sequence=", None), ("text file object", lambda: io.StringIO(text))):
            with warnings.catch_warnings():
                warnings.simplefilter("error")
                cp2 = real.Copyright(sequence=text.splitlines(True), strict=True) if mk is None else real.Copyright(mk(), strict=True)
            got = []
            for p in cp2.all_paragraphs():
                if isinstance(p, real.FilesParagraph):
                    got.append(("files", tuple(p.files), p.copyright, (p.license.synopsis, p.license.text)))
                elif isinstance(p, real.LicenseParagraph):
                    got.append(("license", (p.license.synopsis, p.license.text)))
            t.case(key=("large document", how))
            if got != model or cp2.dump() != text:
                first = next((i for i, (a, b) in enumerate(zip(got, model)) if a != b), min(len(got), len(model)))
                t.failed("large document: strict re-parse gives other paragraphs / another dump", size=len(text), given_as=how,
                         paragraphs_expected=len(model), paragraphs_got=len(got), first_difference_at_paragraph=first,
                         got=repr(got[first])[:300] if first < len(got) else None, expected=repr(model[first])[:300] if first < len(model) else None)
                return
    except Exception as e:
        t.failed("large document raised %r" % (e,))


def replay(ctx, data):
    return True
