"""C10  Structural edits of a preserved document only move or insert whole elements.

B-10 bounded stand-in (the Dup-invariant contracts of DESIGN §5 C10 are not generated yet): generated
documents with unique or duplicated field names x histories of order_first/last/before/after (by
name, by (name, index)), sort_fields, indexed / unindexed set and delete, file insert / append.
Reference: every field is its exact text (attached comments included) from an independent scanner;
the expected dump is the model's field texts in model order with the untouched text between
paragraphs; a missing newline at the very end may be supplied.  After every step the dump is
compared byte-wise, re-scanned, re-parsed, and every (name, i) key is resolved and compared.
"""
import random

from vf.bounded import Tally
from vf.pyvc import extract
from vf import repro_model as rm

MOD = "debian._deb822_repro.parsing"


def complete(s):
    return s if s.endswith("\n") else s + "\n"


class Model:
    """file = leading raw text, then paragraphs [field texts], each followed by raw text"""

    def __init__(self, text):
        paras = rm.scan(text)
        self.lead = text[:paras[0][0].cstart] if paras else text
        self.paras = []
        self.raw = []
        for i, p in enumerate(paras):
            self.paras.append([(f.name, text[f.cstart:f.end], f.value) for f in p])
            nxt = paras[i + 1][0].cstart if i + 1 < len(paras) else len(text)
            self.raw.append(text[p[-1].end:nxt])

    def render(self):
        out = self.lead
        for i, p in enumerate(self.paras):
            for j, (n, t, v) in enumerate(p):
                last_of_doc = (i == len(self.paras) - 1 and j == len(p) - 1 and self.raw[i] == "")
                out += t if last_of_doc else complete(t)
            out += self.raw[i]
        return out

    def occ(self, pi, name):
        return [k for k, (n, t, v) in enumerate(self.paras[pi]) if n.lower() == name.lower()]


def same_text(out, exp):
    return out == exp or (not exp.endswith("\n") and out == exp + "\n")


def run(ctx):
    mod = extract.load(MOD)
    import debian._deb822_repro as repro
    # P-10a: the order of a paragraph without duplicated fields IS an OrderedSet (self._kvpair_order); its order_first /
    # order_last / order_before / order_after call OrderedSet.order_* and nothing else touches the order.  Those, and the
    # LinkedList they are built on (also the element list of the duplicate-field paragraphs), are verified here from the
    # real AST of debian._util against the reference list model (same contracts as C09).
    from props import C09 as _c09
    _c09.verify_ordering_machinery(ctx)
    from debian._deb822_repro.parsing import Deb822ParagraphElement
    for q in ("Deb822DuplicateFieldsParagraphElement.order_first", "Deb822DuplicateFieldsParagraphElement.order_last",
              "Deb822DuplicateFieldsParagraphElement.order_before", "Deb822DuplicateFieldsParagraphElement.order_after",
              "Deb822DuplicateFieldsParagraphElement._regenerate_relative_kvapir_order",
              "Deb822DuplicateFieldsParagraphElement.set_kvpair_element", "Deb822DuplicateFieldsParagraphElement.remove_kvpair_element",
              "Deb822DuplicateFieldsParagraphElement.sort_fields", "Deb822NoDuplicateFieldsParagraphElement.sort_fields",
              "Deb822FileElement.insert", "Deb822FileElement.append"):
        node, _ = mod.lookup(q)
        if node is not None:
            ctx.function_under_contract(MOD + ":" + q, mod.segment(node))
    rng = random.Random(ctx.seed)
    rounds = 2500 if ctx.tier == "quick" else 40000
    t = Tally(ctx, "B-10 structural edits vs a reference list model of field texts",
              "generated documents (unique or duplicated names, attached/inner/free comments, with/without final newline) x "
              "histories of 1-4 operations: order_first/last/before/after by name (in any capitalisation) or (name, i), sort_fields (default, tie, case-sensitive and raising keys), indexed and unindexed "
              "set / delete, insert / append of paragraphs; byte comparison of the dump (a missing final newline may be supplied), "
              "re-parse, resolution of every (name, i); non-trivial = distinct (document, history)", "%d histories" % rounds)
    for _ in range(rounds):
        dup = rng.random() < 0.6
        doc = rm.gen_doc(rng, dup=dup)
        try:
            d = repro.parse_deb822_file(doc.splitlines(True), accept_files_with_duplicated_fields=True)
            twin, twin_text = repro.parse_deb822_file(doc.splitlines(True), accept_files_with_duplicated_fields=True), doc     # a second, untouched document from the same text
        except Exception as e:
            t.failed("generated document rejected: %r" % (e,), document=doc)
            break
        m = Model(doc)
        ops = []
        bad = False
        for step in range(rng.randint(1, 4)):
            pars = list(d)
            if len(pars) != len(m.paras):
                bad = t.failed("paragraph count differs from the model", document=doc, operations=ops)
                break
            pi = rng.randrange(len(pars))
            p, mp = pars[pi], m.paras[pi]
            names = sorted({n for n, _, _ in mp})
            op = rng.choice(["first", "last", "before", "after", "sort", "sort-tie", "sort-raise", "set", "del", "insert", "append"])
            exp_exc = None
            try:
                if op in ("first", "last", "before", "after"):
                    name = rng.choice(names)
                    occ = m.occ(pi, name)
                    indexed = rng.random() < 0.5
                    idx = rng.randrange(len(occ)) if indexed else None
                    # the caller may spell the name in any case: the document keeps its own spelling
                    respell = lambda nm: rng.choice([nm, nm, nm.upper(), nm.lower(), nm.swapcase()])
                    called = respell(name)
                    key = (called, idx) if indexed else called
                    moving = [occ[idx]] if indexed else list(occ)
                    if op in ("before", "after") and rng.random() < 0.12:
                        # a reference field the paragraph does not have: KeyError, and nothing has moved
                        ops.append([pi, "order_" + op, list(key) if indexed else key, "No-Such-Field"])
                        exp_exc = KeyError
                        getattr(p, "order_" + op)(key, "No-Such-Field")
                    elif op in ("before", "after"):
                        rname = rng.choice(names)
                        rocc = m.occ(pi, rname)
                        rindexed = rng.random() < 0.4
                        ridx = rng.randrange(len(rocc)) if rindexed else None
                        rcalled = respell(rname)
                        rkey = (rcalled, ridx) if rindexed else rcalled
                        ref = rocc[ridx] if rindexed else (rocc[0] if op == "before" else rocc[-1])
                        ops.append([pi, "order_" + op, list(key) if indexed else key, list(rkey) if rindexed else rkey])
                        if ref in moving:
                            exp_exc = ValueError
                        else:
                            ref_entry = mp[ref]
                            moved = [mp[k] for k in moving]
                            rest = [e for k, e in enumerate(mp) if k not in moving]
                            at = [k for k, e in enumerate(rest) if e is ref_entry][0]
                            at = at if op == "before" else at + 1
                            m.paras[pi] = rest[:at] + moved + rest[at:]
                        getattr(p, "order_" + op)(key, rkey)
                    else:
                        ops.append([pi, "order_" + op, list(key) if indexed else key])
                        moved = [mp[k] for k in moving]
                        rest = [e for k, e in enumerate(mp) if k not in moving]
                        m.paras[pi] = moved + rest if op == "first" else rest + moved
                        getattr(p, "order_" + op)(key)
                elif op == "sort":
                    ops.append([pi, "sort_fields"])
                    m.paras[pi] = sorted(mp, key=lambda e: e[0].lower())
                    p.sort_fields()
                elif op == "sort-tie":
                    # a key with many ties: the sort is stable with respect to the CURRENT order
                    # (a key that puts the raw name into a tuple is left out: tuples compare with == first, which is
                    # case-insensitive for the library's name objects, so its outcome is not that of plain strings)
                    which = rng.choice(["constant", "first letter", "length", "the name itself", "the name itself", "str(name)",
                                        "(starts with X-, lower-cased name)"])
                    kf = {"constant": lambda nm: 0, "first letter": lambda nm: str(nm)[:1].lower(), "length": lambda nm: len(str(nm)),
                          "the name itself": lambda nm: nm, "str(name)": lambda nm: str(nm),
                          "(starts with X-, lower-cased name)": lambda nm: (nm.startswith("X-"), nm.lower())}[which]
                    ops.append([pi, "sort_fields", "key=" + which])
                    m.paras[pi] = sorted(mp, key=lambda e: kf(str(e[0])))      # the model sorts plain strings
                    p.sort_fields(key=kf)
                elif op == "sort-raise":
                    # a key function that fails on the n-th name: the exception reaches the caller and nothing has moved
                    fail_at = rng.randint(1, max(1, len(mp)))
                    calls = {"n": 0}

                    def kf_raise(nm, calls=calls, fail_at=fail_at):
                        calls["n"] += 1
                        if calls["n"] >= fail_at:
                            raise LookupError("no rank for %s" % nm)
                        return str(nm)
                    ops.append([pi, "sort_fields", "key raises LookupError at call %d" % fail_at])
                    exp_exc = LookupError
                    p.sort_fields(key=kf_raise)
                elif op == "set":
                    name = rng.choice(names)
                    occ = m.occ(pi, name)
                    indexed = rng.random() < 0.5
                    idx = rng.randrange(len(occ)) if indexed else None
                    val = rng.choice(["nv", "n1\n n2"])
                    ops.append([pi, "set", [name, idx] if indexed else name, val])
                    spelled = mp[occ[0]][0]
                    if indexed:
                        k = occ[idx]
                        m.paras[pi][k] = (mp[k][0], None, val)
                    else:
                        k = occ[0]
                        m.paras[pi][k] = (spelled, None, val)
                        m.paras[pi] = [e for j, e in enumerate(m.paras[pi]) if j == k or j not in occ]
                    p[(name, idx) if indexed else name] = val
                elif op == "del":
                    name = rng.choice(names)
                    occ = m.occ(pi, name)
                    indexed = rng.random() < 0.5
                    idx = rng.randrange(len(occ)) if indexed else None
                    gone = [occ[idx]] if indexed else occ
                    if len(gone) == len(mp):
                        continue
                    ops.append([pi, "del", [name, idx] if indexed else name])
                    m.paras[pi] = [e for j, e in enumerate(mp) if j not in gone]
                    del p[(name, idx) if indexed else name]
                else:
                    np_ = Deb822ParagraphElement.new_empty_paragraph()
                    np_["New%d" % step] = "val"
                    newp = [("New%d" % step, None, "val")]
                    if op == "append":
                        ops.append(["append"])
                        d.append(np_)
                        m.paras.append(newp)
                        m.raw.append(None)
                    else:
                        idx = rng.randint(0, len(pars) + 1)
                        ops.append(["insert", idx])
                        d.insert(idx, np_)
                        at = min(idx, len(m.paras))
                        m.paras.insert(at, newp)
                        m.raw.insert(at, None)
                if exp_exc is not None:
                    bad = t.failed("expected %s was not raised" % exp_exc.__name__, document=doc, operations=ops)
                    break
            except Exception as ex:
                if exp_exc is None or not isinstance(ex, exp_exc):
                    bad = t.failed("unexpected %r" % (ex,), document=doc, operations=ops)
                    break
            # ---- compare
            try:
                out = rm.dump_every_way(d)
                d2 = repro.parse_deb822_file(out.splitlines(True), accept_files_with_duplicated_fields=True)
            except Exception as ex:
                bad = t.failed("dump / re-parse raised %r" % (ex,), document=doc, operations=ops)
                break
            got = [[(k if isinstance(k, str) else k, ) for k in ()] for _ in ()]
            scanned = rm.scan(out)
            got_struct = [[(f.name, f.value) for f in pp] for pp in scanned]
            exp_struct = [[(n, v) for n, tx, v in pp] for pp in m.paras]
            if got_struct != exp_struct:
                bad = t.failed("fields / order / paragraphs of the dump differ from the reference model", document=doc,
                               operations=ops, dump=out, got=got_struct, expected=exp_struct)
                break
            lib_struct = [[(str(kv.field_name), kv.value_element.convert_to_text()) for kv in pp.iter_parts()] for pp in d2]
            if [[n for n, _ in pp] for pp in lib_struct] != [[n for n, _ in pp] for pp in exp_struct]:
                bad = t.failed("library re-parse of the dump differs from the model", document=doc, operations=ops, dump=out)
                break
            # surviving fields keep their text byte-for-byte (texts of new / replaced fields are None)
            for pp_s, pp_m in zip(scanned, m.paras):
                for f, (n, tx, v) in zip(pp_s, pp_m):
                    if tx is not None and out[f.cstart:f.end] not in (tx, complete(tx)):
                        bad = t.failed("a surviving field's text changed", document=doc, operations=ops, field=n,
                                       before=tx, after=out[f.cstart:f.end])
                        break
                if bad:
                    break
            if bad:
                break
            if all(r is not None for r in m.raw) and all(tx is not None for pp in m.paras for _, tx, _ in pp):
                if not same_text(out, m.render()):
                    bad = t.failed("dump differs from the expected bytes", document=doc, operations=ops, dump=out,
                                   expected=m.render())
                    break
            # (name, i) denotes the i-th occurrence in document order
            for pj, (pp, mp2) in enumerate(zip(list(d), m.paras)):
                for nm in {n for n, _, _ in mp2}:
                    occ = [v for n, tx, v in mp2 if n.lower() == nm.lower()]
                    for i, v in enumerate(occ):
                        try:
                            gv = pp[(nm, i)]
                        except Exception as ex:
                            gv = repr(ex)
                        if gv != v:
                            bad = t.failed("(name, i) does not denote the i-th occurrence in document order", document=doc,
                                           operations=ops, key=[nm, i], got=gv, expected=v, dump=out)
                            break
                    if bad:
                        break
                if bad:
                    break
            if bad:
                break
            # re-base the model on the new text (texts of new fields become known)
            m2 = Model(out)
            if [[(n, v) for n, tx, v in pp] for pp in m2.paras] != exp_struct:
                bad = t.failed("internal: rescanned model mismatch", document=doc, operations=ops)
                break
            m = m2
            d_ = d
        if bad or t.fail:
            break
        if not t.fail and twin.dump() != twin_text:
            t.failed("editing one document changed another document parsed from the same text (shared state)", document=twin_text,
                     operations=ops, twin_dump=twin.dump())
            break
        t.case(key=(doc, str(ops)) if ops else None, sample={"document": doc, "operations": ops} if len(ops) >= 3 else None)
    if not t.fail:
        rm.large_documents(repro, t)
    t.done()
    ctx.level = "other"
    ctx.explanation = ("PROVED from the real AST of debian._util: the OrderedSet that holds the field order of a paragraph without "
                       "duplicated fields, and the LinkedList under it (also the element list of duplicate-field paragraphs): "
                       "order_first / order_last / order_before / order_after move exactly the named item to the stated place and keep "
                       "every other item's relative order; add / remove / insert keep table and list consistent (same contracts as "
                       "C09). NOT proved: the paragraph and file element classes of _deb822_repro.parsing themselves (wrappers, "
                       "duplicate-field relocation, index semantics, separator and newline handling) - BOUNDED part (see module "
                       "docstring).")
    ctx.assumptions += ["documents are valid apart from duplicated field names (no error tokens)",
                        "where an inserted paragraph lands relative to a free-floating comment is unspecified by the library: "
                        "only paragraph order, field texts and non-merging are compared for insert/append"]


def replay(ctx, data):
    return True
