"""C08  An accepted field value can never inject fields or split the paragraph.

R-08   anti-drift lemmas between the validator and the parser regexes, decided for all lines of the
       stated character domain by SMT on the real pattern objects: a continuation line the validator
       accepts (non-empty, starts with space or tab, no line boundary) is never a field line
       (_single / _multi), never a PGP armor line, never the empty line; if it is not whitespace-only
       it is not a paragraph separator under either setting and it is a _multidata line.
B-08   bounded: every value of length <= N over {a, ':', '#', ' ', TAB, CR, LF} assigned to the
       middle field of a three-field paragraph; accepted => dump re-reads (str and line list;
       whitespace-separates-paragraphs False, and default when no continuation line is blank) as ONE
       paragraph with the same field names; values that must be rejected are rejected with ValueError
       and leave the paragraph unchanged.
"""
import itertools
import random
import re

import z3

from vf import rx
from vf.bounded import Tally
from vf.pyvc import extract
from vf.runner import Unsupported

MOD = "debian.deb822"
ALPHA = ["a", ":", "#", " ", "\t", "\r", "\n"]


def spec_lines(v):
    return re.split(r"\r\n|\r|\n", v)


def must_reject(v):
    # the lines as the reader will see them: the dump appends "\n", and "\r\n" is one boundary
    ls = spec_lines(v + "\n")[:-1]
    if v.endswith("\n"):
        return True
    for l in ls[1:]:
        if l == "" or l[0] not in " \t":
            return True
    return False


def armor_lemmas(ctx, real, tag="R-08d"):
    """bytes-level patterns used by split_gpg_and_payload on the encoded line: an accepted continuation line (and so every
    line of a dumped multi-line value: record lines, license text lines ...) is never taken for an armor line or a separator"""
    D = real.Deb822
    # bytes-level patterns used by split_gpg_and_payload on the encoded line
    try:
        envb = rx.Env(is_bytes=True)
        pb = {n: envb.add(getattr(D, n), name=n) for n in ("_gpgre", "_blank_line_whitespace", "_blank_line_no_whitespace")}
        domb = envb.add(rb"[ \t][^\n\r\x0b\x0c]*", 0, "encoded continuation line (VT / FF are outside the stated domain)")
        wsb = envb.add(rb"[ \t]+", 0, "ws-only")
        envb.finalize()
        CONTB = envb.lang(domb, "fullmatch")
        NB = z3.Intersect(CONTB, z3.Complement(envb.lang(wsb, "fullmatch")))
        smt, var = envb.claim_disjoint(CONTB, envb.lang(pb["_gpgre"], "match"))
        def rep(pn):
            return lambda m: {"line": repr(envb.realize(m.get("w", ""))), "pattern": pn,
                              "confirmed": getattr(D, pn).match(envb.realize(m.get("w", ""))) is not None}
        ctx.vc(tag + " an accepted continuation line is never a PGP armor line", MOD + ":Deb822._gpgre", smt, theory="str",
               model_vars=[var], kind="rx", replay=rep("_gpgre"))
        smt, var = envb.claim_disjoint(CONTB, envb.lang(pb["_blank_line_no_whitespace"], "match"))
        ctx.vc(tag + " an accepted continuation line never ends the paragraph when whitespace does not separate paragraphs",
               MOD + ":Deb822._blank_line_no_whitespace", smt, theory="str", model_vars=[var], kind="rx",
               replay=rep("_blank_line_no_whitespace"))
        smt, var = envb.claim_disjoint(NB, envb.lang(pb["_blank_line_whitespace"], "match"))
        ctx.vc(tag + " a non-blank accepted continuation line never ends the paragraph under the default setting",
               MOD + ":Deb822._blank_line_whitespace", smt, theory="str", model_vars=[var], kind="rx",
               replay=rep("_blank_line_whitespace"))
        for n in pb:
            ctx.function_under_contract(MOD + ":Deb822." + n, repr(getattr(D, n).pattern))
    except Unsupported as e:
        ctx.mark_unproved(MOD + ":Deb822.split_gpg_and_payload", "unsupported: %s" % e)
    ctx.solve()


def lemmas(ctx, real):
    D = real.Deb822
    fq = MOD + ":Deb822.validate_input"
    try:
        env = rx.Env()
        pats = {n: env.add(getattr(D, n), name=n) for n in ("_single", "_multi", "_multidata")}
        # accepted continuation line over the stated domain: [ \t] then any characters that are neither
        # line boundaries nor the Python-only whitespace the property excludes
        dom = env.add(r"[ \t][^\n\r\x0b\x0c\x1c\x1d\x1e\x1f\x85\xa0  -     　]*", 0,
                      "accepted continuation line (stated domain)")
        wsonly = env.add(r"[ \t]+", 0, "whitespace-only line")
        env.finalize()
        CONT = env.lang(dom, "fullmatch")
        NONBLANK = z3.Intersect(CONT, z3.Complement(env.lang(wsonly, "fullmatch")))
        for n in ("_single", "_multi"):
            smt, var = env.claim_disjoint(CONT, env.lang(pats[n], "match"))
            ctx.vc("R-08d an accepted continuation line never matches %s (cannot start a field)" % n, MOD + ":Deb822." + n, smt,
                   theory="str", model_vars=[var], kind="rx",
                   replay=lambda m, n=n: {"confirmed": getattr(D, n).match(env.realize(m.get("w", ""))) is not None,
                                          "line": env.realize(m.get("w", "")), "pattern": n})
            ctx.function_under_contract(MOD + ":Deb822." + n, repr(getattr(D, n).pattern))
        smt, var = env.claim_subset(NONBLANK, env.lang(pats["_multidata"], "match"))
        ctx.vc("R-08d a non-blank accepted continuation line matches _multidata (is kept as part of the value)",
               MOD + ":Deb822._multidata", smt, theory="str", model_vars=[var], kind="rx")
        ctx.function_under_contract(MOD + ":Deb822._multidata", repr(D._multidata.pattern))
        smt, var = env.smt_empty(CONT)
        ctx.vc("probe: no accepted continuation line exists (must NOT be discharged)", fq, smt, theory="str", probe=True, kind="probe")
    except Unsupported as e:
        ctx.mark_unproved(fq, "unsupported: %s" % e)
    armor_lemmas(ctx, real)
    ctx.solve()


# ------------------------------------------------------------------------------------------------
# P-08a/b: the validator itself and "a rejected value leaves the mapping unchanged"
from vf.pyvc.speclib import SpecLib
from vf.pyvc.world import World, Contract
from vf.pyvc.interp import LoopSpec
from vf.pyvc.values import VObj, VBox, VSeq, VFunc, DictVal, empty_dict, fresh, fresh_name, lift, NONE
from vf.pyvc.driver import verify_contracts


def cont_ok(ls, k):
    """every line of ls from index k on is non-empty and starts with a whitespace character"""
    if k >= len(ls):
        return True
    return len(ls[k]) > 0 and ls[k][0].isspace() and cont_ok(ls, k + 1)


def shape_ok(value):
    """what validate_input accepts: no trailing newline; every line after the first non-empty and
    starting with whitespace (lines as str.splitlines sees them)"""
    return (not value.endswith("\n")) and cont_ok(value.splitlines()[1:], 0)


class ValidateInput(Contract):
    locals_order = ['self', 'key', 'value', 'line']
    target = MOD + ":Deb822.validate_input"
    modular = True
    requires = ()
    ensures = ("shape_ok(value)",)
    raises = {"ValueError": ("not shape_ok(value)",)}
    raises_modifies = {"ValueError": ()}
    modifies = ()
    loops = {0: LoopSpec(invariants=("cont_ok(value.splitlines()[1:], vi) == cont_ok(value.splitlines()[1:], 0)",
                                     "0 <= vi and vi <= len(value.splitlines()[1:])"),
                         index="vi", var_types={"line": "str"})}
    locals_order = ["self", "key", "value", "line"]

    def setup(self, ex):
        me = VObj("Deb822", {}, "self")
        return {"self": me, "key": fresh("str", "key"), "value": fresh("str", "value")}


class DictSetItem(Contract):
    """ASSUMED frame of Deb822Dict.__setitem__ (its behaviour is C09's business): it only touches the
    key set and the value dictionary"""
    target = MOD + ":Deb822Dict.__setitem__"
    modular = True
    modifies = ("self._Deb822Dict__keys", "self._Deb822Dict__dict")

    def setup(self, ex):
        raise NotImplementedError


class SetItem(Contract):
    target = MOD + ":Deb822.__setitem__"
    modular = False
    ensures = ("shape_ok(value)",)
    raises = {"ValueError": ("not shape_ok(value)",)}
    raises_modifies = {"ValueError": ()}          # a rejected value leaves the paragraph exactly as it was
    modifies = ("self._Deb822Dict__keys", "self._Deb822Dict__dict")

    def setup(self, ex):
        me = VObj("Deb822", {"_Deb822Dict__keys": fresh("int", "keys_state"), "_Deb822Dict__dict": fresh("int", "dict_state"),
                             "_Deb822Dict__parsed": NONE}, "self")
        return {"self": me, "key": fresh("str", "key"), "value": fresh("str", "value")}


# P-08c  _dump_format: one entry per key, "Key: value\n" - or "Key:value\n" when the value is empty or starts with a newline -
# with the value exactly as get_as_string returns it (nothing stripped, nothing added)
def entry(key, value):
    if (not value) or value[0] == "\n":
        return key + ":" + value + "\n"
    return key + ": " + value + "\n"


def entries(self_, keys):
    if len(keys) == 0:
        return []
    return [entry(keys[0], value_text(self_, keys[0]))] + entries(self_, keys[1:])


def value_text(self_, key):
    return ""       # opaque: what self.get_as_string(key) returns


class IterAbs(Contract):
    target = MOD + ":Deb822Dict.__iter__"
    modular = True
    returns = ("list", "str")
    ensures = ("result == self.keys",)


class GetAsStringAbs(Contract):
    target = MOD + ":Deb822.get_as_string"
    modular = True
    returns = "str"
    ensures = ("result == value_text(0, key)",)


class DumpFormat(Contract):
    locals_order = ['self', 'key', 'value', 'entry']
    target = MOD + ":Deb822._dump_format"
    modular = False
    yields = "str"
    ensures = ("result == entries(0, self.keys)",)
    loops = {0: LoopSpec(invariants=("0 <= ki and ki <= len(self.keys)",
                                     "yields + entries(0, self.keys[ki:]) == entries(0, self.keys)"),
                         index="ki", var_types={"key": "str", "value": "str", "entry": "str"})}

    def setup(self, ex):
        me = VObj("Deb822", {"keys": fresh(("list", "str"), "keys")}, "self")
        return {"self": me}


def item_text(self_, key):
    return ""       # opaque: the stored value self[key] (a str for ordinary fields)


class GetItemAbs(Contract):
    target = MOD + ":Deb822Dict.__getitem__"
    modular = True
    returns = "str"
    ensures = ("result == item_text(0, key)",)
    raises = {"KeyError": ()}
    raises_modifies = {"KeyError": ()}


class GetAsString(Contract):
    """Deb822.get_as_string(key) is the stored value itself: nothing stripped, nothing added"""
    target = MOD + ":Deb822.get_as_string"
    modular = False
    ensures = ("result == item_text(0, key)",)
    raises = {"KeyError": ()}

    def setup(self, ex):
        return {"self": VObj("Deb822", {}, "self"), "key": fresh("str", "key")}


def run_dump_format(ctx):
    sl0 = SpecLib()
    w0 = World(sl0)
    w0.spec_func(item_text, rec=dict(args=["int", "str"], ret="str", opaque=True))
    w0.add_contract(GetItemAbs())
    verify_contracts(ctx, w0, [GetAsString()], {})
    sl = SpecLib()
    w = World(sl)
    w.spec_func(entry)
    w.spec_func(value_text, rec=dict(args=["int", "str"], ret="str", opaque=True))
    w.spec_func(entries, rec=dict(args=["int", "list:str"], ret=("list", "str")))
    w.add_contract(IterAbs())
    w.add_contract(GetAsStringAbs())
    verify_contracts(ctx, w, [DumpFormat()], {})
    ctx.solve()


def run_deductive(ctx):
    run_dump_format(ctx)
    sl = SpecLib()
    w = World(sl)
    w.spec_func(shape_ok)
    w.spec_func(cont_ok, rec=dict(args=[("list", "str"), "int"], ret="bool"))
    c = ValidateInput()
    w.add_contract(c)
    w.add_contract(DictSetItem())
    verify_contracts(ctx, w, [c, SetItem()], {})
    ctx.trusted.append("ASSUMED frame: Deb822Dict.__setitem__ modifies only its key set and value dictionary")
    ctx.solve()


def run(ctx):
    mod = extract.load(MOD)
    real = mod.real()
    node, _ = mod.lookup("Deb822.validate_input")
    ctx.function_under_contract(MOD + ":Deb822.validate_input", mod.segment(node))
    lemmas(ctx, real)
    run_deductive(ctx)
    from props import C02 as _c02
    _c02.verify_split_gpg(ctx, real)       # the reader's line filter: nothing but matching lines is cut off or taken for armor
    _c02.verify_internal_parser(ctx, real)  # the field-collecting loop against its recursive specification
    # an accepted assignment files the name in the paragraph's OrderedSet: the containers under contract (as in C09) - an
    # operation that fails with KeyError / ValueError leaves table and order consistent, so a stored field cannot drop out of the dump
    from props import C09 as _c09
    _c09.verify_ordering_machinery(ctx)
    rng = random.Random(ctx.seed)
    Deb822 = real.Deb822
    N = 5 if ctx.tier == "quick" else 6
    t = Tally(ctx, "B-08 every short value over the domain alphabet assigned, dumped and re-read",
              "all strings of length <= %d over {a, ':', '#', space, TAB, CR, LF} (%s) assigned to the middle field of {A, B, C}; "
              "accepted values: dump re-read as str and as list of lines, with whitespace-separates-paragraphs False and (when no "
              "continuation line is blank) with the default; rejected values: ValueError and unchanged paragraph; non-trivial = "
              "distinct accepted multi-line values" % (N, "exhaustive" if ctx.tier != "quick" else "length 5 sampled"),
              "length <= %d, plus line-level family: first line {v, empty} x 1-3 continuation lines over 13 tricky line texts (armor lines, "
              "field-like, comment-like, '.', blank) x {space, TAB} indentation (pairs exhaustive, triples sampled); the derived "
              "paragraph classes Dsc, Changes, Release, Sources, Packages, BuildInfo, PdiffIndex get all values of length <= 3, the "
              "line-level singles and a sample" % N, )
    vals = ["".join(v) for n in range(0, N + 1) for v in itertools.product(ALPHA, repeat=n)]
    if ctx.tier == "quick":
        vals = [v for v in vals if len(v) <= 4] + rng.sample([v for v in vals if len(v) == 5], 6000)
    vals += ["1.0\rInjected: yes", "first\r\rsecond", "first\n\r\n second", "s\n first\n \n second", "s\n\t", "x\n a: b\n #c"]
    # line-level family: continuation lines that look like something else to one of the readers (armor lines, fields,
    # comments, separators), all pairs exhaustively, triples sampled
    TOK = ["-----BEGIN PGP SIGNED MESSAGE-----", "-----BEGIN PGP SIGNATURE-----", "-----END PGP SIGNATURE-----",
           "-----BEGIN PGP SIGNATURE-----  ", "Injected: yes", "Injected:", "# comment", ".", "", "\t", " x ", "-----", "Hash: SHA256"]
    conts = [ind + tk for ind in (" ", "\t") for tk in TOK]
    fam = [[c] for c in conts] + [[c1, c2] for c1 in conts for c2 in conts]
    fam += [[rng.choice(conts) for _ in range(3)] for _ in range(1500 if ctx.tier == "quick" else 17576)]
    vals += [first + "".join("\n" + c for c in cs) for cs in fam for first in ("v", "")]
    # every paragraph class is a Deb822 paragraph: the derived classes (own validate_input / constructor / iter_paragraphs)
    # get the values that matter (all short values up to length 3, the hand-picked ones, line-level singles and a sample)
    short = [v for v in vals if len(v) <= 3] + vals[-len(fam) * 2:][:len(conts) * 2] + \
        ["1.0\rInjected: yes", "first\n\r\n second", "s\n first\n \n second", "s\n\t", "x\n a: b\n #c", "1.0-1\nInjected: yes",
         "first\n\nSecond-Paragraph: yes", "1.0-1\n"] + rng.sample(vals, 200)
    work = [(Deb822, v) for v in vals]
    for cname in ("Dsc", "Changes", "Release", "Sources", "Packages", "BuildInfo", "PdiffIndex"):
        work += [(getattr(real, cname), v) for v in short]
    for Deb822, v in work:
        d = Deb822()
        d["A"] = "1"
        d["B"] = "2"
        d["C"] = "3"
        before = d.dump()
        try:
            d["B"] = v
            accepted = True
        except ValueError:
            accepted = False
        except Exception as e:
            t.failed("assignment raised %r" % (e,), value=v, cls=Deb822.__name__)
            break
        t.case(key=(Deb822.__name__, v) if accepted and "\n" in v else None, sample={"value": v} if accepted and v.count("\n") == 2 else None)
        if not accepted:
            if d.dump() != before:
                t.failed("a rejected value changed the paragraph", value=v, after=d.dump(), cls=Deb822.__name__)
                break
            continue
        if must_reject(v):
            t.failed("a value that ends in a newline / contains an empty line / has a continuation line not starting with "
                     "whitespace was accepted", value=v, cls=Deb822.__name__)
            break
        text = d.dump()
        # the other ways of writing the paragraph out produce the same text (so the same holds for them)
        import io as _io
        _fd = _io.BytesIO()
        d.dump(_fd)
        _ft = _io.StringIO()
        d.dump(_ft, text_mode=True)
        if _fd.getvalue().decode("utf-8") != text or _ft.getvalue() != text or str(d) != text:
            t.failed("dump(fd) / dump(fd, text_mode=True) / str() differ from dump()", value=v, dump=text, cls=Deb822.__name__,
                     dump_binary_file=_fd.getvalue().decode("utf-8", "replace"), dump_text_file=_ft.getvalue(), str=str(d))
            break
        blank_cont = any(l.strip(" \t") == "" for l in spec_lines(v + "\n")[:-1][1:])
        settings = [{"whitespace-separates-paragraphs": False}] + ([] if blank_cont else [None])
        bad = False
        for st in settings:
            for fname, form in (("str", text), ("lines", text.splitlines(True))):
                try:
                    ps = list(Deb822.iter_paragraphs(form, use_apt_pkg=False, strict=st))
                    one = Deb822(form, strict=st)
                    if st is not None and Deb822.__name__ in ("Sources", "Packages"):
                        # these two read with "whitespace does not separate paragraphs" by default
                        ps_default = list(Deb822.iter_paragraphs(form, use_apt_pkg=False))
                        if [list(q.keys()) for q in ps_default] != [list(q.keys()) for q in ps]:
                            raise AssertionError("iter_paragraphs without an explicit setting differs: %r" % [list(q.keys()) for q in ps_default])
                except Exception as e:
                    bad = t.failed("re-read raised %r" % (e,), value=v, dump=text, strict=st, form=fname, cls=Deb822.__name__)
                    break
                if len(ps) != 1 or list(ps[0].keys()) != ["A", "B", "C"] or list(one.keys()) != ["A", "B", "C"]:
                    bad = t.failed("an accepted value injected a field or split / truncated the paragraph", value=v, dump=text,
                                   cls=Deb822.__name__, strict=st, form=fname, paragraphs=[list(p.keys()) for p in ps], single=list(one.keys()))
                    break
            if bad:
                break
        if bad:
            break
    if not t.fail:
        # sizes no small example reaches: values of tens of kilobytes whose one offending line (empty, or not starting with a
        # blank) sits exactly at / around a multiple of the usual buffer sizes - rejected like short ones; large accepted
        # values and paragraphs are written and re-read like small ones (B-02's large instances, same statement)
        D = real.Deb822
        for block in (4096, 8192, 65536):
            for k in (1, 2):
                for delta in (-1, 0, 1):
                    for bad_line in ("", "Injected: yes"):
                        off = k * block + delta
                        head = "v"
                        while len(head) < off - 1:
                            head += "\n " + "c" * min(70, off - len(head) - 3)
                        head = head[:off - 1] if len(head) > off - 1 else head
                        if head.endswith("\n") or head.endswith("\n "):
                            head = head[:-2] + "cc"[:2]
                        value = head + "\n" + bad_line + "\n tail"
                        d = D()
                        d["A"] = "1"
                        try:
                            d["B"] = value
                            accepted = True
                        except ValueError:
                            accepted = False
                        t.case(key=("long value", block, k, delta, bad_line))
                        if accepted:
                            t.failed("a long value with an empty line / a continuation line that does not start with a blank was accepted",
                                     offending_line=bad_line, offset_of_the_line=value.index("\n" + bad_line + "\n tail") + 1, value_length=len(value))
                            break
                    if t.fail:
                        break
                if t.fail:
                    break
            if t.fail:
                break
        if not t.fail:
            _c02.large_instances(real, t)
    t.done(exhaustive=(ctx.tier != "quick"))
    ctx.level = "other"
    ctx.explanation = ("R-08d: the anti-drift lemmas between validator and parser patterns are PROVED for all lines of the stated "
                       "domain (SMT on the real pattern objects). ALSO PROVED from the AST: validate_input returns normally exactly on "
                       "values without trailing newline whose later lines (as str.splitlines sees them) are non-empty and start with a "
                       "whitespace character, and raises ValueError otherwise; Deb822.__setitem__ validates before it stores, so a "
                       "rejected value leaves the paragraph exactly as it was; split_gpg_and_payload, from its real AST, returns exactly the lines (CR / LF stripped) as payload - nothing taken for armor, nothing cut off - for every sequence of lines none of which matches the armor pattern or the separator pattern in force (loop invariant over the line index; both parser settings). ALSO PROVED: _dump_format yields exactly one entry per key - 'Key: value' + newline, or 'Key:value' + newline "
                       "when the value is empty or starts with a newline - with the value exactly as get_as_string returns it, and "
                       "Deb822.get_as_string returns the stored value unchanged; the field-collecting loop of _internal_parser against "
                       "its recursive specification. The composition of these pieces is not under one "
                       "contract: the composition validator -> dump -> parser is covered by the BOUNDED enumeration of all short values.")
    ctx.assumptions += ["character domain as stated in the property: Python-only whitespace / line boundaries (NBSP, VT, FF, "
                        "FS-US, NEL, U+2028 ...) are outside"]


def replay(ctx, data):
    return True
