"""C15  Changelog parsing is total and strictness-consistent; output is a normal form.

B-15 bounded stand-in (exception-freedom / taint obligations of DESIGN §5 C15 are not generated yet):
texts obtained from well-formed changelogs by inserting / deleting / duplicating lines drawn from a pool
of headers, trailers, junk, editor mode lines, old-format markers, comments; allow_empty_author on and
off: the lenient constructor must return; strict must raise ChangelogParseError exactly when lenient
warns; whenever str() succeeds it must be a normal form (re-parse gives the same blocks, second str()
identical).  Plus short histories of editing calls on parsed or empty changelogs.
"""
import random
import warnings

from vf.bounded import Tally
from vf.pyvc import extract
from vf.changelog_gen import gen_changelog

MOD = "debian.changelog"

POOL = ["garbage line", "vim: set ft=changelog:", ";; Local variables:", "Local variables:", "$Id: x $", "# comment", "/* c */",
        "Old Changelog:", "Changes from version 1 to 2:", "foo (1.0)", " -- ", " --", " -- A B <a@b>  bad date",
        " -- A B <a@b> Thu, 12 Dec 2006 12:23:34 +0000", " -- A B <a@b>  Thu, 12 Dec 2006 12:23:34 +0000",
        "foo (1) unstable; urgency", "foo (1) unstable; urgency=low, urgency=high", "foo (1) unstable; =x",
        "foo (1) unstable", "foo (2) unstable; urgency=low", "  * change", "", " ", "x", "Mon Jan 1 2001 A <a@b>", "1.0:",
        "  foo (3) unstable; urgency=low", "\tbar (1.0-1) stable; urgency=high", "  -- A B <a@b>  Thu, 12 Dec 2006 12:23:34 +0000",
        "foo (2) unstable; urgency=low  ", " \t ", "oldpkg (0.1);", "oldpkg (0.1); urgency=low", "oldpkg (0.1) ; urgency=low",
        "pkg (1.0)unstable; urgency=low", "pkg(1.0) unstable; urgency=low",
        # characters str.splitlines treats as line ends (a text given as str is cut there; so is the same text given as bytes)
        "  * form\x0cfeed inside a change line", "\x0c", "  * next\x85line and\u2028separator"]


def _version_of(b):
    try:
        return str(b.version)            # the public view (a Version object); invalid version strings raise here
    except Exception:
        return ("raw", b._raw_version)


def blocks_of(cl):
    return [(b.package, _version_of(b), b.distributions, b.urgency, list(b.changes()), b.author, b.date) for b in cl]


def normal_form_ok(real, cl, aea, t, **ctxinfo):
    try:
        s1 = str(cl)
    except real.ChangelogCreateError:
        return True                     # cannot be formatted: nothing is claimed
    except Exception as e:
        return not t.failed("str() raised %r" % (e,), **ctxinfo)
    try:
        with warnings.catch_warnings():
            warnings.simplefilter("ignore")
            cl2 = real.Changelog(s1, allow_empty_author=aea)
        s2 = str(cl2)
    except Exception as e:
        return not t.failed("re-parsing / re-formatting the formatted changelog raised %r" % (e,), formatted=s1, **ctxinfo)
    if blocks_of(cl2) != blocks_of(cl):
        return not t.failed("formatted changelog re-parses to different blocks", formatted=s1, got=repr(blocks_of(cl2)),
                            expected=repr(blocks_of(cl)), **ctxinfo)
    if s2 != s1:
        return not t.failed("formatting is not idempotent (not a normal form)", formatted=s1, second=s2, **ctxinfo)
    # the other ways in and out: written into an open file, given back as bytes / as a list of bytes lines
    try:
        import io
        fh = io.StringIO()
        cl.write_to_open_file(fh)
        with warnings.catch_warnings():
            warnings.simplefilter("ignore")
            s3 = str(real.Changelog(s1.encode("utf-8"), allow_empty_author=aea))
            s4 = str(real.Changelog([l.encode("utf-8") for l in s1.splitlines(True)], allow_empty_author=aea)) if s1 else s1
    except Exception as e:
        return not t.failed("write_to_open_file / re-parsing the formatted changelog from bytes raised %r" % (e,), formatted=s1, **ctxinfo)
    if fh.getvalue() != s1 or s3 != s1 or s4 != s1:
        return not t.failed("the formatted changelog depends on how it is written out / handed back in", formatted=s1,
                            write_to_open_file=fh.getvalue(), reparsed_from_bytes=s3, reparsed_from_bytes_lines=s4, **ctxinfo)
    return True


# ------------------------------------------------------------------------------------------------
# P-15b: strict raises exactly when lenient warns.
#  (1) `strict` influences parse_changelog only as the second argument of self._parse_error(...):
#      decided on the AST of the real function (data-flow check: every occurrence of the name is that
#      argument; it is never assigned, tested, stored or passed elsewhere).  Hence both modes execute
#      identically up to the first _parse_error call.
#  (2) _parse_error(message, strict): strict => raises ChangelogParseError; otherwise exactly one
#      warning and normal return  (pyvc contract, warnings.warn as a ghost event).
import ast
import z3
from vf.pyvc.speclib import SpecLib
from vf.pyvc.world import World, Contract
from vf.pyvc.values import VBool, VSeq, VInt, VFunc, NONE, fresh
from vf.pyvc.driver import verify_contracts


def strict_flow_ok(fnode):
    """every use of the parameter `strict` is the 2nd positional argument of self._parse_error(...)"""
    ok_uses = set()
    for n in ast.walk(fnode):
        if isinstance(n, ast.Call) and isinstance(n.func, ast.Attribute) and n.func.attr == "_parse_error" \
                and isinstance(n.func.value, ast.Name) and n.func.value.id == "self" and len(n.args) == 2 \
                and isinstance(n.args[1], ast.Name) and n.args[1].id == "strict" and not n.keywords:
            ok_uses.add(id(n.args[1]))
    problems = []
    for n in ast.walk(fnode):
        if isinstance(n, ast.Name) and n.id == "strict" and id(n) not in ok_uses:
            problems.append("line %d: `strict` used outside the second argument of self._parse_error" % n.lineno)
        if isinstance(n, ast.arg) and n.arg == "strict":
            continue
    for n in ast.walk(fnode):
        if isinstance(n, (ast.Lambda, ast.FunctionDef)) and n is not fnode:
            problems.append("line %d: nested function (closure could capture `strict`)" % n.lineno)
        if isinstance(n, ast.Call) and isinstance(n.func, ast.Name) and n.func.id in ("locals", "vars", "eval", "exec"):
            problems.append("line %d: %s() can observe `strict`" % (n.lineno, n.func.id))
    return problems


class ParseError(Contract):
    target = MOD + ":Changelog._parse_error"
    modular = False

    def __init__(self, strict):
        self.strict = strict
        if strict:
            self.ensures = ("False",)
            self.raises = {"ChangelogParseError": ("warnings_emitted() == 0",)}
        else:
            self.ensures = ("warnings_emitted() == 1",)

    def setup(self, ex):
        ex.events = []
        return {"message": fresh("str", "message"), "strict": VBool(self.strict)}


def run_deductive(ctx, mod):
    fq = MOD + ":Changelog.parse_changelog"
    node, _ = mod.lookup("Changelog.parse_changelog")
    problems = strict_flow_ok(node) if node is not None else ["function is gone"]
    ctx.function_under_contract(fq, mod.segment(node) if node is not None else "")
    if problems:
        # another use of `strict` is not by itself a violation: the syntactic argument no longer
        # applies, nothing is refuted, the bounded part decides
        ctx.mark_unproved(fq, "strict-independence not established syntactically: " + "; ".join(problems))
    else:
        ctx.direct("P-15b `strict` flows only into the second argument of self._parse_error in parse_changelog", fq,
                   True, "ast data-flow check", kind="taint")
    init, _ = mod.lookup("Changelog.__init__")
    p2 = []
    if init is not None:
        for n in ast.walk(init):
            if isinstance(n, ast.Name) and n.id == "strict":
                par = [c for c in ast.walk(init) if isinstance(c, ast.keyword) and c.value is n and c.arg == "strict"]
                if not par:
                    p2.append("line %d: `strict` used other than as strict=strict" % n.lineno)
    if p2:
        ctx.mark_unproved(MOD + ":Changelog.__init__", "; ".join(p2))
    else:
        ctx.direct("P-15b Changelog.__init__ only forwards `strict` to parse_changelog", MOD + ":Changelog.__init__", True,
                   "ast data-flow check", kind="taint")
    sl = SpecLib()
    w = World(sl)
    import warnings as _w

    def warn_model(real, name):
        def f(ex, a, kw):
            ex.events.append(("warning", a[0] if a else NONE))
            return NONE
        return VFunc("builtin", "warnings.warn", fn=f)
    sl.reals.append((lambda real, name: real is _w.warn, warn_model))
    w.spec_env["warnings_emitted"] = VFunc("builtin", "warnings_emitted",
                                           fn=lambda ex, a, kw: VInt(sum(1 for e in ex.events if e[0] == "warning")))
    cs = [ParseError(True), ParseError(False)]
    for c in cs:
        c.__class__ = type("ParseError_%s" % ("strict" if c.strict else "lenient"), (ParseError,), {})
    verify_contracts(ctx, w, cs, {})
    ctx.solve()


def run(ctx):
    mod = extract.load(MOD)
    real = mod.real()
    for q in ("Changelog.parse_changelog", "Changelog._parse_error", "ChangeBlock.add_change", "ChangeBlock._format",
              "Changelog.new_block"):
        node, _ = mod.lookup(q)
        if node is not None:
            ctx.function_under_contract(MOD + ":" + q, mod.segment(node))
    run_deductive(ctx, mod)
    from props import C04 as _c04
    _c04.verify_block_format(ctx)        # the formatter of one block: every stored component written exactly once, as stored
    _c04.verify_changelog_format(ctx)    # the formatter of the document: leading blank lines, then every block's text in order, the flag passed on
    _c04.regex_lemmas(ctx, real)         # the line classes the parser's patterns accept (what is and is not a heading / trailer)
    rng = random.Random(ctx.seed)
    rounds = 2500 if ctx.tier == "quick" else 40000
    t = Tally(ctx, "B-15 totality, strict <=> warning, normal form on mutated texts and edit histories",
              "well-formed texts mutated by 1-3 insert / delete / duplicate steps with lines from a pool of %d (headers good and bad, "
              "trailers good and bad, editor mode lines, old-format markers, comments, junk, blanks), allow_empty_author on/off; "
              "plus histories of 1-4 editing calls on parsed or empty changelogs (incl. version assignments the library refuses and edits of a Version object it handed out); non-trivial = distinct mutated texts that "
              "produce a warning, and distinct histories" % len(POOL), "%d texts" % rounds)
    for i in range(rounds):
        text, comps = gen_changelog(rng, max_blocks=2)
        lines = text.split("\n")[:-1]
        muts = []
        for _ in range(rng.randint(1, 3)):
            k = rng.choice(["ins", "ins", "del", "dup"])
            pos = rng.randrange(len(lines) + 1)
            if k == "ins":
                ln = rng.choice(POOL)
                lines.insert(pos, ln)
                muts.append(["insert", pos, ln])
            elif k == "del" and lines:
                pos = min(pos, len(lines) - 1)
                muts.append(["delete", pos, lines[pos]])
                del lines[pos]
            elif lines:
                pos = min(pos, len(lines) - 1)
                lines.insert(pos, lines[pos])
                muts.append(["duplicate", pos])
        mtext = "\n".join(lines) + "\n"
        for aea in (False, True):
            try:
                with warnings.catch_warnings(record=True) as w:
                    warnings.simplefilter("always")
                    cl = real.Changelog(mtext, allow_empty_author=aea)
            except Exception as e:
                t.failed("the lenient constructor raised %r" % (e,), text=mtext, allow_empty_author=aea, mutations=muts)
                break
            try:
                with warnings.catch_warnings():
                    warnings.simplefilter("ignore")
                    real.Changelog(mtext, allow_empty_author=aea, strict=True)
                strict_raised = None
            except real.ChangelogParseError:
                strict_raised = "ChangelogParseError"
            except Exception as e:
                strict_raised = repr(e)
            t.case(key=(mtext, aea) if w else None, sample={"text": mtext, "warnings": len(w)} if w and len(muts) == 1 else None)
            if (strict_raised == "ChangelogParseError") != bool(w) or strict_raised not in (None, "ChangelogParseError"):
                t.failed("strict parsing and lenient warnings disagree", text=mtext, allow_empty_author=aea, mutations=muts,
                         strict=strict_raised, lenient_warnings=[str(x.message) for x in w])
                break
            if not normal_form_ok(real, cl, aea, t, text=mtext, allow_empty_author=aea, mutations=muts):
                break
            # the same text handed in as UTF-8 bytes is the same changelog
            try:
                with warnings.catch_warnings():
                    warnings.simplefilter("ignore")
                    clb = real.Changelog(mtext.encode("utf-8"), allow_empty_author=aea)
                same = blocks_of(clb) == blocks_of(cl)
            except Exception as e:
                t.failed("the lenient constructor raised %r on the text given as bytes" % (e,), text=mtext, allow_empty_author=aea)
                break
            if not same:
                t.failed("the text given as bytes parses to other blocks than the text given as str", text=mtext, allow_empty_author=aea,
                         from_bytes=repr(blocks_of(clb)), from_str=repr(blocks_of(cl)))
                break
        if t.fail:
            break
        # editing histories
        if i % 3 == 0:
            if rng.random() < 0.5:
                cl = real.Changelog()
                ops = [["Changelog()"]]
            else:
                cl = real.Changelog(text)
                ops = [["Changelog(well-formed text)"]]
            for _ in range(rng.randint(1, 4)):
                op = rng.choice(["new_block", "add_change", "author", "date", "distributions", "urgency", "version", "package",
                                 "refused version", "edit returned version"])
                if op in ("refused version", "edit returned version") and len(cl) > 0:
                    try:
                        before_text = str(cl)
                    except real.ChangelogCreateError:
                        continue        # a block without author / date cannot be written yet: nothing to compare with
                    try:
                        if op == "refused version":
                            # a version the library refuses: ValueError, and the changelog is exactly what it was
                            bad_version = rng.choice(["1.0-2 (unstable)", "1 2", "a:b:c d", ""])
                            ops.append(["version (refused)", bad_version])
                            try:
                                cl.version = bad_version
                                refused = False
                            except ValueError:
                                refused = True
                            if not refused:
                                continue        # taken: no statement here (the normal-form check below still applies)
                        else:
                            # a Version object handed out by the changelog is the caller's: editing it does not edit the changelog
                            ops.append(["edit the Version object returned by .version"])
                            v_ = cl.version
                            try:
                                v_.debian_revision = "99edited"
                            except ValueError:
                                pass
                    except Exception as e:
                        t.failed("editing call raised %r" % (e,), operations=ops)
                        break
                    if str(cl) != before_text:
                        t.failed("a refused assignment / an edit of a returned object changed the changelog", operations=ops,
                                 before=before_text, after=str(cl))
                        break
                    if str(cl.version) != str(real.Changelog(before_text).version):
                        t.failed("the changelog exposes another version than it writes", operations=ops, exposed=str(cl.version),
                                 written=before_text.split("\n")[0])
                        break
                    continue
                elif op in ("refused version", "edit returned version"):
                    continue
                try:
                    if rng.random() < 0.5 and len(cl) > 0:
                        # reading must not change what a later assignment does (cached derived values ...)
                        ops.append(["read all attributes"])
                        blocks_of(cl)
                        _ = (cl.version, cl.versions, cl.full_version, cl.upstream_version, cl.debian_version, cl.epoch, cl.package)
                    if op == "new_block" or len(cl) == 0:
                        kw = dict(package=rng.choice(["foo", "bar"]), version=rng.choice(["1.0-1", "2"]), distributions="unstable",
                                  urgency="low", author="A B <a@b>", date="Thu, 12 Dec 2006 12:23:34 +0000")
                        if rng.random() < 0.6:
                            kw["changes"] = rng.choice([["  * x"], ["", "  * x", ""], []])
                        if rng.random() < 0.3:
                            del kw[rng.choice(["author", "date", "urgency"])]
                        ops.append(["new_block", kw])
                        cl.new_block(**kw)
                    elif op == "add_change":
                        c = rng.choice(["  * added", "", "    more"])
                        ops.append(["add_change", c])
                        cl.add_change(c)
                    elif op == "version":
                        ops.append(["version", "3.0"])
                        cl.version = "3.0"
                    elif op == "package":
                        ops.append(["package", "baz"])
                        cl.package = "baz"
                    else:
                        val = {"author": "C D <c@d>", "date": "Mon, 1 Jan 2024 01:02:03 -0500", "distributions": "stable testing",
                               "urgency": "high"}[op]
                        ops.append([op, val])
                        setattr(cl, op, val)
                except Exception as e:
                    t.failed("editing call raised %r" % (e,), operations=ops)
                    break
            if t.fail:
                break
            t.case(key=str(ops))
            if not normal_form_ok(real, cl, False, t, operations=ops):
                break
    if not t.fail:
        # sizes no small example reaches: a changelog of 700 blocks (one with 20 distributions, one with 600 change lines), a junk
        # line every 40 lines, in every input form: lenient parsing is total, agrees across the forms and its output is a normal form
        import io
        from vf.changelog_gen import large_changelog
        text, comps = large_changelog()
        ls = text.split("\n")
        for k in range(40, len(ls), 40):
            ls.insert(k, "junk line %d" % k)
        for label, txt in (("well-formed", text), ("with junk lines", "\n".join(ls))):
            try:
                with warnings.catch_warnings():
                    warnings.simplefilter("ignore")
                    cl = real.Changelog(txt)
                    others = {"bytes": real.Changelog(txt.encode("utf-8")), "text file object": real.Changelog(io.StringIO(txt)),
                              "binary file object": real.Changelog(io.BytesIO(txt.encode("utf-8"))), "lines": real.Changelog(txt.splitlines(True))}
                t.case(key=("large", label))
                if label == "well-formed" and len(blocks_of(cl)) != len(comps):
                    t.failed("a large well-formed changelog parses to %d blocks, %d were written" % (len(blocks_of(cl)), len(comps)))
                    break
                wrong = [k for k, o in others.items() if blocks_of(o) != blocks_of(cl)]
                if wrong:
                    t.failed("a large changelog parses to other blocks when given as %s" % wrong[0], text_kind=label, size=len(txt),
                             blocks_from_str=len(blocks_of(cl)), blocks_from_that_form=len(blocks_of(others[wrong[0]])))
                    break
                if not normal_form_ok(real, cl, False, t, text="(generated: large changelog, %s, %d characters)" % (label, len(txt))):
                    break
            except Exception as e:
                t.failed("parsing a large changelog raised %r" % (e,), text_kind=label)
                break
    t.done()
    ctx.level = "other"
    ctx.explanation = ("PROVED: (1) on the AST of the real parse_changelog, the parameter `strict` occurs only as the second argument of "
                       "self._parse_error(...) (never tested, assigned, stored or passed elsewhere; back end: AST data-flow check, not SMT), "
                       "and __init__ only forwards it; (2) _parse_error raises ChangelogParseError when strict and otherwise emits exactly "
                       "one warning and returns (pyvc). Together: both modes run identically up to the first _parse_error call, where strict "
                       "raises and lenient warns - so strict raises iff lenient warns, provided nothing else raises. NOT proved: "
                       "exception freedom of the lenient parser and the normal-form clause - BOUNDED part (see module docstring).")


def replay(ctx, data):
    return True
