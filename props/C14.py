"""C14  Version objects accept exactly valid version strings and decompose losslessly.

R-14a  (all strings, SMT over the real pattern object): the set of strings the constructor accepts
       == VALID, where "accepts" is  re_valid_version.match(s)  and not (epoch is None and ':' in
       upstream).  "epoch participates" is a language: for a greedy optional group at the start of
       the pattern the engine tries the group first, so it participates iff a match *with* it exists.
R-14c  ':' cannot occur in the revision group (so, without epoch, ':' in upstream <=> ':' in s).
R-14d  structural facts the decomposition relies on (revision chars exclude '-', the separator
       before the revision is '-', epoch is digits followed by ':').
B-14   bounded: every string up to length N over the minterm alphabet of the pattern (exact w.r.t.
       the pattern's view of characters): accept/reject vs VALID, fields vs an independent
       decomposition, str() identity, recomposition; sequences of component assignments vs a
       reference model ("recomposed valid version, or ValueError and object unchanged").
"""
import itertools
import random
import re

import z3

from vf import rx
from vf.pyvc import extract
from vf.runner import Unsupported

MOD = "debian.debian_support"

# the specification, written from the property statement (Policy 5.6.12 character sets)
VALID_WITH_EPOCH = r"[0-9]+:[A-Za-z0-9.+:~-]+(-[A-Za-z0-9+.~]+)?"
VALID_NO_EPOCH = r"[A-Za-z0-9.+~-]+(-[A-Za-z0-9+.~]+)?"
_valid_e = re.compile(VALID_WITH_EPOCH)
_valid_n = re.compile(VALID_NO_EPOCH)
_rev_word = re.compile(r"[A-Za-z0-9+.~]+")


def spec_valid(s):
    return bool(_valid_e.fullmatch(s) or _valid_n.fullmatch(s))


def spec_decomp(s):
    """(epoch, upstream, revision) of a valid version string, independent of the library"""
    epoch = None
    rest = s
    m = re.fullmatch(r"([0-9]+):(.+)", s, re.S)
    if m:
        epoch, rest = m.group(1), m.group(2)
    rev = None
    i = rest.rfind("-")
    if i > 0 and _rev_word.fullmatch(rest[i + 1:]):
        rest, rev = rest[:i], rest[i + 1:]
    return epoch, rest, rev


def spec_recompose(e, u, r):
    return ("%s:" % e if e is not None else "") + u + ("-%s" % r if r else "")


def _split_pattern(p):
    """locate  ^ ( (?P<epoch>E) SEP )? (?P<upstream_version>U) ( - (?P<debian_revision>R) )? END  in the
    parse tree; raises Unsupported when the pattern no longer has this shape"""
    items = list(p.tree)
    nm = rx._opname
    if items and nm(items[0][0]) == "AT":
        items = items[1:]
    if not items or nm(items[0][0]) != "MAX_REPEAT" or (items[0][1][0], items[0][1][1]) != (0, 1):
        raise Unsupported("re_valid_version does not start with a greedy optional group")
    opt_body = list(items[0][1][2])
    rest = items[1:]
    return opt_body, rest


def run(ctx):
    mod = extract.load(MOD)
    real = mod.real()
    pat = real.BaseVersion.re_valid_version
    fq = MOD + ":BaseVersion.re_valid_version"
    ctx.function_under_contract(fq, "%r flags=%d" % (pat.pattern, pat.flags))
    fq2 = MOD + ":BaseVersion._set_full_version"
    node, _ = mod.lookup("BaseVersion._set_full_version")
    ctx.function_under_contract(fq2, mod.segment(node))
    # the acceptance condition coded in _set_full_version: checked syntactically to still be
    # "match, then reject iff epoch is None and ':' in upstream_version" (otherwise R-14a would talk
    # about a different condition than the code)
    src = mod.segment(node)
    cond_ok = ('self.re_valid_version.match(version)' in src and
               'm.group("epoch") is None and ":" in m.group("upstream_version")' in src)
    if not cond_ok:
        # nothing is refuted by a different spelling of the condition: R-14a is then not generated
        # (it would talk about a condition the code no longer has) and the bounded part decides
        ctx.mark_unproved(fq2, "the acceptance condition no longer has the analysed shape (match; epoch is None and "
                               "':' in upstream_version): R-14a not generated")

    env = rx.Env()
    p = env.add(pat, name="re_valid_version")
    ve = env.add(VALID_WITH_EPOCH, 0, "VALID(with epoch)")
    vn = env.add(VALID_NO_EPOCH, 0, "VALID(no epoch)")
    env.add_chars(":-")
    env.finalize()
    M = env.lang(p, "match")
    try:
        if not cond_ok:
            raise Unsupported("acceptance condition shape")
        opt_body, rest = _split_pattern(p)
        K = env.T(p, rest, env.sigma_star())
        M_with = env.T(p, opt_body + rest, env.sigma_star())
        colon = env.char(":")
        no_colon = z3.Star(z3.Intersect(env.sigma(), z3.Complement(colon)))
        has_colon = z3.Concat(env.sigma_star(), colon, env.sigma_star())
        accepted = z3.Union(M_with, z3.Intersect(M, no_colon))
        VALID = z3.Union(env.lang(ve, "fullmatch"), env.lang(vn, "fullmatch"))

        def replay_accept(model, expect_accept_not_valid=None):
            w = env.realize(model.get("w", ""))
            try:
                real.Version(w)
                acc = True
            except ValueError:
                acc = False
            return {"confirmed": acc != spec_valid(w), "input": w, "codepoints": [ord(c) for c in w],
                    "library_accepts": acc, "valid_by_spec": spec_valid(w)}

        smt, var = env.claim_subset(accepted, VALID)
        ctx.vc("R-14a accepted(re_valid_version, colon rule) is a subset of VALID", fq, smt, theory="str",
               model_vars=[var], replay=replay_accept, kind="rx")
        smt, var = env.claim_subset(VALID, accepted)
        ctx.vc("R-14a VALID is a subset of accepted(re_valid_version, colon rule)", fq, smt, theory="str",
               model_vars=[var], replay=replay_accept, kind="rx")
        # R-14c: ':' not in the revision group, R-14d: '-' not in the revision group (last hyphen rule)
        gi = p.groupindex.get("debian_revision")
        rev_items = _group_items(p.tree, gi)
        if rev_items is None:
            raise Unsupported("group debian_revision not found")
        R = env.group_lang(p, rev_items)
        for ch, why in ((":", "R-14c ':' never occurs in the revision group (so ':' in upstream <=> ':' in s without epoch)"),
                        ("-", "R-14d '-' never occurs in the revision group (revision = what follows the LAST hyphen)")):
            smt, var = env.claim_disjoint(R, z3.Concat(env.sigma_star(), env.char(ch), env.sigma_star()))
            ctx.vc(why, fq, smt, theory="str", model_vars=[var], kind="rx")
        # vacuity: the languages are not empty (a deliberately false sibling)
        smt, var = env.smt_empty(VALID)
        ctx.vc("probe: VALID is empty (must NOT be discharged)", fq, smt, theory="str", probe=True, kind="probe")
        smt, var = env.smt_empty(accepted)
        ctx.vc("probe: accepted is empty (must NOT be discharged)", fq, smt, theory="str", probe=True, kind="probe")
    except Unsupported as e:
        ctx.mark_unproved(fq, "unsupported: %s" % e)
    run_pyvc(ctx, real)
    ctx.solve()
    bounded(ctx, env, real)
    ctx.level = "other"
    ctx.trusted += ["A-RE: CPython's re implements the language of its parse tree; a greedy optional group at the start "
                    "participates iff a match with it exists",
                    "character sets of every class/literal are taken from the running interpreter (exact, U+0000-U+10FFFF)"]
    ctx.assumptions += ["component values are str (or None for epoch / revision): upstream_version=None is outside the domain",
                        "A-UNI none needed: minterm compression covers all code points"]
    ctx.explanation = (
        "PROVED for all strings (SMT over the real compiled pattern, exact Unicode classes via minterms): the constructor's "
        "acceptance set equals VALID; ':' and '-' never occur in the revision group. BOUNDED: group values vs an "
        "independent decomposition, str() identity, recomposition and component-assignment histories (all strings up to "
        "the stated length over the pattern's minterm alphabet; that alphabet makes the enumeration exhaustive with "
        "respect to the pattern's view of a character). ALSO PROVED (pyvc, pattern as uninterpreted matches?/groups functions shared "
        "by code and spec): _set_full_version stores exactly the groups of an accepted string and on ValueError modifies nothing; "
        "_update_full_version recomposes epoch ':' upstream '-' revision; __setattr__ on every magic attribute either yields the "
        "recomposed accepted version or raises ValueError with all four private fields equal to their old values (uses the class "
        "invariant as precondition); __getattr__ incl. the debian_version alias; __str__. NOT proved: that the groups of the real "
        "pattern equal the decomposition of the property (captures) - bounded part.")


# ------------------------------------------------------------------------------------------------
# P-14c..f: the functions around the regex, with the pattern as uninterpreted (matches?, groups)
# functions shared by code and spec.  What the pattern accepts and captures is R-14a/c/d and B-14.
from vf.pyvc.speclib import SpecLib
from vf.pyvc.world import World, Contract
from vf.pyvc.values import VObj, VOpt, VSeq, VPy, VFunc, NONE, fresh, fresh_name, lift
from vf.pyvc.driver import verify_contracts


def ver_accepted(v):
    m = VRE().match(v)
    return m is not None and not (m.group("epoch") is None and ":" in m.group("upstream_version"))


def g_epoch(v):
    return VRE().match(v).group("epoch")


def g_upstream(v):
    return VRE().match(v).group("upstream_version")


def g_revision(v):
    return VRE().match(v).group("debian_revision")


def recompose(e, u, r):
    s = ""
    if e is not None:
        s = s + e + ":"
    s = s + u
    if r:
        s = s + "-" + r
    return s


def ver_inv(self):
    """class invariant of a constructed version object"""
    return (ver_accepted(self._BaseVersion__full_version)
            and self._BaseVersion__epoch == g_epoch(self._BaseVersion__full_version)
            and self._BaseVersion__upstream_version == g_upstream(self._BaseVersion__full_version)
            and self._BaseVersion__debian_revision == g_revision(self._BaseVersion__full_version)
            and self._BaseVersion__full_version == recompose(self._BaseVersion__epoch, self._BaseVersion__upstream_version,
                                                             self._BaseVersion__debian_revision))


FIELDS = ("self._BaseVersion__full_version", "self._BaseVersion__epoch", "self._BaseVersion__upstream_version",
          "self._BaseVersion__debian_revision")
UNCHANGED = " and ".join("%s == old(%s)" % (f, f) for f in FIELDS)
DECOMPOSED = ("self._BaseVersion__full_version == {v} and self._BaseVersion__epoch == g_epoch({v}) and "
              "self._BaseVersion__upstream_version == g_upstream({v}) and self._BaseVersion__debian_revision == g_revision({v})")
RECOMP_OLD = "recompose(old(self._BaseVersion__epoch), old(self._BaseVersion__upstream_version), old(self._BaseVersion__debian_revision))"
RECOMP_NOW = "recompose(self._BaseVersion__epoch, self._BaseVersion__upstream_version, self._BaseVersion__debian_revision)"


def _vobj(ex, constructed=True):
    f, e, u, r = (fresh(("opt", "str"), k) for k in ("full", "epoch", "upstream", "revision"))
    ex.assume(z3.Not(u.isnone))
    ex.assume(z3.Not(f.isnone))
    return VObj("BaseVersion", {"_BaseVersion__full_version": f.val, "_BaseVersion__epoch": e,
                                "_BaseVersion__upstream_version": u.val, "_BaseVersion__debian_revision": r}, "self")


class SetFull(Contract):
    target = MOD + ":BaseVersion._set_full_version"
    modular = True
    requires = ()
    ensures = ("ver_accepted(version)", DECOMPOSED.format(v="version"))
    raises = {"ValueError": ("not ver_accepted(version)",)}
    raises_modifies = {"ValueError": ()}
    modifies = FIELDS

    def setup(self, ex):
        return {"self": _vobj(ex), "version": fresh("str", "version")}


class UpdateFull(Contract):
    target = MOD + ":BaseVersion._update_full_version"
    modular = True
    requires = ()
    ensures = ("ver_accepted(%s)" % RECOMP_OLD, DECOMPOSED.format(v=RECOMP_OLD))
    raises = {"ValueError": ("not ver_accepted(%s)" % RECOMP_NOW,)}
    raises_modifies = {"ValueError": ()}
    modifies = FIELDS

    def setup(self, ex):
        return {"self": _vobj(ex)}


class SetAttr(Contract):
    modular = False
    modifies = FIELDS
    raises_modifies = {"ValueError": FIELDS}      # fields are written and restored: equality is the postcondition

    def __init__(self, attr):
        self.attr = attr
        self.target = MOD + ":BaseVersion.__setattr__"
        slot = {"epoch": 0, "upstream_version": 1, "debian_revision": 2, "debian_version": 2}.get(attr)
        if attr == "full_version":
            self.requires = ()
            self.ensures = ("ver_accepted(value)", DECOMPOSED.format(v="value"))
            self.raises = {"ValueError": ("not ver_accepted(value)", UNCHANGED)}
        else:
            parts = ["old(self._BaseVersion__epoch)", "old(self._BaseVersion__upstream_version)",
                     "old(self._BaseVersion__debian_revision)"]
            parts[slot] = "value"
            new = "recompose(%s)" % ", ".join(parts)
            self.requires = ("ver_inv(self)",)
            self.ensures = ("ver_accepted(%s)" % new, DECOMPOSED.format(v=new))
            self.raises = {"ValueError": ("not ver_accepted(%s)" % new, UNCHANGED)}

    def setup(self, ex):
        if self.attr == "upstream_version" or self.attr == "full_version":
            value = fresh("str", "value")
        else:
            value = fresh(("opt", "str"), "value")
        return {"self": _vobj(ex), "attr": lift(self.attr), "value": value}


class GetAttr(Contract):
    modular = False

    def __init__(self, attr):
        self.target = MOD + ":BaseVersion.__getattr__"
        self.attr = attr
        field = {"debian_version": "debian_revision"}.get(attr, attr)
        self.ensures = ("result == self._BaseVersion__%s" % field,)

    def setup(self, ex):
        return {"self": _vobj(ex), "attr": lift(self.attr)}


class Str(Contract):
    target = MOD + ":BaseVersion.__str__"
    modular = False
    ensures = ("result == self._BaseVersion__full_version",)

    def setup(self, ex):
        return {"self": _vobj(ex)}


def run_pyvc(ctx, real):
    sl = SpecLib()
    w = World(sl)
    pat = real.BaseVersion.re_valid_version
    w.spec_env["VRE"] = VFunc("builtin", "VRE", fn=lambda ex, a, kw: VPy(pat))
    for f in (ver_accepted, g_epoch, g_upstream, g_revision, recompose, ver_inv):
        w.spec_func(f)
    base = [SetFull(), UpdateFull()]
    for c in base:
        w.add_contract(c)
    variants = [SetAttr(a) for a in ("full_version", "epoch", "upstream_version", "debian_revision", "debian_version")]
    variants += [GetAttr(a) for a in ("full_version", "epoch", "upstream_version", "debian_revision", "debian_version")]
    variants += [Str()]
    for c in variants:
        c.__class__ = type("%s_%s" % (c.__class__.__name__, getattr(c, "attr", "x")), (c.__class__,), {})
    verify_contracts(ctx, w, base + variants, {})
    ctx.trusted.append("regex groups of re_valid_version as uninterpreted functions shared by code and spec; a revision group that "
                       "participates is non-empty (R+ in the pattern)")


def _group_items(items, gid):
    for op, av in items:
        nm = rx._opname(op)
        if nm == "SUBPATTERN":
            if av[0] == gid:
                return list(av[3])
            r = _group_items(av[3], gid)
            if r is not None:
                return r
        elif nm in ("MAX_REPEAT", "MIN_REPEAT", "POSSESSIVE_REPEAT"):
            r = _group_items(av[2], gid)
            if r is not None:
                return r
        elif nm == "BRANCH":
            for alt in av[1]:
                r = _group_items(alt, gid)
                if r is not None:
                    return r
    return None


def _state(v):
    return (v._BaseVersion__full_version, v._BaseVersion__epoch, v._BaseVersion__upstream_version,
            v._BaseVersion__debian_revision)


def bounded(ctx, env, real):
    rng = random.Random(ctx.seed)
    alpha = env.representatives()
    # make sure the interesting separators and a second alphanumeric are present as themselves
    for c in (":", "-", "~", "0", "a", "\n", " ", "_"):
        if c not in alpha:
            alpha.append(c)
    N = 4 if ctx.tier == "quick" else 5
    evals, nontrivial, samples, fail = 0, set(), [], None
    Version = real.Version
    strings = ["".join(t) for n in range(0, N + 1) for t in itertools.product(alpha, repeat=n)]
    if ctx.tier == "quick" and len(strings) > 120000:
        strings = [s for s in strings if len(s) <= 3] + rng.sample([s for s in strings if len(s) > 3], 80000)
    strings += ["1:2:3-4-5", "1.0-1", "0:1-", "1:-", "-1", "1:a-b:c", "1-a:b", "a" * 30 + "-1"]
    # components of any length are valid: digit runs beyond every fixed width and beyond the interpreter's own limit for
    # int(str) (4300 digits by default) - constructing, decomposing and printing never needs their numeric value
    big = "9" * 4301
    strings += [big + ":1.0-1", "1:" + big + "-1", "1." + big, "1-" + big, big, "0" * 4301 + ":1"]
    # lengths around every plausible fixed bound (64 / 65, 255 / 256 / 257, 1023 / 1024 / 1025 characters) for the whole
    # string and for each component
    for n in (63, 64, 65, 66, 127, 128, 129, 255, 256, 257, 258, 1023, 1024, 1025, 5000):
        body = ("a1.+~" * n)[:n]
        strings += [body, "1:" + body, body + "-1", "1-" + body, "2:1.0-" + body, "1:" + body + "-" + body, ("3" * n) + ":1"]
    # characters that Python's str methods (isdigit, isalnum, int(), lower ...) treat like ASCII ones but the Policy does not
    exotic = ["\u0663", "\uff17", "\u00b2", "\u212a", "\u0131", "\u017f", "_", "\u00e9"]
    strings += [a + b + c for a in ("", "1", "1:", "1.") for b in exotic for c in ("", "0", "-1", b)]
    valid_pool = []
    for s in strings:
        evals += 1
        try:
            v = Version(s)
            acc = True
        except ValueError:
            acc = False
        if acc != spec_valid(s):
            fail = dict(what="constructor accepts=%s but VALID=%s" % (acc, spec_valid(s)), input=s,
                        codepoints=[ord(c) for c in s])
            break
        if acc:
            nontrivial.add(s)
            e, u, r = spec_decomp(s)
            got = (v.epoch, v.upstream_version, v.debian_revision)
            if str(v) != s or got != (e, u, r) or spec_recompose(*got) != s or v.full_version != s:
                fail = dict(what="decomposition differs", input=s, got=list(got), expected=[e, u, r], str=str(v))
                break
            if len(valid_pool) < 400 or rng.random() < 0.01:
                valid_pool.append(s)
            if len(samples) < 3 and len(s) >= 3 and "-" in s:
                samples.append({"input": s, "fields": list(got)})
    hist = 0
    if fail is None:
        long65, long300 = ("r1.+~" * 13)[:65], ("u2.+~" * 60)[:300]
        values = {"epoch": [None, "0", "1", "", "x", "1:", "٠", "9" * 4301, "7" * 300], "upstream_version": ["1", "1.0", "a-b", "a:b", "a:3-4", "", " ", "1\n", "é", long300, long65 + "-" + long65],
                  "debian_revision": [None, "1", "", "a-b", "a:b", "~1", "1 ", long65, long300], "debian_version": [None, "2", "b:c"],
                  "full_version": ["2.0-1", "1:2", "x:1", "", "1-", "3\n"]}
        rounds = 6000 if ctx.tier == "quick" else 30000
        for rnd in range(rounds):
            s0 = rng.choice(valid_pool)
            if rnd % 3 == 0 and spec_valid("%s+h%d" % (s0, rnd)):
                s0 = "%s+h%d" % (s0, rnd)      # a string no object was built from before: the one built now is the first
            v = Version(s0)
            model = list(spec_decomp(s0))
            if str(v) != s0 or [v.epoch, v.upstream_version, v.debian_revision] != model:
                fail = dict(what="a version constructed after other objects were edited does not decompose to its string", input=s0,
                            str=str(v), got=[v.epoch, v.upstream_version, v.debian_revision])
                break
            ops = []
            for step in range(rng.randint(1, 4)):
                attr = rng.choice(list(values))
                val = rng.choice(values[attr])
                ops.append([attr, val])
                before = _state(v)
                if attr == "full_version":
                    new = str(val)
                    cand = list(spec_decomp(new)) if spec_valid(new) else None
                else:
                    m2 = list(model)
                    m2[{"epoch": 0, "upstream_version": 1, "debian_revision": 2, "debian_version": 2}[attr]] = val
                    new = spec_recompose(*m2) if m2[1] is not None else None
                    cand = list(spec_decomp(new)) if new is not None and spec_valid(new) else None
                try:
                    setattr(v, attr, val)
                    raised = None
                except ValueError:
                    raised = "ValueError"
                except Exception as ex:
                    raised = repr(ex)
                evals += 1
                hist += 1
                if cand is None:
                    ok = raised == "ValueError" and _state(v) == before
                    why = "invalid assignment must raise ValueError and leave the object exactly as it was"
                else:
                    ok = raised is None and str(v) == new and \
                        [v.epoch, v.upstream_version, v.debian_revision] == cand
                    why = "valid assignment must yield the recomposed version"
                    model = cand
                if not ok:
                    fail = dict(what=why, start=s0, operations=ops, raised=raised, state_after=list(_state(v)),
                                state_before=list(before), expected_string=new)
                    break
                nontrivial.add((s0, tuple(map(tuple, ops))))
            if fail:
                break
            # another object built from the same string afterwards is that string again, whatever happened to the first one
            again = Version(s0)
            if str(again) != s0 or [again.epoch, again.upstream_version, again.debian_revision] != list(spec_decomp(s0)):
                fail = dict(what="a second object built from the same string is affected by the edits of the first", input=s0,
                            operations_on_the_first=ops, str=str(again))
                break
    ctx.bounded("B-14 constructor / decomposition / component assignment histories", evals, len(nontrivial),
                "all strings of length <= %d over the minterm alphabet of re_valid_version and VALID (one representative per "
                "class of characters the patterns can distinguish, plus ':', '-', '~', newline, space, '_') + hand-picked "
                "longer ones; accepted strings are compared with an independent decomposition; seeded histories of 1-4 "
                "component assignments (valid and invalid values) against a reference model; non-trivial = distinct "
                "accepted strings and distinct histories" % N,
                "length <= %d exhaustive%s; %d assignment steps" % (N, " (length 4 sampled)" if ctx.tier == "quick" else "", hist),
                samples)
    if fail:
        ctx.violation("B-14 " + fail["what"], "B-14 bounded: Version constructor / setters", fail["what"], inputs=fail,
                      confirmed=True)


def replay(ctx, data):
    from debian.debian_support import Version
    inp = data.get("inputs") or {}
    if "input" in inp:
        try:
            Version(inp["input"])
            acc = True
        except ValueError:
            acc = False
        return acc == spec_valid(inp["input"])
    return True
