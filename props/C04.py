"""C04  Well-formed changelogs round-trip byte-for-byte through Changelog.

B-04 bounded stand-in (the regex lemmas and parser-loop contracts of DESIGN §5 C04 are not generated
yet): texts generated from the deb-changelog(5) grammar with known components are parsed in strict mode
with warnings turned into errors; str() must reproduce the text byte-for-byte and the blocks must
expose exactly the written components, in file order; str and list-of-lines input forms.
"""
import random
import warnings

from vf.bounded import Tally
from vf.pyvc import extract
from vf.changelog_gen import gen_changelog

MOD = "debian.changelog"


import re
# ------------------------------------------------------------------------------------------------
# R-04: language lemmas on the real patterns of debian.changelog, for all lines (SMT via rx)
import z3
from vf import rx
from vf.runner import Unsupported

WF_HEADER = (r"[a-z0-9][-+0-9a-z.]* \([^() \t\n]+\)( [-+0-9a-z.]+)+; urgency=[-0-9a-z]+( [^,\n]*[^,\s])?"
             r"(, [-0-9a-z]+=[^,\n]*[^,\s])*")
WF_TRAILER = (r" -- [^\n]* <[^\n]*>  ([A-Za-z]+, )?[0-9]{1,2} [A-Za-z]+ [0-9]{4} [0-9]{1,2}:[0-9][0-9]:[0-9][0-9] [-+][0-9]{4}")
HEADING_SHAPE = r"\w[-+0-9a-z.]* \([^() \t]+\)(\s+[-+0-9a-z.]+)+;"       # the loosest heading the parser may take for one
WF_CHANGE = r"  [^\n]*"
WF_BLANK = r"[ \t]*"


def regex_lemmas(ctx, real):
    fq = MOD + ":patterns"
    try:
        env = rx.Env()
        P = {n: env.add(getattr(real, n), name=n) for n in ("topline", "endline", "endline_nodetails", "changere", "blankline")}
        S = {n: env.add(t, re.IGNORECASE if n == "header" else 0, "WF " + n) for n, t in
             (("header", WF_HEADER), ("trailer", WF_TRAILER), ("change", WF_CHANGE), ("blank", WF_BLANK))}
        S["heading_shape"] = env.add(HEADING_SHAPE, re.IGNORECASE, "heading shape")
        env.add_chars(";")
        env.finalize()
        L = lambda p, how="match": env.lang(p, how)
        W = lambda n: env.lang(S[n], "fullmatch")
        for n in P:
            ctx.function_under_contract(MOD + ":" + n, repr(getattr(real, n).pattern))
        claims = [
            ("R-04a every well-formed header line matches topline", env.claim_subset(W("header"), L(P["topline"])), "topline"),
            ("R-04a every line that matches topline contains ';' (line.split(';', 1)[1] cannot fail)",
             env.claim_subset(L(P["topline"]), z3.Concat(env.sigma_star(), env.char(";"), env.sigma_star())), "topline"),
            ("R-04a every line that matches topline starts with name, blank, parenthesised version, at least one distribution, ';'",
             env.claim_subset(L(P["topline"]), env.lang(S["heading_shape"], "match")), "topline"),
            ("R-04b every change line matches changere", env.claim_subset(W("change"), L(P["changere"])), "changere"),
            ("R-04b no change line is taken for a trailer (endline)", env.claim_disjoint(L(P["changere"]), L(P["endline"])), "endline"),
            ("R-04b no change line is taken for a bare trailer (endline_nodetails)",
             env.claim_disjoint(W("change"), z3.Intersect(L(P["endline_nodetails"]), z3.Complement(L(P["blankline"])))), "endline_nodetails"),
            ("R-04b every blank line matches blankline", env.claim_subset(W("blank"), L(P["blankline"])), "blankline"),
            ("R-04b no header line is blank or a change line",
             env.claim_disjoint(W("header"), z3.Union(L(P["blankline"]), L(P["changere"]))), "topline"),
            ("R-04b no trailer is a header, blank or change line",
             env.claim_disjoint(W("trailer"), z3.Union(L(P["topline"]), L(P["blankline"]), L(P["changere"]))), "endline"),
        ]
        # trailer: proved compositionally (concatenation is monotone): the part before the date group and the
        # date part are compared separately with the corresponding slices of the real endline pattern
        items = list(P["endline"].tree)
        while items and rx._opname(items[0][0]) == "AT":
            items = items[1:]
        cut = [i for i, (op, av) in enumerate(items) if rx._opname(op) == "SUBPATTERN" and av[0] == 4]
        if len(cut) == 1:
            head_real = env.T(P["endline"], items[:cut[0]], env.eps())
            tail_real = env.T(P["endline"], items[cut[0]:], env.eps())
            head_spec = env.add(r" -- [^\n]* <[^\n]*>  ", 0, "WF trailer head")
            tail_spec = env.add(r"([A-Za-z]+, )?[0-9]{1,2} [A-Za-z]+ [0-9]{4} [0-9]{1,2}:[0-9][0-9]:[0-9][0-9] [-+][0-9]{4}", 0,
                                "WF trailer date")
            env.finalize()
            head_real = env.T(P["endline"], items[:cut[0]], env.eps())
            tail_real = env.T(P["endline"], items[cut[0]:], env.eps())
            claims.append(("R-04b trailer head ' -- name <email>  ' is accepted by the part of endline before the date group",
                           env.claim_subset(env.lang(head_spec, "fullmatch"), head_real), "endline"))
            claims.append(("R-04b every well-formed date is accepted by the date group of endline (to the end of the line)",
                           env.claim_subset(env.lang(tail_spec, "fullmatch"), tail_real), "endline"))
        else:
            ctx.mark_unproved(MOD + ":endline", "endline has no top-level group 4 (date)")
        for name, (smt, var), pat in claims:
            ctx.vc(name, MOD + ":" + pat, smt, theory="str", model_vars=[var], kind="rx",
                   replay=lambda m, env=env: {"confirmed": False, "line": env.realize(m.get("w", ""))})
        smt, var = env.smt_empty(W("header"))
        ctx.vc("probe: no well-formed header exists (must NOT be discharged)", fq, smt, theory="str", probe=True, kind="probe")
    except Unsupported as e:
        ctx.mark_unproved(fq, "unsupported: %s" % e)
    ctx.solve()


# ------------------------------------------------------------------------------------------------
# P-04c  ChangeBlock._format from its real AST: the text of a block is the header
#   "package (version) distributions; urgency=<urgency><comment>[, key=value]..." + newline, every change line + newline, the
# trailer " -- author<separator>date" + newline unless the block has none, and every trailing line + newline - each component
# exactly as stored, the extra pairs in their stored order; ChangelogCreateError exactly when a required component is missing.
from vf.pyvc.speclib import SpecLib
from vf.pyvc.world import World, Contract
from vf.pyvc.interp import LoopSpec
from vf.pyvc.values import VObj, VBox, VSeq, VBool, VFunc, NONE, fresh, fresh_name, lift
from vf.pyvc.driver import verify_contracts

PAIR = ("tuple", ["str", "str"])


def fmt_pairs(ps):
    if len(ps) == 0:
        return ""
    return ", " + ps[0][0] + "=" + ps[0][1] + fmt_pairs(ps[1:])


def fmt_lines(ls):
    if len(ls) == 0:
        return ""
    return ls[0] + "\n" + fmt_lines(ls[1:])


def fmt_header(b):
    return (the(b.package) + " (" + the(b._raw_version) + ") " + the(b.distributions) + "; urgency=" + the(b.urgency)
            + b.urgency_comment + fmt_pairs(b.other_pairs.pairs) + "\n")


def fmt_trailer(b):
    if b._no_trailer:
        return ""
    t = " --"
    if b.author is not None:
        t = t + " " + the(b.author)
    if b.date is not None:
        t = t + b._trailer_separator + the(b.date)
    return t + "\n"


def complete(b, allow_missing_author):
    return (b.package is not None and b._raw_version is not None and b.distributions is not None and b.urgency is not None
            and (b._no_trailer or allow_missing_author or (b.author is not None and b.date is not None)))


class BlockFormat(Contract):
    locals_order = ['self', 'allow_missing_author', 'block', 'key', 'value', 'change', 'line']
    target = MOD + ":ChangeBlock._format"
    modular = False
    ensures = ("complete(self, allow_missing_author)",
               "result == fmt_header(self) + fmt_lines(self._changes) + fmt_trailer(self) + fmt_lines(self._trailing)")
    raises = {"ChangelogCreateError": ("not complete(self, allow_missing_author)",)}
    loops = {0: LoopSpec(invariants=("0 <= pi and pi <= len(self.other_pairs.pairs)",
                                     "block + fmt_pairs(self.other_pairs.pairs[pi:]) + '\\n' == fmt_header(self)"),
                         index="pi", var_types={"key": "str", "value": "str"}),
             1: LoopSpec(invariants=("0 <= ci and ci <= len(self._changes)",
                                     "block + fmt_lines(self._changes[ci:]) == fmt_header(self) + fmt_lines(self._changes)"),
                         index="ci", var_types={"change": "str"}),
             2: LoopSpec(invariants=("0 <= ti and ti <= len(self._trailing)",
                                     "block + fmt_lines(self._trailing[ti:]) == fmt_header(self) + fmt_lines(self._changes) + "
                                     "fmt_trailer(self) + fmt_lines(self._trailing)"),
                         index="ti", var_types={"line": "str"})}

    def setup(self, ex):
        pairs = VObj("OrderedPairs", {"pairs": fresh(("list", PAIR), "pairs")}, "other_pairs")
        me = VObj("ChangeBlock", {"package": fresh(("opt", "str"), "package"), "_raw_version": fresh(("opt", "str"), "version"),
                                  "distributions": fresh(("opt", "str"), "dists"), "urgency": fresh(("opt", "str"), "urgency"),
                                  "urgency_comment": fresh("str", "ucomment"), "other_pairs": pairs,
                                  "_changes": fresh(("list", "str"), "changes"), "_no_trailer": fresh("bool", "no_trailer"),
                                  "author": fresh(("opt", "str"), "author"), "date": fresh(("opt", "str"), "date"),
                                  "_trailer_separator": fresh("str", "sep"), "_trailing": fresh(("list", "str"), "trailing")}, "self")
        return {"self": me, "allow_missing_author": fresh("bool", "allow_missing_author")}


# P-04b'  ChangeBlock.add_trailing_line (how the parser files every line after the trailer): the line is appended as it is, nothing
# else of the block changes
class AddTrailingLine(Contract):
    locals_order = ['self', 'line']
    target = MOD + ":ChangeBlock.add_trailing_line"
    modular = False
    modifies = ("self._trailing",)
    ensures = ("self._trailing == old(self._trailing) + [line]",)

    def setup(self, ex):
        me = BlockFormat().setup(ex)["self"]
        return {"self": me, "line": fresh("str", "line")}


def verify_block_format(ctx):
    sl = SpecLib()
    w = World(sl)
    sl.models[("OrderedPairs", "items")] = lambda ex, a, kw: a[0].fields["pairs"]      # dict.items() in insertion order
    w.spec_env["the"] = VFunc("builtin", "the", fn=lambda ex, a, kw: a[0].val if hasattr(a[0], "isnone") else a[0])
    for f in (fmt_header, fmt_trailer, complete):
        w.spec_func(f)
    w.spec_func(fmt_pairs, rec=dict(args=[("list", PAIR)], ret="str"))
    w.spec_func(fmt_lines, rec=dict(args=["list:str"], ret="str"))
    verify_contracts(ctx, w, [BlockFormat(), AddTrailingLine()], {})
    ctx.assumptions.append("the extra header pairs are kept in a dict: its items() come in insertion order (modelled as a list of pairs)")
    ctx.solve()


# P-04c  Changelog._format (what str(changelog) and write_to_open_file produce): the leading blank lines, each followed by a
# newline, then the text of every block in order - nothing between, nothing after (the joined list is the list add_nl(blank lines) + texts_upto(blocks)).  The block formatter is used through an
# abstract contract (its text is an uninterpreted function of the block and the flag; it may raise ChangelogCreateError).
def block_text(b, flag):
    return ""       # opaque: ChangeBlock._format(b, flag), specified by P-04b


def add_nl(l, k):
    """the first k lines, each with its newline"""
    if k <= 0:
        return no_pieces()
    return add_nl(l, k - 1) + [l[k - 1] + "\n"]


def texts_upto(bs, k, flag):
    """the texts of the first k blocks"""
    if k <= 0:
        return no_pieces()
    return texts_upto(bs, k - 1, flag) + [block_text(bs[k - 1], flag)]


class BlockFormatAbs(Contract):
    target = MOD + ":ChangeBlock._format"
    modular = True
    returns = "str"
    ensures = ("result == block_text(self, allow_missing_author)",)
    raises = {"ChangelogCreateError": ()}
    raises_modifies = {"ChangelogCreateError": ()}


class ChangelogFormat(Contract):
    locals_order = ['self', 'allow_missing_author', 'pieces', 'line', 'block']
    target = MOD + ":Changelog._format"
    modular = False
    ensures = ("result == ''.join(add_nl(self.initial_blank_lines, len(self.initial_blank_lines)) + "
               "texts_upto(self._blocks, len(self._blocks), allow_missing_author))",)
    raises = {"ChangelogCreateError": ()}
    loops = {0: LoopSpec(invariants=("0 <= li and li <= len(self.initial_blank_lines)",
                                     "pieces == add_nl(self.initial_blank_lines, li)",
                                     "mention(add_nl(self.initial_blank_lines, li + 1))"),
                         index="li", var_types={"line": "str", "pieces": ("list", "str")}),
             1: LoopSpec(invariants=("0 <= bi and bi <= len(self._blocks)",
                                     "pieces == add_nl(self.initial_blank_lines, len(self.initial_blank_lines)) + "
                                     "texts_upto(self._blocks, bi, allow_missing_author)",
                                     "mention(texts_upto(self._blocks, bi + 1, allow_missing_author))"),
                         index="bi", var_types={"block": ("ref", "ChangeBlock"), "pieces": ("list", "str")})}

    def setup(self, ex):
        me = VObj("Changelog", {"initial_blank_lines": fresh(("list", "str"), "blank"),
                                "_blocks": fresh(("list", ("ref", "ChangeBlock")), "blocks")}, "self")
        return {"self": me, "allow_missing_author": fresh("bool", "allow_missing_author")}


def verify_changelog_format(ctx):
    sl = SpecLib()
    w = World(sl)
    w.heap_classes["ChangeBlock"] = {}
    w.spec_func(block_text, rec=dict(args=[("ref", "ChangeBlock"), "bool"], ret="str", opaque=True))
    w.spec_env["no_pieces"] = VFunc("builtin", "no_pieces",
                                    fn=lambda ex, a, kw: VSeq("list", "str", z3.Empty(z3.SeqSort(z3.SeqSort(z3.IntSort())))))
    w.spec_func(add_nl, rec=dict(args=[("list", "str"), "int"], ret=("list", "str")))
    w.spec_func(texts_upto, rec=dict(args=[("list", ("ref", "ChangeBlock")), "int", "bool"], ret=("list", "str")))
    w.add_contract(BlockFormatAbs())
    verify_contracts(ctx, w, [ChangelogFormat()], {})
    ctx.solve()


def run(ctx):
    mod = extract.load(MOD)
    real = mod.real()
    verify_block_format(ctx)
    verify_changelog_format(ctx)
    for q in ("Changelog.parse_changelog", "ChangeBlock._format", "ChangeBlock.add_trailing_line", "Changelog._format"):
        node, _ = mod.lookup(q)
        if node is not None:
            ctx.function_under_contract(MOD + ":" + q, mod.segment(node))
    regex_lemmas(ctx, real)
    rng = random.Random(ctx.seed)
    rounds = 2500 if ctx.tier == "quick" else 40000
    t = Tally(ctx, "B-04 strict parse without warning, byte-identical str(), exposed components",
              "texts of 1-3 blocks generated from the deb-changelog(5) grammar: 4 package names, 4 versions, 1-3 of 5 distributions, "
              "6 urgencies x 3 urgency comments, 0-2 extra key=value pairs (also in non-alphabetical order), change lines with "
              "non-ASCII / '#' / ':' / tabs / trailing blanks, blank lines inside and between blocks, leading blank lines, authors "
              "with empty or non-ASCII names, three date layouts; parses into an object whose earlier parse failed or stopped early; edits of the Version objects handed out; non-trivial = distinct texts", "%d texts" % rounds)
    prev_text = None
    for _ in range(rounds):
        text, comps = gen_changelog(rng)
        import io
        latin = None
        try:
            latin = text.encode("latin-1")
        except UnicodeEncodeError:
            pass
        for form in ("str", "lines", "lines+nl", "str, allow_empty_author", "bytes", "text file object", "binary file object",
                     "list of UTF-8 bytes lines", "latin-1 bytes lines, parse_changelog(encoding='latin-1') on a default object",
                     "utf-8 bytes lines, parse_changelog(encoding='utf-8') on a latin-1 object"):
            src = text if form.startswith("str") else (text.split("\n")[:-1] if form == "lines" else text.splitlines(True))
            if form == "bytes":
                src = text.encode("utf-8")
            elif form == "text file object":
                src = io.StringIO(text)
            elif form == "binary file object":
                src = io.BytesIO(text.encode("utf-8"))
            elif form == "list of UTF-8 bytes lines":
                src = [l.encode("utf-8") for l in text.splitlines(True)]
            elif form.startswith("latin-1") and latin is None:
                continue
            try:
                with warnings.catch_warnings():
                    warnings.simplefilter("error")
                    if form.startswith("latin-1"):
                        cl = real.Changelog()
                        cl.parse_changelog(latin.splitlines(True), strict=True, encoding="latin-1")
                    elif form.startswith("utf-8 bytes lines"):
                        cl = real.Changelog(encoding="latin-1")
                        cl.parse_changelog([l.encode("utf-8") for l in text.splitlines(True)], strict=True, encoding="utf-8")
                    else:
                        cl = real.Changelog(src, strict=True, **({"allow_empty_author": True} if "allow" in form else {}))
                out = str(cl)
                # the other ways of writing the changelog out give the same text
                fh = io.StringIO()
                cl.write_to_open_file(fh)
                if fh.getvalue() != out:
                    raise AssertionError("write_to_open_file() wrote %r, str() gives %r" % (fh.getvalue(), out))
                if not form.endswith("object") and "parse_changelog" not in form and bytes(cl) != out.encode("utf-8"):
                    raise AssertionError("bytes() differs from str().encode('utf-8')")
            except Exception as e:
                t.failed("strict parsing of a well-formed changelog raised / warned: %r" % (e,), text=text, form=form)
                break
            t.case(key=text)
            if out != text:
                t.failed("str() does not reproduce the text byte-for-byte", text=text, form=form, out=out)
                break
            blocks = list(cl)
            if len(blocks) != len(comps):
                t.failed("number of blocks differs", text=text, got=len(blocks), expected=len(comps))
                break
            for b, c in zip(blocks, comps):
                got = dict(package=b.package, version=str(b.version), distributions=b.distributions, urgency=b.urgency,
                           urgency_comment=b.urgency_comment, other_pairs=list(b.other_pairs.items()), changes=list(b.changes()),
                           author=b.author, date=b.date)
                if got != c:
                    t.failed("a block does not expose the written components", text=text, form=form, got=got, expected=c)
                    break
            if t.fail:
                break
        if t.fail:
            break
        # parse_changelog's postcondition does not depend on what the object held before: a second parse into the
        # same object must give the second text only
        if prev_text is not None and rng.random() < 0.3:
            try:
                with warnings.catch_warnings():
                    warnings.simplefilter("error")
                    cl2 = real.Changelog(prev_text, strict=True)
                    cl2.parse_changelog(text, strict=True)
                out2 = str(cl2)
            except Exception as e:
                t.failed("second strict parse into the same object raised / warned: %r" % (e,), first=prev_text, text=text)
                break
            t.case(key=("reuse", prev_text, text))
            if out2 != text or len(list(cl2)) != len(comps):
                t.failed("a second parse_changelog() into the same object does not give the second text", first=prev_text,
                         text=text, out=out2)
                break
        # ... also when the earlier parse failed half way, or was told to stop before the first block
        if rng.random() < 0.3:
            first = rng.choice(["\n# comment\n\nnot a changelog\n", "\n\n  junk\n", "vim: set ft=changelog\nfoo (1.0) unstable\n"])
            how = rng.choice(["strict parse that raises", "max_blocks=0"])
            try:
                cl3 = real.Changelog()
                try:
                    with warnings.catch_warnings():
                        warnings.simplefilter("ignore")
                        if how == "max_blocks=0":
                            cl3.parse_changelog(first + text, max_blocks=0, strict=False)
                        else:
                            cl3.parse_changelog(first, strict=True)
                except real.ChangelogParseError:
                    pass
                with warnings.catch_warnings():
                    warnings.simplefilter("error")
                    cl3.parse_changelog(text, strict=True)
                out3 = str(cl3)
            except Exception as e:
                t.failed("strict parse into an object whose earlier parse failed / stopped early raised / warned: %r" % (e,),
                         first=first, earlier=how, text=text)
                break
            t.case(key=("reuse-after-failure", first, how, text))
            if out3 != text or len(list(cl3)) != len(comps):
                t.failed("a parse into an object whose earlier parse failed / stopped early does not give the text", first=first,
                         earlier=how, text=text, out=out3)
                break
        # what the blocks hand out is the caller's to change: editing a returned Version changes neither this changelog nor any
        # other that is parsed later
        if rng.random() < 0.3:
            try:
                with warnings.catch_warnings():
                    warnings.simplefilter("error")
                    cl4 = real.Changelog(text, strict=True)
                    for b in cl4:
                        v = b.version
                        try:
                            v.debian_revision = "99edited"
                            v.epoch = "77"
                        except ValueError:
                            pass
                    again = [str(b.version) for b in cl4]
                    fresh = [str(b.version) for b in real.Changelog(text, strict=True)]
                    out4 = str(cl4)
            except Exception as e:
                t.failed("editing the Version objects a changelog hands out raised %r" % (e,), text=text)
                break
            t.case(key=("edit-returned-version", text))
            if again != [c["version"] for c in comps] or fresh != again or out4 != text:
                t.failed("editing a Version object handed out by a block changed what the changelog (or a later one) exposes",
                         text=text, versions_after=again, versions_of_a_fresh_parse=fresh, expected=[c["version"] for c in comps])
                break
        prev_text = text
        if len(t.samples) < 2:
            t.samples.append({"text": text})
    if not t.fail:
        # sizes no small example reaches: a changelog of 700 blocks (about 100 kB; one block with 20 distributions, one with 600
        # change lines) in every input form and through every way of writing it out
        import io
        from vf.changelog_gen import large_changelog, aligned_changelogs
        for what_, text_, comps_ in aligned_changelogs():
            try:
                with warnings.catch_warnings():
                    warnings.simplefilter("error")
                    ok_ = str(real.Changelog(text_, strict=True)) == text_ and str(real.Changelog(text_.encode("utf-8"), strict=True)) == text_
                    nb_ = len(list(real.Changelog(text_, strict=True)))
            except Exception as e:
                t.failed("strict parsing of a large well-formed changelog raised / warned: %r" % (e,), size=len(text_), layout=what_)
                break
            t.case(key=("large aligned", what_))
            if not ok_ or nb_ != len(comps_):
                t.failed("a large changelog with %s is not reproduced byte-for-byte" % what_, size=len(text_), blocks=nb_, expected=len(comps_))
                break
        text, comps = large_changelog()
        forms_ = {"str": lambda: text, "bytes": lambda: text.encode("utf-8"), "lines": lambda: text.splitlines(True),
                  "text file object": lambda: io.StringIO(text), "binary file object": lambda: io.BytesIO(text.encode("utf-8")),
                  "bytes lines": lambda: [l.encode("utf-8") for l in text.splitlines(True)]}
        for form, mk in ([] if t.fail else forms_.items()):
            try:
                with warnings.catch_warnings():
                    warnings.simplefilter("error")
                    cl = real.Changelog(mk(), strict=True)
                out = str(cl)
                fh = io.StringIO()
                cl.write_to_open_file(fh)
                blocks = list(cl)
            except Exception as e:
                t.failed("strict parsing of a large well-formed changelog raised / warned: %r" % (e,), size=len(text), form=form)
                break
            t.case(key=("large", form))
            if out != text or fh.getvalue() != text or len(blocks) != len(comps) or \
                    [(b.package, str(b.version), b.distributions, list(b.changes())) for b in blocks] != \
                    [(c["package"], c["version"], c["distributions"], c["changes"]) for c in comps]:
                first = next((i for i, (x, y) in enumerate(zip(out, text)) if x != y), min(len(out), len(text)))
                t.failed("a large changelog is not reproduced byte-for-byte / its blocks are not the written ones", size=len(text), form=form,
                         blocks_got=len(blocks), blocks_expected=len(comps), first_text_difference_at=first if out != text else None)
                break
    t.done()
    ctx.level = "other"
    ctx.explanation = ("PROVED for all lines (SMT on the real pattern objects): every well-formed header matches topline and every topline "
                       "match contains ';'; trailer head and date are accepted by the corresponding parts of endline; change lines match "
                       "changere and are never taken for a trailer; blank lines match blankline; the line classes of a well-formed changelog "
                       "are pairwise not confusable by the parser's patterns. ALSO PROVED from the AST: ChangeBlock._format writes header, "
                       "change lines, trailer and trailing lines exactly from the stored components (three loop invariants; extra pairs "
                       "in stored order; ChangelogCreateError iff a required component is missing). NOT proved: the parser state "
                       "machine and Changelog._format - "
                       "BOUNDED part (see module docstring).")
    ctx.assumptions += ["change text contains no line-boundary character other than '\\n' (str input is split with str.splitlines)",
                        "urgency comments contain no ',' (the header is split at commas)"]


def replay(ctx, data):
    return True
