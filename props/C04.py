"""C04  Well-formed changelogs round-trip byte-for-byte through Changelog.

B-04 bounded stand-in (the regex lemmas and parser-loop contracts of DESIGN §5 C04 are not generated
yet): texts generated from the deb-changelog(5) grammar with known components are parsed in strict mode
with warnings turned into errors; str() must reproduce the text byte-for-byte and the blocks must
expose exactly the written components, in file order; str and list-of-lines input forms.
"""
import random
import warnings

from vf.bounded import Tally
from vf.pyvc import extract
from vf.changelog_gen import gen_changelog

MOD = "debian.changelog"


def run(ctx):
    mod = extract.load(MOD)
    real = mod.real()
    for q in ("Changelog.parse_changelog", "ChangeBlock._format", "Changelog._format"):
        node, _ = mod.lookup(q)
        if node is not None:
            ctx.function_under_contract(MOD + ":" + q, mod.segment(node))
    rng = random.Random(ctx.seed)
    rounds = 2500 if ctx.tier == "quick" else 40000
    t = Tally(ctx, "B-04 strict parse without warning, byte-identical str(), exposed components",
              "texts of 1-3 blocks generated from the deb-changelog(5) grammar: 4 package names, 4 versions, 1-3 of 5 distributions, "
              "6 urgencies x 3 urgency comments, 0-2 extra key=value pairs (also in non-alphabetical order), change lines with "
              "non-ASCII / '#' / ':' / tabs / trailing blanks, blank lines inside and between blocks, leading blank lines, authors "
              "with empty or non-ASCII names, three date layouts; non-trivial = distinct texts", "%d texts" % rounds)
    for _ in range(rounds):
        text, comps = gen_changelog(rng)
        for form in ("str", "lines", "lines+nl"):
            src = text if form == "str" else (text.split("\n")[:-1] if form == "lines" else text.splitlines(True))
            try:
                with warnings.catch_warnings():
                    warnings.simplefilter("error")
                    cl = real.Changelog(src, strict=True)
                out = str(cl)
            except Exception as e:
                t.failed("strict parsing of a well-formed changelog raised / warned: %r" % (e,), text=text, form=form)
                break
            t.case(key=text)
            if out != text:
                t.failed("str() does not reproduce the text byte-for-byte", text=text, form=form, out=out)
                break
            blocks = list(cl)
            if len(blocks) != len(comps):
                t.failed("number of blocks differs", text=text, got=len(blocks), expected=len(comps))
                break
            for b, c in zip(blocks, comps):
                got = dict(package=b.package, version=str(b.version), distributions=b.distributions, urgency=b.urgency,
                           urgency_comment=b.urgency_comment, other_pairs=list(b.other_pairs.items()), changes=list(b.changes()),
                           author=b.author, date=b.date)
                if got != c:
                    t.failed("a block does not expose the written components", text=text, form=form, got=got, expected=c)
                    break
            if t.fail:
                break
        if t.fail:
            break
        if len(t.samples) < 2:
            t.samples.append({"text": text})
    t.done()
    ctx.level = "other"
    ctx.explanation = "BOUNDED ONLY in this revision (see module docstring)."
    ctx.assumptions += ["change text contains no line-boundary character other than '\\n' (str input is split with str.splitlines)",
                        "urgency comments contain no ',' (the header is split at commas)"]


def replay(ctx, data):
    return True
