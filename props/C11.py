"""C11  List views of a field read the exact values and write back only what changed.

B-11 bounded stand-in (the tokenizer / token-list contracts of DESIGN §5 C11 are not generated yet):
generated list fields (whitespace- and comma-separated; single- and multi-line; arbitrary separator
layout; trailing separators; comment lines between continuation lines; no space after the colon)
inside documents with neighbouring fields x histories of append / remove / replace / edits through
value references.  Oracle: `split_spec` (independent splitting of the field's text), a list model for
the edits, byte spans of the other fields from the independent scanner.
"""
import random
import re

from vf.bounded import Tally
from vf.pyvc import extract
from vf import repro_model as rm

MOD = "debian._deb822_repro.parsing"
from vf import tricky
WORDS = ["amd64", "i386", "any", "linux-any", "a", "b1", "x_y", "any", "#hash", "#"] + [w for w in tricky.WORDS if "," not in w]


def split_spec(field_text, kind):
    """values of a list field from its raw text (text after the colon, comment lines dropped)"""
    body = field_text.split(":", 1)[1]
    # the first line is the rest of the field line, never a comment line ("List:#x" has the value "#x")
    lines = [l for i, l in enumerate(body.split("\n")) if i == 0 or not l.startswith("#")]
    flat = "\n".join(lines)
    if kind == "space":
        return flat.split()
    return [x.strip() for x in flat.split(",") if x.strip()]


def gen_list_field(rng, kind, name):
    n = rng.randint(1, 5)      # a field without any value is not a list field (the library asserts a non-empty value)
    vals = [rng.choice(WORDS) for _ in range(n)]
    if kind == "comma" and rng.random() < 0.15:
        # a comma-separated value may itself run over many continuation lines
        k = rng.randrange(n)
        vals[k] = rng.choice(["w0", "#w0", "#"]) + "".join("\n%sw%d x" % (rng.choice([" ", "\t", "  "]), j) for j in range(1, rng.choice([2, 6, 9])))
    sep = lambda: rng.choice([" ", "  ", "\t"]) if kind == "space" else rng.choice([", ", ",", " , ", ",  "])
    text = name + rng.choice([": ", ":", ":  "])
    for i, v in enumerate(vals):
        text += v
        last = i == len(vals) - 1
        brk = rng.random() < 0.3
        if not last or rng.random() < 0.3:
            s = sep()
            if brk:
                text += s.rstrip(" \t") if kind == "comma" else ""
                text += "\n" + ("# note\n" if rng.random() < 0.3 else "") + rng.choice([" ", "\t", "   "])
            else:
                text += s
            if kind == "comma" and rng.random() < 0.1:
                text += ","
    text = text.rstrip(" \t")
    if text.endswith("\n") or text.endswith("\n ") or text.split("\n")[-1].strip(" \t") == "":
        text = text.rstrip(" \t\n")
    if rng.random() < 0.2 and not text.endswith(","):
        # blanks or a tab between the last value and the end of the line (no trailing separator): they belong to no value
        text += rng.choice([" ", "  ", "\t", " \t"])
    return text + "\n", vals


def run(ctx):
    mod = extract.load(MOD)
    # the containers the edits are built on - a list view keeps the tokens of the field in a LinkedList (_token_list) and edits it with append / insert / remove_node - are verified from the real AST of debian._util (same contracts as C09)
    from props import C09 as _c09
    _c09.verify_ordering_machinery(ctx)
    import debian._deb822_repro as repro
    for q in ("Deb822ParsedTokenList.append_value", "Deb822ParsedTokenList.append_separator", "Deb822ParsedTokenList.replace",
              "Deb822ParsedTokenList.remove", "Deb822ParsedTokenList._remove_node", "Deb822ParsedTokenList._update_field",
              "_parse_whitespace_list_value", "_parse_comma_list_value"):
        node, _ = mod.lookup(q)
        if node is not None:
            ctx.function_under_contract(MOD + ":" + q, mod.segment(node))
    interp = {"space": repro.LIST_SPACE_SEPARATED_INTERPRETATION, "comma": repro.LIST_COMMA_SEPARATED_INTERPRETATION}
    rng = random.Random(ctx.seed)
    rounds = 3000 if ctx.tier == "quick" else 40000
    t = Tally(ctx, "B-11 list views: exact values, untouched close, edited list after append/remove/replace/references",
              "generated list fields of 1-5 values (duplicates included) with random separator layout, line breaks, comment lines, "
              "trailing separators, with or without space after the colon, first or last field of the document, document with or "
              "without final newline x histories of 0-3 edits (append, remove, replace, set / remove through references, a lazy walk over the references while the value ahead is removed, references used in a later session of the same view, values the list refuses, aborted sessions); non-trivial = distinct (field text, history)", "%d cases" % rounds)
    for _ in range(rounds):
        kind = rng.choice(["space", "comma"])
        ftext, vals = gen_list_field(rng, kind, "List")
        before = rng.choice(["", "Source: foo\n", "# c\nSource: foo\n x\n"])
        after = rng.choice(["", "X: y\n", "X: y\n z\n\nPackage: p\n"])
        doc = before + ftext + after
        if after == "" and rng.random() < 0.4:
            doc = doc[:-1]
        start, end = len(before), len(before) + len(ftext)
        try:
            d = repro.parse_deb822_file(doc.splitlines(True))
            p = next(iter(d))
            kv = p.get_kvpair_element("List")
            with kv.interpret_as(interp[kind]) as l:
                got = list(l)
            if rng.random() < 0.5:
                # reading through value references (without assigning anything) is reading too
                with kv.interpret_as(interp[kind]) as l:
                    via_refs = [r.value for r in l.iter_value_references()]
                if via_refs != got:
                    raise AssertionError("iter_value_references yields %r, the view yields %r" % (via_refs, got))
        except Exception as e:
            t.failed("reading the list view raised %r" % (e,), document=doc, kind=kind)
            break
        if got != split_spec(ftext, kind) or got != vals:
            t.failed("list view values differ from the split of the field text", document=doc, kind=kind, got=got,
                     expected=split_spec(ftext, kind))
            break
        if d.dump() != doc:
            t.failed("opening and closing a list view without changes altered the document", document=doc, dump=d.dump())
            break
        model = list(vals)
        ops = []
        bad = False
        # half of the histories go through ONE dictionary-like interpreted view of the paragraph, looked up again for every
        # step (what it hands out must reflect the field as it is now); the others ask the field element each time
        dict_view = next(iter(d)).as_interpreted_dict_view(interp[kind], auto_resolve_ambiguous_fields=rng.random() < 0.6) \
            if rng.random() < 0.5 else None
        for step in range(rng.randint(0, 3)):
            op = rng.choice(["append", "remove", "replace", "ref-set", "ref-remove", "aborted", "lazy-walk", "ref-later", "ref-refused"])
            try:
                if op == "aborted":
                    # a session that fails half way writes nothing back
                    ops.append(["append then remove of a missing value (ValueError expected), via the dict view" if dict_view is not None
                                else "append then remove of a missing value (ValueError expected)"])
                    try:
                        with (dict_view["List"] if dict_view is not None else
                              next(iter(d)).get_kvpair_element("List").interpret_as(interp[kind])) as l:
                            l.append("aborted")
                            l.remove("no-such-value")
                        bad = t.failed("removing a value that is not in the list did not raise", document=doc, operations=ops)
                        break
                    except ValueError:
                        pass
                    with (dict_view["List"] if dict_view is not None else
                          next(iter(d)).get_kvpair_element("List").interpret_as(interp[kind])) as l:
                        seen = list(l)
                    if seen != model or d.dump() != doc:
                        bad = t.failed("an aborted edit session left traces (view or document changed)", document=doc, kind=kind,
                                       operations=ops, view=seen, expected=model, dump=d.dump())
                        break
                    continue
                kv = next(iter(d)).get_kvpair_element("List")
                if op == "ref-later" and len(model) >= 1:
                    # references taken in one session of a view (after an edit in that session) and used in a LATER session of
                    # the same view: the edit made through them reaches the document
                    view = dict_view["List"] if dict_view is not None else kv.interpret_as(interp[kind])
                    k = rng.randrange(len(model) + 1)
                    ops.append(["session 1: append 'first', take references; session 2 of the same view: set reference %d" % k])
                    with view as l:
                        l.append("first")
                        refs = list(l.iter_value_references())
                    model.append("first")
                    with view as l:
                        refs[k].value = "later"
                    model[k] = "later"
                elif op == "ref-refused" and model:
                    # a value the list refuses (it contains the separator): ValueError, and neither the view nor - after closing
                    # it - the document has changed
                    k = rng.randrange(len(model))
                    bad_value = "linux any" if kind == "space" else "a, b"
                    ops.append(["set reference %d to the refused value %r" % (k, bad_value)])
                    with (dict_view["List"] if dict_view is not None else kv.interpret_as(interp[kind])) as l:
                        try:
                            list(l.iter_value_references())[k].value = bad_value
                            refused = False
                        except ValueError:
                            refused = True
                        seen = list(l)
                    if refused and (seen != model or d.dump() != doc):
                        bad = t.failed("an assignment through a value reference that was refused with ValueError left traces", document=doc,
                                       kind=kind, operations=ops, view=seen, expected=model, dump=d.dump())
                        break
                    if not refused:
                        continue        # (the library took the value: no statement)
                    continue
                else:
                  with (dict_view["List"] if dict_view is not None else kv.interpret_as(interp[kind])) as l:
                    if op == "append":
                        v = rng.choice(WORDS + ["new"])
                        ops.append(["append", v])
                        l.append(v)
                        model.append(v)
                        if rng.random() < 0.25:
                            # a formatter chosen AFTER the edit, in the same session: the edit is still written back
                            from debian._deb822_repro.formatter import one_value_per_line_trailing_separator
                            ops[-1].append("then value_formatter(one_value_per_line_trailing_separator)")
                            l.value_formatter(one_value_per_line_trailing_separator)
                    elif op == "remove" and len(model) >= 2:
                        v = rng.choice(model)
                        ops.append(["remove", v])
                        l.remove(v)
                        model.remove(v)
                    elif op == "replace" and model:
                        v, w = rng.choice(model), rng.choice(["zz", "any"])
                        ops.append(["replace", v, w])
                        l.replace(v, w)
                        model[model.index(v)] = w
                    elif op in ("ref-set", "ref-remove") and len(model) >= 2:
                        k = rng.randrange(len(model))
                        ops.append([op, k])
                        for j, ref in enumerate(list(l.iter_value_references())):
                            if j == k:
                                if op == "ref-set":
                                    ref.value = "rr"
                                else:
                                    ref.remove()
                        if op == "ref-set":
                            model[k] = "rr"
                        else:
                            del model[k]
                    elif op == "lazy-walk" and len(model) >= 3:
                        # walking the references lazily (the natural "for ref in ...") while the value AHEAD of the current one is
                        # removed: the walk goes on with the values that are still in the list, and edits through the references
                        # it hands out afterwards reach the list
                        ks = [k for k in range(len(model) - 1) if model.count(model[k + 1]) == 1]
                        if not ks:
                            continue
                        k = rng.choice(ks)
                        ops.append(["lazy walk: at value %d remove the next value, then mark every later value" % k])
                        walked = []
                        for j, ref in enumerate(l.iter_value_references()):
                            walked.append(ref.value)
                            if j == k:
                                l.remove(model[k + 1])
                            elif j > k:
                                ref.value = ref.value + "x"
                        exp_walk = model[:k + 1] + model[k + 2:]
                        if walked != exp_walk:
                            raise AssertionError("the walk handed out %r, the list held %r" % (walked, exp_walk))
                        model[:] = model[:k + 1] + [v + "x" for v in model[k + 2:]]
                    else:
                        continue
            except Exception as e:
                bad = t.failed("edit raised %r" % (e,), document=doc, kind=kind, operations=ops)
                break
            try:
                out = rm.dump_every_way(d)
            except AssertionError as e:
                bad = t.failed(str(e), document=doc, kind=kind, operations=ops)
                break
            try:
                d2 = repro.parse_deb822_file(out.splitlines(True))
                p2 = next(iter(d2))
                with p2.get_kvpair_element("List").interpret_as(interp[kind]) as l2:
                    got2 = list(l2)
                sc = rm.scan(out)
            except Exception as e:
                bad = t.failed("document is not valid after the edit: %r" % (e,), document=doc, kind=kind, operations=ops, dump=out)
                break
            if got2 != model:
                bad = t.failed("the field does not re-parse to the edited list", document=doc, kind=kind, operations=ops, dump=out,
                               got=got2, expected=model)
                break
            fld = [f for f in sc[0] if f.name == "List"][0]
            if split_spec(out[fld.start:fld.end], kind) != model:
                bad = t.failed("independent split of the rewritten field differs from the edited list", document=doc,
                               operations=ops, dump=out)
                break
            exp_after = doc[end:] if doc[end:] else ""
            if not (out.startswith(doc[:start]) and (out.endswith(exp_after) or out.endswith(exp_after + "\n"))):
                bad = t.failed("bytes of other fields changed", document=doc, kind=kind, operations=ops, dump=out)
                break
            # re-base
            doc = out
            start, end = fld.start, fld.end
        if bad or t.fail:
            break
        t.case(key=(ftext, kind, str(ops)), sample={"field": ftext, "kind": kind, "operations": ops} if len(ops) == 2 else None)
    if not t.fail:
        # a comma-separated value that runs over several lines with a comment line inside it, read through every way of
        # obtaining a list view
        doc = "Package: x\nList: a,\n libfoo-dev\n# needs the new ABI\n   (>= 2.0),\n z\nOther: 1\n"
        want = ["a", "libfoo-dev\n   (>= 2.0)", "z"]
        try:
            seen = {}
            p_ = next(iter(repro.parse_deb822_file(doc.splitlines(True))))
            with p_.get_kvpair_element("List").interpret_as(interp["comma"]) as l:
                seen["interpret_as"] = list(l)
            for ar in (True, False):
                p_ = next(iter(repro.parse_deb822_file(doc.splitlines(True))))
                v_ = p_.as_interpreted_dict_view(interp["comma"], auto_resolve_ambiguous_fields=ar)
                with v_["List"] as l:
                    seen["dict view, auto_resolve_ambiguous_fields=%s" % ar] = list(l)
                with v_.get("List") as l:
                    seen["dict view .get, auto_resolve_ambiguous_fields=%s" % ar] = list(l)
            t.case(key="multi-line comma value with an inner comment")
            wrong = {k: v for k, v in seen.items() if v != want}
            if wrong:
                t.failed("a list view does not ignore the comment line inside a multi-line value", document=doc, expected=want, got=wrong)
        except Exception as e:
            t.failed("reading a multi-line comma value with an inner comment raised %r" % (e,), document=doc)
    if not t.fail:
        rm.large_documents(repro, t)
    t.done()
    ctx.level = "other"
    ctx.explanation = ("PROVED from the real AST of debian._util (same contracts as C09): the LinkedList / OrderedSet operations "
                       "underneath - a list view keeps the tokens of the field in a LinkedList (_token_list) and edits it with append / insert / remove_node - keep their representation invariant and act on the abstract sequence as list insert / "
                       "delete / move. NOT proved: the element and token classes of _deb822_repro themselves - BOUNDED part (see module "
                       "docstring).")
    ctx.assumptions += ["list fields have at least one value at all times (the library refuses to view or write a field without content): emptying a list is outside the domain"]


def replay(ctx, data):
    return True
