"""C16  Copyright: a file resolves to the last Files paragraph whose glob matches it.

R-16a  for every enumerated pattern list gs (structure bounded), decided FOR ALL FILE NAMES by SMT:
         { name | FilesParagraph(gs).matches(name) }  ==  union of glob_spec(g), g in gs
       The left side is built from the real objects: the regex text produced by the real
       globs_to_re(gs), translated by rx, wrapped in the call that FilesParagraph.matches really makes
       (read from its AST: pat.match / pat.fullmatch / pat.search).  Illegal escapes must raise
       MachineReadableFormatError.
B-16   bounded: documents with several Files / License paragraphs, histories of queries interleaved
       with add_files_paragraph and `files` updates (cache), against a reference "last match" model.
"""
import ast
import fnmatch
import itertools
import random
import re

import z3

from vf import rx, solve
from vf.pyvc import extract
from vf.runner import Unsupported

MOD = "debian.copyright"

# token alphabet for globs: (text, kind)
TOKENS = [("a", "lit"), (".", "lit"), ("/", "lit"), ("|", "lit"), ("(", "lit"), ("[", "lit"), ("$", "lit"), (",", "lit"),
          ("é", "lit"), ("\n", "lit"), ("*", "star"), ("?", "any"), ("\\*", "lit*"), ("\\?", "lit?"),
          ("\\\\", "lit\\"), ("\\a", "bad"), ("\\", "trail")]


def glob_text(tokens):
    return "".join(t for t, k in tokens)


def glob_is_legal(tokens):
    for i, (t, k) in enumerate(tokens):
        if k == "bad":
            return False
        if k == "trail":
            # a single backslash is only illegal when nothing follows it; followed by another token it
            # forms an escape with that token's first character
            return False
    return True


def spec_lang(env, tokens):
    parts = []
    for t, k in tokens:
        if k == "star":
            parts.append(env.sigma_star())
        elif k == "any":
            parts.append(env.sigma())
        elif k == "lit":
            parts.append(env.literal(t))
        elif k == "lit*":
            parts.append(env.literal("*"))
        elif k == "lit?":
            parts.append(env.literal("?"))
        elif k == "lit\\":
            parts.append(env.literal("\\"))
    if not parts:
        return env.eps()
    return parts[0] if len(parts) == 1 else z3.Concat(*parts)


def spec_matches(tokens_list, name):
    """native twin of the specification (used by replay and by the bounded part)"""
    for tokens in tokens_list:
        rx_ = "".join(".*" if k == "star" else "." if k == "any" else re.escape(
            {"lit": t, "lit*": "*", "lit?": "?", "lit\\": "\\"}[k]) for t, k in tokens)
        if re.fullmatch(rx_, name, re.S):
            return True
    return False


def call_semantics(mod):
    node, _ = mod.lookup("FilesParagraph.matches")
    if node is None:
        return None, None
    how = None
    for n in ast.walk(node):
        if isinstance(n, ast.Call) and isinstance(n.func, ast.Attribute) and n.func.attr in ("match", "fullmatch", "search") \
                and isinstance(n.func.value, ast.Name) and len(n.args) == 1 and isinstance(n.args[0], ast.Name):
            how = n.func.attr if how is None else "ambiguous"
    return node, how


def enumerate_lists(tier, rng):
    # a lone backslash token is only meaningful at the end of a glob (elsewhere it would fuse with the
    # next token into a different escape)
    wf = lambda g: all(k != "trail" or i == len(g) - 1 for i, (t, k) in enumerate(g))
    single = [list(t) for n in range(0, 3) for t in itertools.product(TOKENS, repeat=n) if wf(t)]
    triples = [list(t) for t in itertools.product(TOKENS, repeat=3) if wf(t)]
    lists = [[g] for g in single]
    k3 = 150 if tier == "quick" else 1500
    lists += [[g] for g in rng.sample(triples, k3)]
    legal = [g for g in single if glob_is_legal(g)]
    n2 = 250 if tier == "quick" else 3000
    for _ in range(n2):
        n = rng.choice([2, 2, 3])
        lists.append([rng.choice(legal if rng.random() < 0.9 else single) for _ in range(n)])
    L = lambda s_: [(ch, "lit") for ch in s_]
    lists += [[L("v{2}")], [L("a{1,2}b")], [L("x{,3}")], [L("{2}")], [L("a{2}") + [("*", "star")]], [L("a+b")], [L("a^b$")], [L("a.b")],
              [L("data/v{2}/") + [("*", "star")]]]
    lists += [[[("a", "lit")], [("a", "lit"), ("*", "star")]],
              [[("a", "lit"), ("/", "lit"), ("a", "lit")], [("a", "lit"), ("/", "lit"), ("*", "star")]]]
    return lists


def run(ctx):
    mod = extract.load(MOD)
    real = mod.real()
    rng = random.Random(ctx.seed)
    node, how = call_semantics(mod)
    fq_m = MOD + ":FilesParagraph.matches"
    fq_g = MOD + ":globs_to_re"
    gnode, _ = mod.lookup("globs_to_re")
    if gnode is None or node is None:
        ctx.direct("globs_to_re / FilesParagraph.matches exist", fq_g, False, "extract", detail="function is gone")
        return
    ctx.function_under_contract(fq_g, mod.segment(gnode))
    ctx.function_under_contract(fq_m, mod.segment(node))
    lists = enumerate_lists(ctx.tier, rng)
    obs = []
    n_err = 0
    if how in ("match", "fullmatch", "search"):
        for li, gl in enumerate(lists):
            texts = [glob_text(g) for g in gl]
            legal = all(glob_is_legal(g) for g in gl)
            try:
                pat = real.globs_to_re(texts)
                raised = None
            except real.MachineReadableFormatError:
                pat, raised = None, "MachineReadableFormatError"
            except Exception as e:
                pat, raised = None, repr(e)
            # the same patterns handed over as a tuple / as a one-shot iterator (the parameter is any iterable of str)
            for given_as, mk in (("tuple", lambda: tuple(texts)), ("iterator", lambda: iter(texts)), ("generator", lambda: (x for x in texts))):
                try:
                    other = real.globs_to_re(mk())
                    oraised = None
                except real.MachineReadableFormatError:
                    other, oraised = None, "MachineReadableFormatError"
                except Exception as e:
                    other, oraised = None, repr(e)
                if oraised != raised or (other is not None and (other.pattern, other.flags) != (pat.pattern, pat.flags)):
                    ctx.direct("R-16a %r given as %s is translated like the list" % (texts, given_as), fq_g, False, "cpython",
                               detail="globs_to_re(%s of the patterns) gives %r / %r, the list gives %r / %r"
                                      % (given_as, other.pattern if other else None, oraised, pat.pattern if pat else None, raised),
                               inputs={"globs": texts, "given_as": given_as}, confirmed=True, kind="input-form")
                    break
            name = "R-16a %r" % (texts,)
            if not legal:
                n_err += 1
                ctx.direct(name + " is reported as a format error", fq_g, raised == "MachineReadableFormatError", "cpython",
                           detail="illegal escape must raise MachineReadableFormatError, got %r" % (raised,),
                           inputs={"globs": texts, "raised": raised}, confirmed=True, kind="format-error")
                continue
            if pat is None:
                ctx.direct(name + " compiles", fq_g, False, "cpython", detail="legal globs raised %r" % (raised,),
                           inputs={"globs": texts, "raised": raised}, confirmed=True)
                continue
            env = rx.Env()
            try:
                p = env.add(pat, name="globs_to_re(%r)" % (texts,))
                env.add_chars("".join(t for g in gl for t, k in g if k == "lit") + "*?\\")
                env.finalize()
                code_lang = env.lang(p, how)
                spec = env._union([spec_lang(env, g) for g in gl])
                smt, var = env.claim_equal(code_lang, spec)
            except Unsupported as e:
                ctx.mark_unproved(fq_g, "unsupported: %s" % e)
                break

            def replay(model, env=env, gl=gl, texts=texts, pat=pat):
                w = env.realize(model.get("w", ""))
                # the same call FilesParagraph.matches makes, on the real pattern object (globs with
                # whitespace cannot be stored in a Files field, so the paragraph itself is bypassed)
                got = getattr(pat, how)(w) is not None
                exp = spec_matches(gl, w)
                return {"confirmed": got != exp, "globs": texts, "filename": w, "call": "globs_to_re(globs).%s(filename)" % how,
                        "matches": got, "expected": exp}
            if li in (3, 40):
                smt0, _ = env.smt_empty(code_lang)
                ctx.vc("probe: %r matches nothing (must NOT be discharged)" % (texts,), fq_m, smt0, theory="str", probe=True,
                       kind="probe")
            ctx.vc(name + " : matches(name) == glob semantics, for all names", fq_m, smt, theory="str",
                   model_vars=[var], replay=replay, kind="rx")
    else:
        ctx.mark_unproved(fq_m, "cannot identify the regex call made by FilesParagraph.matches (%r)" % (how,))
    ctx.solve()
    from props import C17 as _c17
    _c17.verify_space_separated(ctx, real)        # what assigning a pattern list to `files` stores
    bounded(ctx, real, rng)
    ctx.level = "other"
    ctx.extra["pattern_lists"] = len(lists)
    ctx.extra["exhaustive"] = False
    ctx.trusted += ["A-RE: CPython's re implements the language of its parse tree (rx translation incl. DOTALL/MULTILINE, \\Z)",
                    "character sets from the running interpreter"]
    ctx.explanation = (
        "For each of the %d enumerated pattern lists (all globs of <= 2 tokens over a 16-token alphabet incl. '|', '(', '[', '$', "
        "newline, non-ASCII, '*', '?', the three legal escapes, an illegal escape and a trailing backslash; sampled 3-token "
        "globs and 2-3 element lists) the solver decides, FOR ALL FILE NAMES, that FilesParagraph.matches (real regex text from "
        "the real globs_to_re, wrapped in the call matches() really makes: %s) equals the glob semantics of the property; "
        "illegal lists must raise MachineReadableFormatError (%d such lists). Unbounded in names, bounded in pattern structure "
        "- hence not counted as a full proof. find_files_paragraph / files_pattern cache: bounded histories only."
        % (len(lists), how, n_err))


def bounded(ctx, real, rng):
    """documents and histories: last matching Files paragraph, cache of files_pattern"""
    globsets = [["*"], ["src/*"], ["debian/*"], ["debian/rules"], ["src/a?.c", "doc/*"], ["*.c"], ["src/*.h", "*/Makefile"],
                ["src/\\x"], ["doc/*", "a\\"], ["data/*,"], ["RCS/?,", "x,y"]]
    illegal = lambda gs: any(re.search(r"\\(?![*?\\])", g.replace("\\\\", "")) for g in gs)
    names = ["debian/rules", "debian/rules.in", "src/a1.c", "src/x/y.c", "doc/readme", "Makefile", "src/Makefile",
             "src/a.h", "x", "", "src/a\n.c", "data/x", "data/x,", "RCS/a,", "RCS/a", "x,y", "x"]

    def model_find(model, name):
        res = None
        for i, gs in enumerate(model):
            if gs is not None and any(fnmatch_spec(g, name) for g in gs):
                res = i
        return res

    def fnmatch_spec(g, name):
        rx_ = "".join(".*" if c == "*" else "." if c == "?" else re.escape(c) for c in g)
        return re.fullmatch(rx_, name, re.S) is not None

    names += ["vendor/third-party/x", "vendor/third-", "party/x", "lib/a-b/c-d/e", "lib/a-", "b/c-d/e"]

    pending = []           # names to ask for next (after a long list was stored)

    def pick_globs():
        if rng.random() < 0.2:
            # a long pattern list with hyphenated patterns at every column (whatever layout the stored text gets, the patterns
            # are the ones that were set)
            pending.extend(["vendor/third-party/x", "vendor/third-", "lib/a-b/c-d/e", "party/x"])
            return ["p" * rng.randint(1, 75)] * rng.randint(1, 2) + ["vendor/third-party/*", "lib/a-b/c-d/*"] + ["q/" + "r" * rng.randint(1, 40)]
        return rng.choice(globsets)

    evals, nontrivial, samples, fail = 0, set(), [], None
    rounds = 1500 if ctx.tier == "quick" else 6000
    for r in range(rounds):
        c = real.Copyright()
        model = []          # per paragraph: glob list (Files) or None (License)
        objs = []
        ops = []
        if rng.random() < 0.35:
            # a parsed document: Files and stand-alone License paragraphs in ANY order (a License paragraph may come first)
            legal = [g for g in globsets if not illegal(g)]
            kinds = [rng.choice(["F", "F", "L"]) for _ in range(rng.randint(1, 5))]
            text = "Format: https://www.debian.org/doc/packaging-manuals/copyright-format/1.0/\n"
            for kd in kinds:
                if kd == "F":
                    gs = rng.choice(legal)
                    text += "%s\nFiles: %s\nCopyright: c\nLicense: L\n" % (rng.choice(["", "", " ", "\t", " \t "]), " ".join(gs))
                    model.append(list(gs))
                else:
                    text += "%s\nLicense: X\n text\n" % rng.choice(["", "", " ", "\t"])
                    model.append(None)
            c = real.Copyright(text.splitlines(True))
            objs = list(c.all_paragraphs())[1:]          # without the header paragraph
            if [isinstance(o, real.FilesParagraph) for o in objs] != [m is not None for m in model]:
                fail = dict(what="a parsed document does not have the Files / License paragraphs of its text, in that order",
                            operations=ops, got=[type(o).__name__ for o in objs])
                break
            ops.append(["parsed", text])
        del pending[:]
        for step in range(rng.randint(2, 7)):
            op = "query" if pending else rng.choice(["addf", "addf", "addl", "query", "query", "setfiles", "copy"])
            if op == "copy" and objs:
                # a copy of the document (shallow or deep) answers like the document it was copied from
                import copy as _copy
                how = rng.choice(["copy.copy", "copy.deepcopy"])
                ops.append([how + " of the document; the copy is used from here on"])
                try:
                    c2 = getattr(_copy, how.split(".")[1])(c)
                    objs2 = list(c2.all_paragraphs())[1:] if how.endswith("deepcopy") else objs
                    if len(objs2) != len(objs):
                        raise AssertionError("the copy has %d paragraphs, the original %d" % (len(objs2), len(objs)))
                except Exception as e:
                    fail = dict(what="copying a document raised %r" % (e,), operations=ops)
                    break
                c, objs = c2, objs2
                continue
            elif op == "copy":
                continue
            if op == "addf":
                gs = pick_globs()
                fp = real.FilesParagraph.create(list(gs), "c", real.License("L"))
                c.add_files_paragraph(fp)
                last = max([i for i, m in enumerate(model) if m is not None], default=-1)
                model.insert(last + 1, list(gs))
                objs.insert(last + 1, fp)
                ops.append(["add_files_paragraph", gs])
            elif op == "addl":
                lp = real.LicenseParagraph.create(real.License("X", "text"))
                c.add_license_paragraph(lp)
                model.append(None)
                objs.append(lp)
                ops.append(["add_license_paragraph"])
            elif op == "setfiles" and any(m is not None for m in model):
                i = rng.choice([i for i, m in enumerate(model) if m is not None])
                gs = pick_globs()
                objs[i].files = list(gs)
                model[i] = list(gs)
                ops.append(["set files", i, gs])
            else:
                name = pending.pop(0) if pending else rng.choice(names)
                if not pending and rng.random() < 0.15 and any(m for m in model):
                    # a name that is, character for character, the stored text of a pattern list or of one pattern
                    gs_ = rng.choice([m for m in model if m])
                    name = rng.choice([" ".join(gs_), rng.choice(gs_)])
                ops.append(["find_files_paragraph", name])
                evals += 1
                must_raise = any(m is not None and illegal(m) for m in model)
                try:
                    got = c.find_files_paragraph(name)
                    raised = None
                except real.MachineReadableFormatError as e:
                    raised = e
                except Exception as e:
                    fail = dict(what="find_files_paragraph raised %r" % (e,), operations=ops)
                    break
                if must_raise != (raised is not None):
                    fail = dict(what="a Files paragraph with an illegal escape must make every query raise the format error "
                                     "(raised: %r, expected to raise: %s)" % (raised, must_raise), operations=ops)
                    break
                if raised is not None:
                    nontrivial.add((tuple(tuple(m) if m else None for m in model), name, "error"))
                    continue
                exp = model_find(model, name)
                ok = (got is None and exp is None) or (exp is not None and got is objs[exp])
                if exp is not None:
                    nontrivial.add((tuple(tuple(m) if m else None for m in model), name))
                if not ok:
                    fail = dict(what="find_files_paragraph does not return the last matching Files paragraph",
                                operations=ops, expected_index=exp,
                                got_index=(objs.index(got) if got in objs else None))
                    break
        if fail:
            break
        if len(samples) < 3 and len(ops) >= 4:
            samples.append(ops)
    if not fail:
        # directed documents: the same pattern list in two (and in many) paragraphs with other matching paragraphs between them -
        # the LAST matching paragraph wins, whatever its patterns have in common with earlier ones; 120 paragraphs
        for label, lists in (("repeated list", [["src/*"], ["src/vendor/*"], ["debian/*"], ["src/*"]]),
                             ("repeated list, the specific one last", [["src/*"], ["debian/*"], ["src/*"], ["src/vendor/*"]]),
                             ("120 paragraphs", [["dir%d/*" % (i % 7), "common/*"] if i % 3 else ["dir%d/sub/*" % (i % 7)] for i in range(120)])):
            c = real.Copyright()
            objs = []
            for gs in lists:
                fp = real.FilesParagraph.create(list(gs), "c", real.License("L"))
                c.add_files_paragraph(fp)
                objs.append(fp)
            for name in ("src/vendor/zlib.c", "src/main.c", "debian/rules", "dir3/sub/x", "dir3/y", "common/z", "nothing"):
                evals += 1
                exp = model_find(lists, name)
                try:
                    got = c.find_files_paragraph(name)
                except Exception as e:
                    fail = dict(what="find_files_paragraph raised %r" % (e,), document=label, name=name)
                    break
                if not ((got is None and exp is None) or (exp is not None and got is objs[exp])):
                    fail = dict(what="find_files_paragraph does not return the last matching Files paragraph", document=label,
                                pattern_lists=lists if len(lists) < 10 else "(120 generated lists)", name=name, expected_index=exp,
                                got_index=(objs.index(got) if got in objs else None))
                    break
                nontrivial.add((label, name))
            if fail:
                break
    ctx.bounded("B-16 find_files_paragraph over documents and histories (add / set files / query)", evals, len(nontrivial),
                "seeded histories of 2-7 operations over 11 glob lists plus long generated lists with hyphenated patterns (two with an illegal escape: every query must raise, also the second time) and 11 file names (incl. names with newline, prefix-of-pattern "
                "names); reference model: index of the last Files paragraph with a matching glob; non-trivial = distinct "
                "(document, name) with a match", "%d histories" % rounds, samples)
    if fail:
        ctx.violation("B-16 " + fail["what"], "B-16 bounded: find_files_paragraph histories", fail["what"], inputs=fail,
                      confirmed=True)


def replay(ctx, data):
    return True
