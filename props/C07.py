"""C07  DebFile returns exactly what was packed and rejects malformed packages.

B-07 bounded stand-in (DESIGN §5 C07: the part-discovery / name-normalisation contracts are not
generated yet; tar and the compressors are external libraries): .deb files are assembled in memory
(own ar serializer + tarfile + gzip/bz2/lzma) over 5 x 5 compressions of the two parts, member orders,
subsets of maintainer scripts, md5sums with names containing spaces, data files with binary content
incl. root-level dot files; all queries in the three spellings; structurally defective member sets.
"""
import bz2
import gzip
import io
import itertools
import lzma
import random
import tarfile

from vf.bounded import Tally
from vf.pyvc import extract

MOD = "debian.debfile"
EXTS = ["", ".gz", ".bz2", ".xz", ".lzma"]


def ar(members):
    out = bytearray(b"!<arch>\n")
    for name, data in members:
        out += b"%-16s%-12d%-6d%-6d%-8s%-10d`\n" % (name.encode(), 0, 0, 0, b"100644", len(data))
        out += data
        if len(data) % 2:
            out += b"\n"
    return bytes(out)


def tar(files, ext):
    buf = io.BytesIO()
    with tarfile.open(fileobj=buf, mode="w") as tf:
        for name, data in files:
            ti = tarfile.TarInfo("./" + name)
            ti.size = len(data)
            tf.addfile(ti, io.BytesIO(data))
    raw = buf.getvalue()
    if ext == ".gz":
        return gzip.compress(raw)
    if ext == ".bz2":
        return bz2.compress(raw)
    if ext == ".xz":
        return lzma.compress(raw, format=lzma.FORMAT_XZ)
    if ext == ".lzma":
        return lzma.compress(raw, format=lzma.FORMAT_ALONE)
    return raw


DATA_FILES = [("usr/bin/tool", b"\x7fELF\x00\x01binary\xff"), ("etc/my file.conf", b"a=1\n"), (".placeholder", b""),
              (".cache dir/.keep", b"k"), ("etc/skel/.profile", b"# p\n"), ("usr/share/doc/x/copyright", "©\n".encode())]
SCRIPTS = ["preinst", "postinst", "prerm", "postrm", "config"]


def run(ctx):
    mod = extract.load(MOD)
    real = mod.real()
    for q in ("DebFile.__init__", "DebPart.has_file", "DebPart.get_file", "DebPart.get_content", "DebControl.scripts",
              "DebControl.md5sums", "DebControl.debcontrol"):
        node, _ = mod.lookup(q)
        if node is not None:
            ctx.function_under_contract(MOD + ":" + q, mod.segment(node))
    node = None
    for cname, ci in mod.classes.items():
        if cname == "DebPart":
            for mname, mnode in ci.methods.items():
                if "normalize_member" in mname:
                    ctx.function_under_contract(MOD + ":DebPart." + mname, mod.segment(mnode))
    rng = random.Random(ctx.seed)
    t = Tally(ctx, "B-07 assembled .deb packages: control / scripts / md5sums / contents in three spellings; malformed packages",
              "5 x 5 compressions of control and data part x member orders x seeded subsets of 5 maintainer scripts and 6 data files "
              "(binary content, names with spaces, root-level dot files, nested dot files, non-ASCII content); every query under "
              "'name', './name', '/name'; defective member sets (missing debian-binary / control / data, two candidates for a part "
              "incl. uncompressed + compressed); non-trivial = distinct (compressions, order, file set)", "25 compression pairs")
    reps = 2 if ctx.tier == "quick" else 12
    for cext, dext in itertools.product(EXTS, EXTS):
        for _ in range(reps):
            files = rng.sample(DATA_FILES, rng.randint(0, len(DATA_FILES)))
            scripts = {s: ("#!/bin/sh\n# %s\n" % s).encode() for s in SCRIPTS if rng.random() < 0.5}
            fields = [("Package", rng.choice(["foo", "lib-x"])), ("Version", "1.0-1"), ("Description", "short\n long line\n .\n more")]
            control = "".join("%s: %s\n" % kv for kv in fields).encode()
            md5 = {name: "%032x" % rng.getrandbits(128) for name, _ in files}
            md5text = "".join("%s  %s\n" % (v, k) for k, v in md5.items()).encode()
            cfiles = [("control", control)] + sorted(scripts.items()) + [("md5sums", md5text)]
            rng.shuffle(cfiles)
            members = [("debian-binary", b"2.0\n"), ("control.tar" + cext, tar(cfiles, cext)), ("data.tar" + dext, tar(files, dext))]
            if rng.random() < 0.3:
                members = [members[0], members[2], members[1]]
            raw = ar(members)
            desc = dict(control_ext=cext, data_ext=dext, files=[n for n, _ in files], scripts=sorted(scripts), order=[m[0] for m in members])
            try:
                deb = real.DebFile(fileobj=io.BytesIO(raw))
                got_fields = list(deb.debcontrol().items())
                got_scripts = deb.scripts()
                got_md5 = deb.md5sums(encoding="utf-8")
            except Exception as e:
                t.failed("reading a well-formed package raised %r" % (e,), package=desc)
                break
            t.case(key=str(desc), sample=desc if len(files) == 2 else None)
            if got_fields != fields or deb.version != b"2.0":
                t.failed("control fields / version differ", package=desc, got=got_fields)
                break
            if got_scripts != scripts or deb.control.scripts() != scripts:
                t.failed("maintainer scripts differ", package=desc, got=sorted(got_scripts))
                break
            if got_md5 != md5:
                t.failed("md5sum map differs", package=desc, got=got_md5, expected=md5)
                break
            bad = False
            for name, data in files + [("no/such file", None), (".missing", None)]:
                for sp in (name, "./" + name, "/" + name):
                    try:
                        has = deb.data.has_file(sp)
                        content = deb.data.get_content(sp) if has else None
                        via_file = deb.data.get_file(sp).read() if has else None
                    except Exception as e:
                        bad = t.failed("query raised %r" % (e,), package=desc, spelling=sp)
                        break
                    if has != (data is not None) or content != data or via_file != data:
                        bad = t.failed("membership / content differs between spellings or from what was packed", package=desc,
                                       spelling=sp, has_file=has, content=repr(content), expected=repr(data))
                        break
                if bad:
                    break
            if bad:
                break
            for sp in ("control", "./control", "/control"):
                if not deb.control.has_file(sp) or deb.control.get_content(sp) != control:
                    bad = t.failed("control part query differs", package=desc, spelling=sp)
                    break
            if bad:
                break
        if t.fail:
            break
    # malformed packages
    if not t.fail:
        good_c, good_d = ("control.tar.gz", tar([("control", b"Package: x\n")], ".gz")), ("data.tar.xz", tar([], ".xz"))
        info = ("debian-binary", b"2.0\n")
        defective = {
            "no debian-binary": [good_c, good_d],
            "no control part": [info, good_d],
            "no data part": [info, good_c],
            "two data parts (gz + xz)": [info, good_c, ("data.tar.gz", tar([], ".gz")), good_d],
            "two data parts (uncompressed + compressed)": [info, good_c, ("data.tar", tar([], "")), good_d],
            "two data parts (compressed + uncompressed)": [info, good_c, good_d, ("data.tar", tar([], ""))],
            "two control parts (gz + bz2)": [info, good_c, ("control.tar.bz2", tar([("control", b"Package: y\n")], ".bz2")), good_d],
            "two control parts (uncompressed + gz)": [info, ("control.tar", tar([("control", b"Package: y\n")], "")), good_c, good_d],
            "only unrelated members": [("foo", b"x")],
            "empty archive": [],
        }
        for why, members in defective.items():
            try:
                real.DebFile(fileobj=io.BytesIO(ar(members)))
                res = "accepted"
            except real.DebError:
                res = "DebError"
            except Exception as e:
                res = repr(e)
            t.case(key=why)
            if res != "DebError":
                t.failed("malformed package not rejected with DebError", defect=why, members=[m[0] for m in members], result=res)
                break
    t.done()
    ctx.level = "other"
    ctx.explanation = "BOUNDED ONLY in this revision (see module docstring); tarfile and the compression codecs are external."


def replay(ctx, data):
    return True
