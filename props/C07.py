"""C07  DebFile returns exactly what was packed and rejects malformed packages.

P-07a (proved, all member-name lists): DebFile.__init__ returns normally exactly when the archive has debian-binary
and exactly one candidate for each of the two parts, raises DebError otherwise, and stores as control / data part a member
whose name is one of that part's candidates - relative to three assumed contracts of the ArFile interface that C06 proves.
B-07 bounded stand-in (name normalisation, tar and the compressors - external libraries - are not under contract): .deb files are assembled in memory
(own ar serializer + tarfile + gzip/bz2/lzma) over 5 x 5 compressions of the two parts, member orders,
subsets of maintainer scripts, md5sums with names containing spaces, data files with binary content
incl. root-level dot files; all queries in the three spellings; structurally defective member sets.
"""
import bz2
import gzip
import io
import os
import itertools
import lzma
import random
import tarfile

from vf.bounded import Tally
from vf.pyvc import extract

MOD = "debian.debfile"
EXTS = ["", ".gz", ".bz2", ".xz", ".lzma"]


def ar(members):
    out = bytearray(b"!<arch>\n")
    for name, data in members:
        out += b"%-16s%-12d%-6d%-6d%-8s%-10d`\n" % (name.encode(), 0, 0, 0, b"100644", len(data))
        out += data
        if len(data) % 2:
            out += b"\n"
    return bytes(out)


def tar(files, ext):
    buf = io.BytesIO()
    with tarfile.open(fileobj=buf, mode="w") as tf:
        for name, data in files:
            ti = tarfile.TarInfo("./" + name)
            ti.size = len(data)
            tf.addfile(ti, io.BytesIO(data))
    raw = buf.getvalue()
    if ext == ".gz":
        return gzip.compress(raw)
    if ext == ".bz2":
        return bz2.compress(raw)
    if ext == ".xz":
        return lzma.compress(raw, format=lzma.FORMAT_XZ)
    if ext == ".lzma":
        return lzma.compress(raw, format=lzma.FORMAT_ALONE)
    return raw


DATA_FILES = [("usr/bin/tool", b"\x7fELF\x00\x01binary\xff"), ("etc/my file.conf", b"a=1\n"), (".placeholder", b""),
              (".cache dir/.keep", b"k"), ("etc/skel/.profile", b"# p\n"), ("usr/share/doc/x/copyright", "©\n".encode()),
              ("*star file.bin", b"s"), ("usr/ *odd  name ", b"o"), ("opt/é ü/%s,;", b"u"), ("-dash", b"d")]
SCRIPTS = ["preinst", "postinst", "prerm", "postrm", "config"]


# ------------------------------------------------------------------------------------------------
# P-07a  DebFile.__init__: part discovery and validation, relative to the ArFile interface.
#  The ArFile side is abstracted by three ASSUMED contracts over a ghost list `self.names` (the member names in
#  archive order); each is what C06 proves about the real ArFile (getnames == names of the members, getmember ==
#  last member of that name / KeyError when absent).  Sets are modelled as in speclib.SetVal.
import z3
from vf.pyvc.speclib import SpecLib
from vf.pyvc.world import World, Contract
from vf.pyvc.values import VObj, VBox, VSeq, NONE, fresh, fresh_name, lift, sort_of
from vf.pyvc import values as _vals
from vf.pyvc.driver import verify_contracts

AR = "debian.arfile"


def n_ctrl(names):
    """how many of the candidate names for the control part occur in the archive"""
    return ((1 if "control.tar.gz" in names else 0) + (1 if "control.tar.bz2" in names else 0) + (1 if "control.tar.xz" in names else 0)
            + (1 if "control.tar.lzma" in names else 0) + (1 if "control.tar" in names else 0))


def n_data(names):
    return ((1 if "data.tar.gz" in names else 0) + (1 if "data.tar.bz2" in names else 0) + (1 if "data.tar.xz" in names else 0)
            + (1 if "data.tar.lzma" in names else 0) + (1 if "data.tar" in names else 0))


def is_ctrl(name):
    return name in ("control.tar.gz", "control.tar.bz2", "control.tar.xz", "control.tar.lzma", "control.tar")


def is_data(name):
    return name in ("data.tar.gz", "data.tar.bz2", "data.tar.xz", "data.tar.lzma", "data.tar")


def deb_wf(names):
    """the member set of a well-formed .deb: debian-binary and exactly one candidate for each part"""
    return "debian-binary" in names and n_ctrl(names) == 1 and n_data(names) == 1


class ArInitAbs(Contract):
    target = AR + ":ArFile.__init__"
    modular = True
    modifies = ("self.names",)
    raises = {"ArError": (), "OSError": ()}
    raises_modifies = {"ArError": ("self.names",), "OSError": ("self.names",)}


class ArGetNamesAbs(Contract):
    target = AR + ":ArFile.getnames"
    modular = True
    returns = ("list", "str")
    ensures = ("result == self.names",)


class ArGetMemberAbs(Contract):
    target = AR + ":ArFile.getmember"
    modular = True
    returns = ("obj", "ArMember")
    ensures = ("name in self.names", "result._ArMember__name == name")
    raises = {"KeyError": ("name not in self.names",)}
    raises_modifies = {"KeyError": ()}


class ArMemberReadAbs(Contract):
    target = AR + ":ArMember.read"
    modular = True
    returns = "bytes"


class ArMemberCloseAbs(Contract):
    target = AR + ":ArMember.close"
    modular = True


class DebInit(Contract):
    target = MOD + ":DebFile.__init__"
    modular = False
    ensures = ("deb_wf(self.names)",
               "is_ctrl(self._DebFile__parts['control.tar']._DebPart__member._ArMember__name)",
               "self._DebFile__parts['control.tar']._DebPart__member._ArMember__name in self.names",
               "is_data(self._DebFile__parts['data.tar']._DebPart__member._ArMember__name)",
               "self._DebFile__parts['data.tar']._DebPart__member._ArMember__name in self.names")
    raises = {"DebError": ("not deb_wf(self.names)",), "ArError": (), "OSError": ()}
    modifies = ("self.names", "self._DebFile__parts", "self._DebFile__pkgname", "self._DebFile__version")

    def setup(self, ex):
        names = VBox("list", VSeq("list", "str", z3.Const(fresh_name("names"), sort_of(("list", "str")))), "names")
        me = VObj("DebFile", {"names": names}, "self")
        self.model_vars = [str(names.val.t)]
        return {"self": me, "filename": fresh(("opt", "str"), "filename"), "mode": lift("r"), "fileobj": NONE}


# P-07b  the three spellings of a member name: 'name', './name' and '/name' are normalised to the same name, and has_file asks
# the tar index for './name' in all three cases
class NormalizeMember(Contract):
    target = MOD + ":DebPart.__normalize_member"
    modular = False
    requires = ("not name.startswith('./') and not name.startswith('/')",)
    ensures = ("result == name",)

    def __init__(self, prefix):
        self.prefix = prefix

    def setup(self, ex):
        name = fresh("str", "name")
        self.model_vars = [str(name.t)]
        full = VSeq("str", "int", z3.Concat(lift(self.prefix).t, name.t)) if self.prefix else name
        return {"fname": full, "name": name}


class TgzAbs(Contract):
    target = MOD + ":DebPart.tgz"
    modular = True
    returns = ("obj", "TarIndex")

    def setup(self, ex):
        raise NotImplementedError


class HasFile(Contract):
    target = MOD + ":DebPart.has_file"
    modular = False
    requires = ("not name.startswith('./') and not name.startswith('/')",)
    ensures = ("result == (('./' + name) in self.names)",)

    def __init__(self, prefix):
        self.prefix = prefix

    def setup(self, ex):
        name = fresh("str", "name")
        full = VSeq("str", "int", z3.Concat(lift(self.prefix).t, name.t)) if self.prefix else name
        me = VObj("DebPart", {"names": fresh(("list", "str"), "tar_names")}, "self")
        return {"self": me, "fname": full, "name": name}


def verify_member_names(ctx):
    sl = SpecLib()
    w = World(sl)
    cs = []
    for prefix in ("", "./", "/"):
        for cls in (NormalizeMember, HasFile):
            c = cls(prefix)
            c.__class__ = type("%s_%s" % (cls.__name__, {"": "plain", "./": "dot_slash", "/": "slash"}[prefix]), (cls,), {})
            cs.append(c)

    # the tar index: tgz() hands out an object whose getnames() is the ghost list self.names
    def tgz_model(ex, c, f, args, kwargs, node=None):
        return None
    _vals.REC_CLASSES.setdefault("TarIndex", [])
    sl.models[("TarIndex", "getnames")] = lambda ex, a, kw: a[0].fields["names_of"]
    t = TgzAbs()
    w.add_contract(t)
    orig = w.modular_call

    def modular_call(ex, c, f, args, kwargs, node=None):
        if c is t:
            me = f.selfv if f.selfv is not None else args[0]
            return VObj("TarIndex", {"names_of": me.fields["names"]}, "tar")
        return orig(ex, c, f, args, kwargs, node)
    w.modular_call = modular_call
    from vf.pyvc.driver import native_replayer
    DebPart = extract.load(MOD).real().DebPart
    reps = {}
    for c in cs:
        if isinstance(c, NormalizeMember):
            reps[c.qualname] = None
    # one replayer per variant (the contracts share a qualified name: dispatch on the contract object)
    def rp(model, obl, c):
        if not isinstance(c, NormalizeMember):
            return {"confirmed": False}
        return native_replayer(lambda name, c=c: DebPart._DebPart__normalize_member(c.prefix + name), ["name"], {})(model, obl, c)
    verify_contracts(ctx, w, cs, {"DebPart.__normalize_member": rp})
    ctx.trusted.append("ASSUMED: DebPart.tgz().getnames() is the list of member names of the tar archive (tarfile is external)")
    ctx.solve()


def run_deductive(ctx):
    verify_member_names(ctx)
    from props import C06 as _c06
    # the parts of a package are read through ArMember objects: their read / seek / tell / readline(s) == io.BytesIO over the
    # member's bytes, for every position the shared file object may be left at by reads of OTHER members (contracts of C06)
    _c06.verify_archive_layer(ctx, members_only=True)
    _vals.REC_CLASSES["ArMember"] = _c06.MEMBER_FIELDS
    sl = SpecLib()
    w = World(sl)
    for f in (n_ctrl, n_data, is_ctrl, is_data, deb_wf):
        w.spec_func(f)
    for c in (ArInitAbs(), ArGetNamesAbs(), ArGetMemberAbs(), ArMemberReadAbs(), ArMemberCloseAbs()):
        w.add_contract(c)
    def replay_init(model, obl, c):
        """the solver's member-name list as a real ar archive, opened with the real DebFile"""
        raw = model.get(c.model_vars[0])
        try:
            names = ["".join(chr(x) for x in nm) for nm in (raw or [])]
        except TypeError:
            return {"confirmed": False, "note": "model value of the name list not usable", "model": repr(raw)[:300]}
        if not all(nm and len(nm.encode("utf-8", "replace")) <= 15 and "/" not in nm and nm == nm.strip() and nm.isascii()
                   and nm.isprintable() for nm in names):
            return {"confirmed": False, "note": "member names of the model cannot be written into an ar header", "names": names}
        real = extract.load(MOD).real()
        blob = ar([(nm, b"2.0\n") for nm in names])
        try:
            real.DebFile(fileobj=io.BytesIO(blob))
            outcome = "accepted"
        except real.DebError as e:
            outcome = "DebError: %s" % e
        except Exception as e:
            outcome = "raised %r" % (e,)
        wf = deb_wf(names)
        return {"member_names": names, "well_formed_by_the_property": wf, "real_outcome": outcome,
                "confirmed": (outcome == "accepted") != wf or outcome.startswith("raised")}
    verify_contracts(ctx, w, [DebInit()], {"DebFile.__init__": replay_init})
    ctx.trusted += ["ASSUMED contract (proved for the real ArFile in C06: GetNames): ArFile.getnames() returns the member names in archive order",
                    "ASSUMED contract (proved in C06: GetMember / GetMemberMissing + dict_spec): ArFile.getmember(name) returns a member of "
                    "that name, KeyError exactly when no member has it",
                    "ASSUMED: ArFile.__init__ either raises ArError / OSError or establishes some member list; ArMember.read returns bytes"]
    ctx.solve()


def run(ctx):
    mod = extract.load(MOD)
    real = mod.real()
    run_deductive(ctx)
    for q in ("DebFile.__init__", "DebPart.has_file", "DebPart.get_file", "DebPart.get_content", "DebControl.scripts",
              "DebControl.md5sums", "DebControl.debcontrol"):
        node, _ = mod.lookup(q)
        if node is not None:
            ctx.function_under_contract(MOD + ":" + q, mod.segment(node))
    node = None
    for cname, ci in mod.classes.items():
        if cname == "DebPart":
            for mname, mnode in ci.methods.items():
                if "normalize_member" in mname:
                    ctx.function_under_contract(MOD + ":DebPart." + mname, mod.segment(mnode))
    rng = random.Random(ctx.seed)
    t = Tally(ctx, "B-07 assembled .deb packages: control / scripts / md5sums / contents in three spellings; malformed packages",
              "5 x 5 compressions of control and data part x member orders x seeded subsets of 5 maintainer scripts and 6 data files "
              "(binary content, names with spaces, root-level dot files, nested dot files, non-ASCII content); every query under "
              "'name', './name', '/name'; defective member sets (missing debian-binary / control / data, two candidates for a part "
              "incl. uncompressed + compressed); packages with 150-300 kB random members, control and data queries interleaved, opened by "
              "file object and by file name; non-trivial = distinct (compressions, order, file set)", "25 compression pairs")
    reps = 2 if ctx.tier == "quick" else 12
    previous = None
    for cext, dext in itertools.product(EXTS, EXTS):
        for _ in range(reps):
            files = rng.sample(DATA_FILES, rng.randint(0, len(DATA_FILES)))
            scripts = {s: ("#!/bin/sh\n# %s\n" % s).encode() for s in SCRIPTS if rng.random() < 0.5}
            fields = [("Package", rng.choice(["foo", "lib-x"])), ("Version", "1.0-1"), ("Description", "short\n long line\n .\n more")]
            control = "".join("%s: %s\n" % kv for kv in fields).encode()
            md5 = {name: "%032x" % rng.getrandbits(128) for name, _ in files}
            md5text = "".join("%s  %s\n" % (v, k) for k, v in md5.items()).encode()
            cfiles = [("control", control)] + sorted(scripts.items()) + [("md5sums", md5text)]
            rng.shuffle(cfiles)
            members = [("debian-binary", b"2.0\n"), ("control.tar" + cext, tar(cfiles, cext)), ("data.tar" + dext, tar(files, dext))]
            if rng.random() < 0.3:
                members = [members[0], members[2], members[1]]
            raw = ar(members)
            desc = dict(control_ext=cext, data_ext=dext, files=[n for n, _ in files], scripts=sorted(scripts), order=[m[0] for m in members])
            try:
                if rng.random() < 0.3:
                    # the package IS the bytes of the file object handed in, whatever attributes that object carries
                    fobj = io.BytesIO(raw)
                    fobj.name = "/nonexistent/verif-c07-not-this-file.deb"
                    deb = real.DebFile(fileobj=fobj)
                    desc["fileobj"] = "with a misleading .name"
                else:
                    deb = real.DebFile(fileobj=io.BytesIO(raw))
                got_fields = list(deb.debcontrol().items())
                got_scripts = deb.scripts()
                got_md5 = deb.md5sums(encoding="utf-8")
            except Exception as e:
                t.failed("reading a well-formed package raised %r" % (e,), package=desc)
                break
            t.case(key=str(desc), sample=desc if len(files) == 2 else None)
            if got_fields != fields or deb.version != b"2.0":
                t.failed("control fields / version differ", package=desc, got=got_fields)
                break
            if got_scripts != scripts or deb.control.scripts() != scripts:
                t.failed("maintainer scripts differ", package=desc, got=sorted(got_scripts))
                break
            if got_md5 != md5:
                t.failed("md5sum map differs", package=desc, got=got_md5, expected=md5)
                break
            bad = False
            for name, data in files + [("no/such file", None), (".missing", None)]:
                for sp in (name, "./" + name, "/" + name):
                    try:
                        has = deb.data.has_file(sp)
                        content = deb.data.get_content(sp) if has else None
                        via_file = deb.data.get_file(sp).read() if has else None
                    except Exception as e:
                        bad = t.failed("query raised %r" % (e,), package=desc, spelling=sp)
                        break
                    # the operator spellings of the same questions
                    try:
                        has_in = sp in deb.data
                        via_item = deb.data[sp] if has else None
                    except Exception as e:
                        bad = t.failed("`in` / subscript query raised %r" % (e,), package=desc, spelling=sp)
                        break
                    if has_in != has or via_item != content:
                        bad = t.failed("`name in part` / part[name] disagree with has_file / get_content", package=desc, spelling=sp,
                                       has_file=has, contains=has_in)
                        break
                    if has != (data is not None) or content != data or via_file != data:
                        bad = t.failed("membership / content differs between spellings or from what was packed", package=desc,
                                       spelling=sp, has_file=has, content=repr(content), expected=repr(data))
                        break
                if bad:
                    break
            if bad:
                break
            for sp in ("control", "./control", "/control"):
                if not deb.control.has_file(sp) or deb.control.get_content(sp) != control:
                    bad = t.failed("control part query differs", package=desc, spelling=sp)
                    break
            if bad:
                break
            # a package read earlier in the same process still answers as it did (no state shared between readers)
            if previous is not None:
                pdeb, pfields, pscripts, pmd5, pfiles, pdesc = previous
                try:
                    again = (list(pdeb.debcontrol().items()), pdeb.scripts(), pdeb.md5sums(encoding="utf-8"),
                             [(n, pdeb.data.get_content(n) if pdeb.data.has_file(n) else None) for n, _ in pfiles])
                except Exception as e:
                    t.failed("re-querying an earlier package after reading another one raised %r" % (e,), package=pdesc, other=desc)
                    break
                if again != (pfields, pscripts, pmd5, [(n, dta) for n, dta in pfiles]):
                    t.failed("an earlier package answers differently after another package was read", package=pdesc, other=desc)
                    break
            previous = (deb, fields, scripts, md5, list(files), desc)
        if t.fail:
            break
    # large incompressible members read through ONE shared file object, control and data queries interleaved (the decompressors
    # pull their input chunk-wise, so the reads of the two parts alternate on the underlying file)
    for dext in ([] if t.fail else EXTS):
        cexts = [rng.choice(EXTS)] if ctx.tier == "quick" else EXTS
        for cext in cexts:
            big1, big2 = rng.randbytes(300000), rng.randbytes(200000)
            files = [("usr/lib/big1.bin", big1), ("usr/share/small", b"s\n"), ("usr/lib/big2.bin", big2)]
            control = b"Package: big\nVersion: 1\n"
            cfiles = [("control", control), ("postinst", rng.randbytes(150000)), ("md5sums", b"")]
            desc = dict(control_ext=cext, data_ext=dext, files=[n for n, _ in files], note="large random members, interleaved queries")
            raw = ar([("debian-binary", b"2.0\n"), ("control.tar" + cext, tar(cfiles, cext)), ("data.tar" + dext, tar(files, dext))])
            for mode in ("fileobj", "filename"):
                tmpname = None
                try:
                    if mode == "fileobj":
                        deb = real.DebFile(fileobj=io.BytesIO(raw))
                    else:
                        import tempfile
                        fd, tmpname = tempfile.mkstemp(suffix=".deb")
                        os.write(fd, raw)
                        os.close(fd)
                        deb = real.DebFile(filename=tmpname)
                    got = [deb.data.get_content("usr/lib/big1.bin"), deb.control.get_content("control"),
                           deb.data.get_content("./usr/lib/big2.bin"), deb.control.get_content("postinst"),
                           deb.data.get_content("/usr/share/small"), deb.data.get_file("usr/lib/big1.bin").read()]
                    deb.close()
                except Exception as e:
                    t.failed("interleaved queries on a package with large members raised %r" % (e,), package=desc, opened_by=mode)
                    break
                finally:
                    if tmpname:
                        os.unlink(tmpname)
                t.case(key=("big", cext, dext, mode))
                if got != [big1, control, big2, cfiles[1][1], b"s\n", big1]:
                    t.failed("interleaved queries on a package with large members return other bytes than were packed", package=desc,
                             opened_by=mode, equal=[a == b for a, b in zip(got, [big1, control, big2, cfiles[1][1], b"s\n", big1])])
                    break
            if t.fail:
                break
        if t.fail:
            break
    # many files: an md5sums list far beyond every read buffer, hundreds of members in the data part
    for cext in ([] if t.fail else EXTS):
        files = [("usr/share/pkg/file-%04d.dat" % i, b"d%d" % i) for i in range(600)]
        md5 = {name: "%032x" % (i * 7919 + 1) for i, (name, _) in enumerate(files)}
        md5text = "".join("%s  %s\n" % (v, k) for k, v in md5.items()).encode()
        raw = ar([("debian-binary", b"2.0\n"), ("control.tar" + cext, tar([("control", b"Package: many\nVersion: 1\n"), ("md5sums", md5text)], cext)),
                  ("data.tar" + cext, tar(files, cext))])
        try:
            deb = real.DebFile(fileobj=io.BytesIO(raw))
            got_md5 = deb.md5sums(encoding="utf-8")
            got_md5_b = deb.md5sums()
            some = [deb.data.get_content(n) for n, _ in files[::97]]
            names_ok = all(deb.data.has_file(n) for n, _ in files[::41])
        except Exception as e:
            t.failed("reading a package with 600 data files raised %r" % (e,), control_ext=cext)
            break
        t.case(key=("many files", cext))
        if got_md5 != md5 or len(got_md5_b) != len(md5) or some != [d for _, d in files[::97]] or not names_ok:
            t.failed("a package with 600 data files does not give back its md5sums / contents", control_ext=cext,
                     md5_entries=len(got_md5), expected=len(md5))
            break
    # malformed packages
    if not t.fail:
        good_c, good_d = ("control.tar.gz", tar([("control", b"Package: x\n")], ".gz")), ("data.tar.xz", tar([], ".xz"))
        info = ("debian-binary", b"2.0\n")
        defective = {
            "no debian-binary": [good_c, good_d],
            "no control part": [info, good_d],
            "no data part": [info, good_c],
            "two data parts (gz + xz)": [info, good_c, ("data.tar.gz", tar([], ".gz")), good_d],
            "two data parts (uncompressed + compressed)": [info, good_c, ("data.tar", tar([], "")), good_d],
            "two data parts (compressed + uncompressed)": [info, good_c, good_d, ("data.tar", tar([], ""))],
            "two control parts (gz + bz2)": [info, good_c, ("control.tar.bz2", tar([("control", b"Package: y\n")], ".bz2")), good_d],
            "two control parts (uncompressed + gz)": [info, ("control.tar", tar([("control", b"Package: y\n")], "")), good_c, good_d],
            "only unrelated members": [("foo", b"x")],
            "empty archive": [],
        }
        for why, members in defective.items():
            try:
                real.DebFile(fileobj=io.BytesIO(ar(members)))
                res = "accepted"
            except real.DebError:
                res = "DebError"
            except Exception as e:
                res = repr(e)
            t.case(key=why)
            if res != "DebError":
                t.failed("malformed package not rejected with DebError", defect=why, members=[m[0] for m in members], result=res)
                break
    t.done()
    ctx.level = "other"
    ctx.explanation = ("PROVED from the AST of the real DebFile.__init__ (nested compressed_part_name inlined; sets modelled as finite "
                       "conditional sets; for every list of member names): normal return iff debian-binary is present and exactly one "
                       "candidate name exists for the control part and for the data part; DebError otherwise; KeyError impossible; the "
                       "stored parts are members carrying a candidate name of their part. Relative to assumed contracts of ArFile "
                       "(getnames / getmember / __init__) that are the statements C06 proves. NOT proved: name normalisation, "
                       "has_file / get_file / get_content, scripts, md5sums, debcontrol - BOUNDED part; tarfile and the compression "
                       "codecs are external.")


def replay(ctx, data):
    return True
