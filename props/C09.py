"""C09  Deb822 mappings stay ordered, case-insensitive, case-preserving in any history.

B-09 bounded stand-in (the LinkedList / OrderedSet / Deb822Dict contracts of DESIGN §5 C09 are not
generated yet): operation histories on real Deb822 objects against a reference list model
[(spelling, value)], starting from empty, dict-initialised, sequence-initialised and parsed
paragraphs; after every operation keys(), their spelling, order, values, len, membership (all case
variants) are compared; error cases must raise KeyError / ValueError and leave the mapping unchanged.
"""
import random

from vf.bounded import Tally
from vf.pyvc import extract

MOD = "debian.deb822"
KEYS = ["a", "A", "b", "B", "c", "Xy", "xY", "XY"]


def find(model, k):
    for i, (s, v) in enumerate(model):
        if s.lower() == k.lower():
            return i
    return -1


def snapshot(d):
    return [(k, d[k]) for k in d.keys()]


def same(d, model):
    if list(d.keys()) != [s for s, v in model] or len(d) != len(model):
        return False
    if [(k, v) for k, v in d.items()] != [(s, v) for s, v in model]:
        return False
    for k in KEYS:
        present = find(model, k) >= 0
        if (k in d) != present:
            return False
        if present and d[k] != model[find(model, k)][1]:
            return False
        if d.get(k, None) != (model[find(model, k)][1] if present else None):
            return False
    return True


def start_state(real, rng):
    Deb822 = real.Deb822
    kind = rng.choice(["empty", "dict", "pairs", "parsed", "parsed-fields"])
    pairs = []
    for k in rng.sample(KEYS, rng.randint(0, 4)):
        if find(pairs, k) < 0:
            pairs.append((k, str(rng.randint(0, 9))))
    if kind == "empty":
        return kind, Deb822(), []
    if kind == "dict":
        return kind, Deb822(dict(pairs)), list(pairs)
    if kind == "pairs":
        d = real.Deb822Dict(_dict=list(pairs))      # list of 2-tuples, as Deb822Dict documents
        return kind, d, list(pairs)
    text = "".join("%s: %s\n" % (k, v) for k, v in pairs)
    if kind == "parsed":
        return kind, Deb822(text), list(pairs)
    return kind, Deb822(text.splitlines()), list(pairs)


def run(ctx):
    mod = extract.load(MOD)
    real = mod.real()
    for q in ("Deb822Dict.__setitem__", "Deb822Dict.__getitem__", "Deb822Dict.__delitem__", "Deb822Dict.__contains__",
              "Deb822Dict.order_first", "Deb822Dict.order_last", "Deb822Dict.order_before", "Deb822Dict.order_after",
              "Deb822Dict.sort_fields", "Deb822Dict.copy", "Deb822Dict.__iter__", "Deb822Dict.__len__"):
        node, _ = mod.lookup(q)
        if node is not None:
            ctx.function_under_contract(MOD + ":" + q, mod.segment(node))
    um = extract.load("debian._util")
    for q in ("OrderedSet.add", "OrderedSet.remove", "OrderedSet._reorder", "OrderedSet.order_before", "OrderedSet.order_after",
              "LinkedList.remove_node", "LinkedList.append", "LinkedList.insert_at_head", "LinkedList.insert_node_before",
              "LinkedList.insert_node_after", "LinkedListNode.remove", "LinkedListNode.link_nodes"):
        node, _ = um.lookup(q)
        if node is not None:
            ctx.function_under_contract("debian._util:" + q, um.segment(node))
    rng = random.Random(ctx.seed)
    rounds = 4000 if ctx.tier == "quick" else 60000
    t = Tally(ctx, "B-09 histories on Deb822 mappings vs a reference list model",
              "seeded histories of 1-8 operations (set, delete, get, order_first/last/before/after, sort_fields with default and "
              "custom key, copy, dump+re-parse) over keys {a,A,b,B,c,Xy,xY,XY} from 5 kinds of starting state; the mapping is "
              "compared with the model after every step (keys, spelling, order, values, membership and lookup under every case "
              "variant); non-trivial = distinct (start kind, history)", "%d histories, <= 8 operations" % rounds)
    Deb822 = real.Deb822
    for _ in range(rounds):
        kind, d, model = start_state(real, rng)
        ops = [["start", kind, list(model)]]
        if not same(d, model):
            t.failed("initial state differs from the model", operations=ops, keys=list(d.keys()))
            break
        for step in range(rng.randint(1, 8)):
            op = rng.choice(["set", "set", "del", "get", "first", "last", "before", "after", "sort", "sortkey", "copy", "cycle"])
            k = rng.choice(KEYS)
            r = rng.choice(KEYS)
            before = snapshot(d)
            exp_exc = None
            try:
                if op == "set":
                    v = str(rng.randint(0, 9))
                    ops.append(["set", k, v])
                    i = find(model, k)
                    if i >= 0:
                        model[i] = (model[i][0], v)
                    else:
                        model.append((k, v))
                    d[k] = v
                elif op == "del":
                    ops.append(["del", k])
                    i = find(model, k)
                    if i < 0:
                        exp_exc = KeyError
                    else:
                        del model[i]
                    del d[k]
                elif op == "get":
                    ops.append(["get", k])
                    if find(model, k) < 0:
                        exp_exc = KeyError
                    d[k]
                elif op in ("first", "last"):
                    ops.append(["order_" + op, k])
                    i = find(model, k)
                    if i < 0:
                        exp_exc = KeyError
                    else:
                        e = model.pop(i)
                        model.insert(0, e) if op == "first" else model.append(e)
                    getattr(d, "order_" + op)(k)
                elif op in ("before", "after"):
                    ops.append(["order_" + op, k, r])
                    i, j = find(model, k), find(model, r)
                    if k.lower() == r.lower():
                        exp_exc = ValueError
                    elif i < 0 or j < 0:
                        exp_exc = KeyError
                    else:
                        e = model.pop(i)
                        j = find(model, r)
                        model.insert(j if op == "before" else j + 1, e)
                    getattr(d, "order_" + op)(k, r)
                elif op == "sort":
                    ops.append(["sort_fields"])
                    model.sort(key=lambda e: e[0].lower())
                    d.sort_fields()
                elif op == "sortkey":
                    ops.append(["sort_fields", "key=reverse-lower"])
                    model.sort(key=lambda e: [-ord(c) for c in e[0].lower()])
                    d.sort_fields(key=lambda s: [-ord(c) for c in s.lower()])
                elif op == "copy":
                    ops.append(["copy"])
                    c = d.copy()
                    if not same(c, model):
                        t.failed("copy() differs from the model", operations=ops, copy_keys=list(c.keys()))
                        break
                    # the copy must be independent
                    c["zz"] = "1"
                    if "zz" in d:
                        t.failed("copy() is not independent of the original", operations=ops)
                        break
                    if rng.random() < 0.5:
                        del c["zz"]
                        d = c
                else:
                    ops.append(["dump + re-parse"])
                    if hasattr(d, "dump"):
                        d = Deb822(d.dump())
                if exp_exc is not None:
                    t.failed("expected %s was not raised" % exp_exc.__name__, operations=ops)
                    break
            except (KeyError, ValueError) as ex:
                if exp_exc is None or not isinstance(ex, exp_exc):
                    t.failed("unexpected %r" % (ex,), operations=ops)
                    break
                if snapshot(d) != before:
                    t.failed("mapping changed although the operation raised %s" % type(ex).__name__, operations=ops,
                             before=before, after=snapshot(d))
                    break
            except Exception as ex:
                t.failed("unexpected %r" % (ex,), operations=ops)
                break
            if not same(d, model):
                t.failed("mapping differs from the reference model", operations=ops, keys=list(d.keys()),
                         items=[list(x) for x in d.items()], model=[list(x) for x in model])
                break
        if t.fail:
            break
        t.case(key=str(ops), sample=ops if len(ops) > 4 else None)
    t.done()
    ctx.level = "other"
    ctx.explanation = ("BOUNDED ONLY in this revision: seeded operation histories against a reference list model; the "
                       "representation-invariant proofs for LinkedList/OrderedSet/Deb822Dict planned in DESIGN §5 C09 are not "
                       "generated yet.")


def replay(ctx, data):
    return True
