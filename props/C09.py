"""C09  Deb822 mappings stay ordered, case-insensitive, case-preserving in any history.

P-09a/b (proved): LinkedList and OrderedSet of debian._util against an abstract sequence (see below).
B-09 bounded stand-in (the Deb822Dict layer is not under contract): operation histories on real Deb822 objects against a reference list model
[(spelling, value)], starting from empty, dict-initialised, sequence-initialised and parsed
paragraphs; after every operation keys(), their spelling, order, values, len, membership (all case
variants) are compared; error cases must raise KeyError / ValueError and leave the mapping unchanged.
"""
import random

from vf.bounded import Tally
from vf.pyvc import extract

MOD = "debian.deb822"
KEYS = ["a", "A", "b", "B", "c", "Xy", "xY", "XY", "Vcs_Git", "VcsBrowser", "vcs-git", "a_b", "aB", "a^",
        # characters next to the letters in ASCII are not case variants of each other; case variants may differ in length
        "X-Cfg[", "X-Cfg{", "x-cfg[", "X@", "X`", "\u0130ndex", "i\u0307ndex", "xy", "vcs_git", "vcsbrowser", "ab"]


def find(model, k):
    for i, (s, v) in enumerate(model):
        if s.lower() == k.lower():
            return i
    return -1


def snapshot(d):
    return [(k, d[k]) for k in d.keys()]


def same(d, model):
    if list(d.keys()) != [s for s, v in model] or len(d) != len(model):
        return False
    if [(k, v) for k, v in d.items()] != [(s, v) for s, v in model]:
        return False
    for k in KEYS:
        present = find(model, k) >= 0
        if (k in d) != present:
            return False
        if present and d[k] != model[find(model, k)][1]:
            return False
        if d.get(k, None) != (model[find(model, k)][1] if present else None):
            return False
    return True


def start_state(real, rng):
    Deb822 = real.Deb822
    kind = rng.choice(["empty", "dict", "pairs", "parsed", "parsed-fields", "backed by another paragraph (_parsed=)",
                       "backed by another paragraph, fields= filter"])
    pairs = []
    for k in rng.sample(KEYS, rng.randint(0, 4)):
        if find(pairs, k) < 0:
            pairs.append((k, str(rng.randint(0, 9))))
    if kind == "empty":
        return kind, Deb822(), []
    if kind == "dict":
        return kind, Deb822(dict(pairs)), list(pairs)
    if kind == "pairs":
        d = real.Deb822Dict(_dict=list(pairs))      # list of 2-tuples, as Deb822Dict documents
        return kind, d, list(pairs)
    text = "".join("%s: %s\n" % (k, v) for k, v in pairs)
    if kind in ("parsed", "parsed-fields") and pairs and rng.random() < 0.4:
        # the same field again, in other spellings: a mapping keeps the first spelling and place, and the last value
        k0 = pairs[0][0]
        for sp in rng.sample([k0.upper(), k0.lower(), k0, k0.swapcase()], rng.randint(1, 3)):
            v = str(rng.randint(10, 99))
            text += "%s: %s\n" % (sp, v)
            pairs[0] = (k0, v)
    if kind == "parsed":
        return kind, Deb822(text), list(pairs)
    if kind.startswith("backed by another paragraph"):
        # the constructor's `_parsed=` / `fields=` keywords: a paragraph that reads its values from another one
        if kind.endswith("filter") and pairs:
            keep = [k for k, _v in pairs if rng.random() < 0.6] or [pairs[0][0]]
            return kind, Deb822(_parsed=Deb822(text), fields=list(keep)), \
                [(k, v) for k, v in pairs if k in keep]
        return kind, Deb822(_parsed=Deb822(text)), list(pairs)
    return kind, Deb822(text.splitlines()), list(pairs)


# ------------------------------------------------------------------------------------------------
# P-09a  LinkedList (debian._util) against an abstract sequence.
#  Nodes are references into an array heap (one array per field); the list object carries two GHOST fields,
#  ns (ghost array: ns[i] is the i-th node) and n (its length).  LL_INV is the representation invariant; every
#  operation is verified from the real AST to preserve it and to change the abstract sequence as stated.
import z3
from vf.pyvc.speclib import SpecLib
from vf.pyvc.world import World, Contract
from vf.pyvc.interp import LoopSpec
from vf.pyvc.values import VObj, VBox, VSeq, VInt, VRef, VArr, NONE, fresh, fresh_name, lift, sort_of
from vf.pyvc.driver import verify_contracts

UT = "debian._util"
NODE = ("ref", "LinkedListNode")
ITEM = "int"       # the element type of the generic containers: an opaque hashable value (only == and hashing are used on it)

LL_INV = (
    "self.n >= 0 and self._size == self.n",
    "implies(self.n == 0, self.head_node is None and self.tail_node is None)",
    "implies(self.n > 0, self.head_node is self.ns[0] and self.tail_node is self.ns[self.n - 1])",
    "implies(self.n > 0, self.ns[0]._previous_node is None and self.ns[self.n - 1].next_node is None)",
    # every node is allocated and knows its position (pos is a ghost map node -> index: makes the nodes pairwise distinct)
    "forall(i, 0, self.n, allocated(self.ns[i]) and self.pos[self.ns[i]] == i)",
    "forall(i, 0, self.n - 1, self.ns[i].next_node is self.ns[i + 1])",
    "forall(i, 1, self.n, self.ns[i]._previous_node is self.ns[i - 1])",
)
VALUES_KEPT = "forall(i, 0, old(self.n), old(self.ns)[i].value == old(old(self.ns)[i].value))"
GI = {"self.pos": "LinkedListNode"}


def _ll(ex, name="self"):
    return VObj("LinkedList", {"head_node": fresh(NODE, "head"), "tail_node": fresh(NODE, "tail"), "_size": fresh("int", "size"),
                               "ns": fresh(("arr", NODE), "ns"), "n": fresh("int", "n"),
                               "pos": fresh(("arr", "int"), "pos")}, name)


class LLContract(Contract):
    modular = False
    requires = LL_INV
    heap_mod = ("LinkedListNode.next_node", "LinkedListNode._previous_node", "LinkedListNode.value", "allocation")
    modifies = ("self.head_node", "self.tail_node", "self._size", "self.ns", "self.n", "self.pos") + heap_mod
    ghost_index = GI
    solver_budget = 10        # every obligation of this family is discharged in < 0.5 s on the unchanged tree


class LLAppend(LLContract):
    target = UT + ":LinkedList.append"
    returns = NODE
    ghost_final = (("self.ns", "result if i == old(self.n) else old(self.ns)[i]"), ("self.n", "old(self.n) + 1"),
                   ("self.pos", "old(self.n) if i is result else old(self.pos)[i]"))
    ensures = LL_INV + ("self.n == old(self.n) + 1", "self.ns[old(self.n)] is result", "not old(allocated(result))",
                        "forall(i, 0, old(self.n), self.ns[i] is old(self.ns)[i])", "result.value == value", VALUES_KEPT,
                        "forall_any(r, self.pos[r] == (old(self.n) if r is result else old(self.pos)[r]))")

    def setup(self, ex):
        return {"self": _ll(ex), "value": fresh(ITEM, "value")}


INS_AT = "new_node if i == {k} else (old(self.ns)[i] if i < {k} else old(self.ns)[i - 1])"
POS_INS = "{k} if i is new_node else (old(self.pos)[i] + 1 if old(self.pos)[i] >= {k} else old(self.pos)[i])"
POS_INS_ALL = "forall_any(r, self.pos[r] == ({k} if r is {new} else (old(self.pos)[r] + 1 if old(self.pos)[r] >= {k} else old(self.pos)[r])))"
INSERTED = ("self.n == old(self.n) + 1", "forall(i, 0, {k}, self.ns[i] is old(self.ns)[i])", "self.ns[{k}] is {new}",
            "forall(i, {k} + 1, self.n, self.ns[i] is old(self.ns)[i - 1])", POS_INS_ALL)
NEW_NODE_OK = ("allocated(new_node)", "new_node.next_node is None and new_node._previous_node is None",
               "forall(i, 0, self.n, self.ns[i] is not new_node)")


KX = "old(self.pos)[existing_node]"          # the index of the reference node: determined by the ghost position map
IN_LIST = "0 <= self.pos[{x}] and self.pos[{x}] < self.n and self.ns[self.pos[{x}]] is {x}"


class LLInsertNodeBefore(LLContract):
    target = UT + ":LinkedList.insert_node_before"
    requires = LL_INV + (IN_LIST.format(x="existing_node"),) + NEW_NODE_OK
    ghost_final = (("self.ns", INS_AT.format(k=KX)), ("self.n", "old(self.n) + 1"), ("self.pos", POS_INS.format(k=KX)))
    ensures = LL_INV + tuple(x.format(k=KX, new="new_node") for x in INSERTED) + ("result is new_node", VALUES_KEPT,
                                                                                "new_node.value == old(new_node.value)")
    returns = NODE

    def setup(self, ex):
        return {"self": _ll(ex), "new_node": fresh(NODE, "new_node"), "existing_node": fresh(NODE, "existing")}


class LLInsertNodeAfter(LLInsertNodeBefore):
    target = UT + ":LinkedList.insert_node_after"
    ghost_final = (("self.ns", INS_AT.format(k="(%s + 1)" % KX)), ("self.n", "old(self.n) + 1"),
                   ("self.pos", POS_INS.format(k="(%s + 1)" % KX)))
    ensures = LL_INV + tuple(x.format(k="(%s + 1)" % KX, new="new_node") for x in INSERTED) + ("result is new_node", VALUES_KEPT,
                                                                                       "new_node.value == old(new_node.value)")


KN = "old(self.pos)[node]"


class LLRemoveNode(LLContract):
    target = UT + ":LinkedList.remove_node"
    requires = LL_INV + (IN_LIST.format(x="node"),)
    ghost_final = (("self.ns", "old(self.ns)[i] if i < %s else old(self.ns)[i + 1]" % KN), ("self.n", "old(self.n) - 1"),
                   ("self.pos", "old(self.pos)[i] - 1 if old(self.pos)[i] > %s else old(self.pos)[i]" % KN))
    ensures = LL_INV + ("self.n == old(self.n) - 1", "forall(i, 0, %s, self.ns[i] is old(self.ns)[i])" % KN,
                        "forall(i, %s, self.n, self.ns[i] is old(self.ns)[i + 1])" % KN,
                        "node.next_node is None and node._previous_node is None", "node.value == old(node.value)", VALUES_KEPT,
                        "forall_any(r, self.pos[r] == (old(self.pos)[r] - 1 if old(self.pos)[r] > %s else old(self.pos)[r]))" % KN)

    def setup(self, ex):
        return {"self": _ll(ex), "node": fresh(NODE, "node")}


class LLInsertAtHead(LLContract):
    target = UT + ":LinkedList.insert_at_head"
    returns = NODE
    ghost_final = (("self.ns", "result if i == 0 else old(self.ns)[i - 1]"), ("self.n", "old(self.n) + 1"),
                   ("self.pos", "0 if i is result else old(self.pos)[i] + 1"))
    ensures = LL_INV + ("self.n == old(self.n) + 1", "self.ns[0] is result", "not old(allocated(result))",
                        "forall(i, 1, self.n, self.ns[i] is old(self.ns)[i - 1])", "result.value == value", VALUES_KEPT,
                        "forall_any(r, self.pos[r] == (0 if r is result else old(self.pos)[r] + 1))")

    def setup(self, ex):
        return {"self": _ll(ex), "value": fresh(ITEM, "value")}


class LLInsertBefore(LLContract):
    target = UT + ":LinkedList.insert_before"
    returns = NODE
    requires = LL_INV + (IN_LIST.format(x="existing_node"),)
    ghost_final = (("self.ns", INS_AT.format(k=KX).replace("new_node", "result")), ("self.n", "old(self.n) + 1"),
                   ("self.pos", POS_INS.format(k=KX).replace("new_node", "result")))
    ensures = LL_INV + tuple(x.format(k=KX, new="result") for x in INSERTED) + ("not old(allocated(result))",
                                                                              "result.value == value", VALUES_KEPT)

    def setup(self, ex):
        return {"self": _ll(ex), "value": fresh(ITEM, "value"), "existing_node": fresh(NODE, "existing")}


class LLInsertAfter(LLInsertBefore):
    target = UT + ":LinkedList.insert_after"
    ghost_final = (("self.ns", INS_AT.format(k="(%s + 1)" % KX).replace("new_node", "result")), ("self.n", "old(self.n) + 1"),
                   ("self.pos", POS_INS.format(k="(%s + 1)" % KX).replace("new_node", "result")))
    ensures = LL_INV + tuple(x.format(k="(%s + 1)" % KX, new="result") for x in INSERTED) + ("not old(allocated(result))",
                                                                                     "result.value == value", VALUES_KEPT)


class LLLen(LLContract):
    target = UT + ":LinkedList.__len__"
    modifies = ()
    ensures = ("result == self.n",)

    def setup(self, ex):
        return {"self": _ll(ex)}


class LLBool(LLLen):
    target = UT + ":LinkedList.__bool__"
    ensures = ("result == (self.n > 0)",)


class LLPop(LLContract):
    target = UT + ":LinkedList.pop"
    requires = LL_INV
    ghost_final = (("self.n", "old(self.n) - 1"),)
    ensures = LL_INV + ("self.n == old(self.n) - 1", "forall(i, 0, self.n, self.ns[i] is old(self.ns)[i])", VALUES_KEPT)
    modifies = tuple(m for m in LLContract.modifies if m not in ("self.ns", "self.pos"))
    raises = {"IndexError": ("self.n == 0",)}
    raises_modifies = {"IndexError": ()}

    def setup(self, ex):
        return {"self": _ll(ex)}


# ------------------------------------------------------------------------------------------------
# P-09b  OrderedSet against the same abstraction, relative to the LinkedList contracts above (modular calls).
L = "self._OrderedSet__order"
T = "self._OrderedSet__table"
VAL = L + ".ns[i].value"
OS_INV = tuple(x.replace("self.", L + ".") for x in LL_INV) + (
    "forall(i, 0, %s.n, (%s in %s) and %s[%s] is %s.ns[i])" % (L, VAL, T, T, VAL, L),
) + tuple("forall_any(s, implies(s in %s, %s))" % (T, x.replace("self.", L + ".").replace("@T", T)) for x in (
    "0 <= self.pos[@T[s]] and self.pos[@T[s]] < self.n", "self.ns[self.pos[@T[s]]] is @T[s]", "@T[s].value == s"))
OS_MOD = (T,) + tuple(m.replace("self.", L + ".") if m.startswith("self.") else m for m in LLContract.modifies)
OLDV = "old(old(%s.ns)[{i}].value)" % L                 # the item at index {i} of the old sequence
KEYS_SAME = "forall_any(s, (s in %s) == old(s in %s))" % (T, T)
A = "old(%s.pos[%s[item]])" % (L, T)                    # old index of `item`
B_ = "old(%s.pos[%s[reference_item]])" % (L, T)         # old index of `reference_item`


def _os(ex):
    from vf.pyvc.values import DictVal, empty_dict
    d = empty_dict(ITEM, NODE)
    table = VBox("dict", DictVal(d.kty, d.vty, z3.Const(fresh_name("table_keys"), d.keys.sort()),
                                 z3.Const(fresh_name("table_vals"), d.vals.sort())), "table")
    return VObj("OrderedSet", {"_OrderedSet__table": table, "_OrderedSet__order": _ll(ex, "order")}, "self")


class OSContract(Contract):
    modular = False
    requires = OS_INV
    modifies = OS_MOD
    solver_budget = 40        # slowest obligation on the unchanged tree: 8 s

    def setup(self, ex):
        return {"self": _os(ex), "item": fresh(ITEM, "item")}


class OSContains(OSContract):
    target = UT + ":OrderedSet.__contains__"
    modifies = ()
    ensures = ("result == (item in %s)" % T,)


class OSLen(OSContract):
    target = UT + ":OrderedSet.__len__"
    modifies = ()
    ensures = ("result == %s.n" % L,)

    def setup(self, ex):
        return {"self": _os(ex)}


class OSAdd(OSContract):
    target = UT + ":OrderedSet.add"
    ensures = OS_INV + (
        "implies(old(item in %s), %s.n == old(%s.n) and forall(i, 0, %s.n, %s == %s))" % (T, L, L, L, VAL, OLDV.format(i="i")),
        "implies(not old(item in %s), %s.n == old(%s.n) + 1 and %s.ns[old(%s.n)].value == item and "
        "forall(i, 0, old(%s.n), %s == %s))" % (T, L, L, L, L, L, VAL, OLDV.format(i="i")),
        "item in %s" % T, "forall_any(s, implies(s != item, (s in %s) == old(s in %s)))" % (T, T))


class OSRemove(OSContract):
    target = UT + ":OrderedSet.remove"
    ensures = OS_INV + (
        "%s.n == old(%s.n) - 1" % (L, L),
        "forall(i, 0, %s, %s == %s)" % (A, VAL, OLDV.format(i="i")),
        "forall(i, %s, %s.n, %s == %s)" % (A, L, VAL, OLDV.format(i="i + 1")),
        "item not in %s" % T, "forall_any(s, implies(s != item, (s in %s) == old(s in %s)))" % (T, T))
    raises = {"KeyError": ("item not in %s" % T,)}
    raises_modifies = {"KeyError": ()}


class OSOrderLast(OSContract):
    target = UT + ":OrderedSet.order_last"
    ensures = OS_INV + (
        "%s.n == old(%s.n)" % (L, L), KEYS_SAME,
        "forall(i, 0, %s, %s == %s)" % (A, VAL, OLDV.format(i="i")),
        "forall(i, %s, %s.n - 1, %s == %s)" % (A, L, VAL, OLDV.format(i="i + 1")),
        "%s.ns[%s.n - 1].value == item" % (L, L))
    raises = {"KeyError": ("item not in %s" % T,)}
    raises_modifies = {"KeyError": ()}


class OSOrderFirst(OSContract):
    target = UT + ":OrderedSet.order_first"
    ensures = OS_INV + (
        "%s.n == old(%s.n)" % (L, L), KEYS_SAME,
        "%s.ns[0].value == item" % L,
        "forall(i, 1, %s + 1, %s == %s)" % (A, VAL, OLDV.format(i="i - 1")),
        "forall(i, %s + 1, %s.n, %s == %s)" % (A, L, VAL, OLDV.format(i="i")))
    raises = {"KeyError": ("item not in %s" % T,)}
    raises_modifies = {"KeyError": ()}


REL_RAISES = {"ValueError": ("item == reference_item",),
              "KeyError": ("item != reference_item", "(reference_item not in %s) or (item not in %s)" % (T, T))}


def _cases(lt, gt):
    """one clause per consequent: implies(a < b, X) ... implies(a > b, Y) ..."""
    return tuple("implies(%s < %s, %s)" % (A, B_, x) for x in lt) + tuple("implies(%s > %s, %s)" % (A, B_, x) for x in gt)


class OSOrderBefore(OSContract):
    """afterwards `item` sits directly before `reference_item`; everything else keeps its relative order"""
    target = UT + ":OrderedSet.order_before"
    ensures = OS_INV + ("%s.n == old(%s.n)" % (L, L), KEYS_SAME) + _cases(
        # item was before the reference: the items between them move one place to the front
        ("forall(i, 0, %s, %s == %s)" % (A, VAL, OLDV.format(i="i")),
         "forall(i, %s, %s - 1, %s == %s)" % (A, B_, VAL, OLDV.format(i="i + 1")),
         "%s.ns[%s - 1].value == item" % (L, B_),
         "forall(i, %s, %s.n, %s == %s)" % (B_, L, VAL, OLDV.format(i="i"))),
        # item was after the reference: the items from the reference up to it move one place to the back
        ("forall(i, 0, %s, %s == %s)" % (B_, VAL, OLDV.format(i="i")),
         "%s.ns[%s].value == item" % (L, B_),
         "forall(i, %s + 1, %s + 1, %s == %s)" % (B_, A, VAL, OLDV.format(i="i - 1")),
         "forall(i, %s + 1, %s.n, %s == %s)" % (A, L, VAL, OLDV.format(i="i"))))
    raises = REL_RAISES
    raises_modifies = {"ValueError": (), "KeyError": ()}

    def setup(self, ex):
        return {"self": _os(ex), "item": fresh(ITEM, "item"), "reference_item": fresh(ITEM, "reference_item")}


class OSOrderAfter(OSOrderBefore):
    """afterwards `item` sits directly after `reference_item`"""
    target = UT + ":OrderedSet.order_after"
    ensures = OS_INV + ("%s.n == old(%s.n)" % (L, L), KEYS_SAME) + _cases(
        ("forall(i, 0, %s, %s == %s)" % (A, VAL, OLDV.format(i="i")),
         "forall(i, %s, %s, %s == %s)" % (A, B_, VAL, OLDV.format(i="i + 1")),
         "%s.ns[%s].value == item" % (L, B_),
         "forall(i, %s + 1, %s.n, %s == %s)" % (B_, L, VAL, OLDV.format(i="i"))),
        ("forall(i, 0, %s + 1, %s == %s)" % (B_, VAL, OLDV.format(i="i")),
         "%s.ns[%s + 1].value == item" % (L, B_),
         "forall(i, %s + 2, %s + 1, %s == %s)" % (B_, A, VAL, OLDV.format(i="i - 1")),
         "forall(i, %s + 1, %s.n, %s == %s)" % (A, L, VAL, OLDV.format(i="i"))))


class OSExtend(OSContract):
    """extend(iterable): afterwards every given item is a member, earlier members stay, and the old items keep their places"""
    target = UT + ":OrderedSet.extend"
    ensures = OS_INV + ("forall(j, 0, len(iterable), iterable[j] in %s)" % T,
                        "forall_any(s, implies(old(s in %s), s in %s))" % (T, T),
                        "%s.n >= old(%s.n)" % (L, L),
                        "forall(i, 0, old(%s.n), %s == %s)" % (L, VAL, OLDV.format(i="i")))
    loops = {0: LoopSpec(invariants=OS_INV + ("0 <= xi and xi <= len(iterable)",
                                              "forall(j, 0, xi, iterable[j] in %s)" % T,
                                              "forall_any(s, implies(old(s in %s), s in %s))" % (T, T),
                                              "%s.n >= old(%s.n)" % (L, L),
                                              "forall(i, 0, old(%s.n), %s == %s)" % (L, VAL, OLDV.format(i="i"))),
                         index="xi", var_types={"item": ITEM},
                         modifies=OS_MOD)}

    def setup(self, ex):
        return {"self": _os(ex), "iterable": fresh(("list", ITEM), "iterable")}


def build_world_os():
    w = build_world_ll()
    for cls in (LLAppend, LLInsertNodeBefore, LLInsertNodeAfter, LLRemoveNode, LLInsertAtHead, LLInsertBefore, LLInsertAfter,
                LLLen, LLBool, LLPop):
        c = cls()
        c.modular = True
        w.add_contract(c)
    return w


def build_world_ll():
    sl = SpecLib()
    w = World(sl)
    w.heap_classes["LinkedListNode"] = {"next_node": NODE, "_previous_node": NODE, "value": ITEM}
    return w


class SortKey(Contract):
    """the default sort key of sort_fields: the lower-cased name and nothing else"""
    target = UT + ":default_field_sort_key"
    modular = False
    ensures = ("result == x.lower()",)

    def setup(self, ex):
        return {"x": fresh("str", "x")}


# P-09c  the key class _CaseInsensitiveString (what Deb822Dict files its keys under): equality and hash look at the lower-cased
# text only, str() gives back the text as written.  The object is modelled by its two slots with the constructor's invariant
# str_lower == str_orig.lower() as precondition (__new__ itself - str.__new__ on a subclass - is outside the encoded subset).
class _KeyContract(Contract):
    modular = False
    requires = ("self.str_lower == self.str_orig.lower()",)

    def setup(self, ex):
        me = VObj("_CaseInsensitiveString", {"str_orig": fresh("str", "text"), "str_lower": fresh("str", "lowered")}, "self")
        return {"self": me}


class KeyEq(_KeyContract):
    target = UT + ":_CaseInsensitiveString.__eq__"
    ensures = ("result == (self.str_orig.lower() == other.lower())",)

    def setup(self, ex):
        d = _KeyContract.setup(self, ex)
        d["other"] = fresh("str", "other")
        return d


class KeyNe(KeyEq):
    target = UT + ":_CaseInsensitiveString.__ne__"
    ensures = ("result == (self.str_orig.lower() != other.lower())",)


class KeyHash(_KeyContract):
    target = UT + ":_CaseInsensitiveString.__hash__"
    ensures = ("result == hash(self.str_orig.lower())",)


class KeyStr(_KeyContract):
    target = UT + ":_CaseInsensitiveString.__str__"
    ensures = ("result == self.str_orig",)


class KeyLower(_KeyContract):
    target = UT + ":_CaseInsensitiveString.lower"
    ensures = ("result == self.str_orig.lower()",)


def verify_key_class(ctx):
    verify_contracts(ctx, World(SpecLib()), [KeyEq(), KeyNe(), KeyHash(), KeyStr(), KeyLower()], {})
    ctx.solve()


def verify_ordering_machinery(ctx):
    """LinkedList and OrderedSet of debian._util under contract (shared by C09 and C10, whose order_* for paragraphs
    without duplicated fields delegate to OrderedSet.order_*)"""
    run_deductive(ctx)


def run_deductive(ctx):
    w = build_world_ll()
    cs = [LLAppend(), LLInsertNodeBefore(), LLInsertNodeAfter(), LLRemoveNode(), LLInsertAtHead(), LLInsertBefore(),
          LLInsertAfter(), LLLen(), LLBool(), LLPop()]
    verify_contracts(ctx, w, cs, {})
    w2 = build_world_os()
    verify_contracts(ctx, w2, [OSContains(), OSLen(), OSAdd(), OSRemove(), OSOrderLast(), OSOrderFirst(), OSOrderBefore(),
                               OSOrderAfter()], {})
    w3 = build_world_os()
    add = OSAdd()
    add.modular = True
    w3.add_contract(add)
    verify_contracts(ctx, w3, [OSExtend()], {})
    verify_contracts(ctx, World(SpecLib()), [SortKey()], {})
    verify_key_class(ctx)
    ctx.assumptions.append("the items of OrderedSet / LinkedList are modelled as opaque values with == and hashing only (mathematical "
                           "integers): the containers are generic in the item type")
    ctx.assumptions.append("weak references are dereferenced as the object itself: referents are assumed to be alive (nodes are "
                           "kept alive by the next_node chain from the list head)")
    ctx.solve()


def run(ctx):
    mod = extract.load(MOD)
    real = mod.real()
    run_deductive(ctx)
    # parsed paragraphs are built by Deb822._internal_parser: one mapping assignment per field, in line order (same contract as C02)
    from props import C02 as _c02
    _c02.verify_internal_parser(ctx, real)
    for q in ("Deb822Dict.__setitem__", "Deb822Dict.__getitem__", "Deb822Dict.__delitem__", "Deb822Dict.__contains__",
              "Deb822Dict.order_first", "Deb822Dict.order_last", "Deb822Dict.order_before", "Deb822Dict.order_after",
              "Deb822Dict.sort_fields", "Deb822Dict.copy", "Deb822Dict.__iter__", "Deb822Dict.__len__"):
        node, _ = mod.lookup(q)
        if node is not None:
            ctx.function_under_contract(MOD + ":" + q, mod.segment(node))
    um = extract.load("debian._util")
    for q in ("OrderedSet.add", "OrderedSet.remove", "OrderedSet._reorder", "OrderedSet.order_before", "OrderedSet.order_after",
              "LinkedList.remove_node", "LinkedList.append", "LinkedList.insert_at_head", "LinkedList.insert_node_before",
              "LinkedList.insert_node_after", "LinkedListNode.remove", "LinkedListNode.link_nodes"):
        node, _ = um.lookup(q)
        if node is not None:
            ctx.function_under_contract("debian._util:" + q, um.segment(node))
    rng = random.Random(ctx.seed)
    rounds = 4000 if ctx.tier == "quick" else 60000
    t = Tally(ctx, "B-09 histories on Deb822 mappings vs a reference list model",
              "seeded histories of 1-8 operations (set, delete, get, order_first/last/before/after, sort_fields with default and "
              "custom key, a key function that raises, copy - earlier copies must keep what they held -, dump+re-parse) over keys {a,A,b,B,c,Xy,xY,XY} from 5 kinds of starting state; the mapping is "
              "compared with the model after every step (keys, spelling, order, values, membership and lookup under every case "
              "variant); non-trivial = distinct (start kind, history)", "%d histories, <= 8 operations" % rounds)
    Deb822 = real.Deb822
    for _ in range(rounds):
        kind, d, model = start_state(real, rng)
        ops = [["start", kind, list(model)]]
        frozen = []                        # copies taken during the history, with what they held when taken
        bystander = real.Deb822()          # another mapping alive at the same time: nothing done to `d` may show up here
        bystander["Zed"] = "1"
        bystander["a"] = "2"
        bystander["XY"] = "3"
        if not same(d, model):
            t.failed("initial state differs from the model", operations=ops, keys=list(d.keys()))
            break
        for step in range(rng.randint(1, 8)):
            op = rng.choice(["set", "set", "del", "get", "first", "last", "before", "after", "sort", "sortkey", "sorttie", "sortraise", "copy", "cycle",
                             "mapping-api", "mapping-api"])
            k = rng.choice(KEYS)
            r = rng.choice(KEYS)
            before = snapshot(d)
            exp_exc = None
            try:
                if op == "set":
                    v = str(rng.randint(0, 9))
                    ops.append(["set", k, v])
                    i = find(model, k)
                    if i >= 0:
                        model[i] = (model[i][0], v)
                    else:
                        model.append((k, v))
                    d[k] = v
                elif op == "del":
                    ops.append(["del", k])
                    i = find(model, k)
                    if i < 0:
                        exp_exc = KeyError
                    else:
                        del model[i]
                    del d[k]
                elif op == "get" and find(model, k) < 0 and rng.random() < 0.5:
                    # the key object a failed look-up reports is handed back to the mapping: the field is spelled as it was asked for
                    ops.append(["get of a missing key, then assignment under the key the KeyError carries", k])
                    try:
                        d[k]
                        t.failed("look-up of a missing key did not raise KeyError", operations=ops)
                        break
                    except KeyError as e_:
                        handed = e_.args[0] if e_.args else k
                    d[handed] = "from-keyerror"
                    model.append((k, "from-keyerror"))
                elif op == "get":
                    ops.append(["get", k])
                    if find(model, k) < 0:
                        exp_exc = KeyError
                    d[k]
                elif op == "mapping-api":
                    # the inherited mapping methods: get / pop with a default, setdefault, update, popitem, views
                    which = rng.choice(["get-default", "pop-default", "setdefault", "update", "popitem", "views"])
                    ops.append([which, k])
                    i = find(model, k)
                    if which == "get-default":
                        got = d.get(k, "dflt")
                        if got != (model[i][1] if i >= 0 else "dflt") or (d.get(k) is None) != (i < 0):
                            t.failed("get(key, default) differs from the model", operations=ops, got=got)
                            break
                    elif which == "pop-default":
                        got = d.pop(k, "dflt")
                        if got != (model[i][1] if i >= 0 else "dflt"):
                            t.failed("pop(key, default) differs from the model", operations=ops, got=got)
                            break
                        if i >= 0:
                            del model[i]
                    elif which == "setdefault":
                        got = d.setdefault(k, "sd")
                        if i < 0:
                            model.append((k, "sd"))
                        if got != (model[i][1] if i >= 0 else "sd"):
                            t.failed("setdefault differs from the model", operations=ops, got=got)
                            break
                    elif which == "update":
                        d.update({k: "u1", r: "u2"})
                        for kk, vv in ((k, "u1"), (r, "u2")):
                            j = find(model, kk)
                            if j < 0:
                                model.append((kk, vv))
                            else:
                                model[j] = (model[j][0], vv)
                    elif which == "popitem":
                        if not model:
                            exp_exc = KeyError
                        got = d.popitem()
                        first = model.pop(0)
                        if tuple(got) != first:
                            t.failed("popitem() did not remove and return the first item", operations=ops, got=repr(got))
                            break
                    else:
                        if list(d.values()) != [v_ for _s, v_ in model] or [tuple(x) for x in d.items()] != model or \
                                (k in d) != (i >= 0) or (k.swapcase() in d) != (i >= 0):
                            t.failed("values() / items() / membership differ from the model", operations=ops)
                            break
                elif op in ("first", "last"):
                    ops.append(["order_" + op, k])
                    i = find(model, k)
                    if i < 0:
                        exp_exc = KeyError
                    else:
                        e = model.pop(i)
                        model.insert(0, e) if op == "first" else model.append(e)
                    getattr(d, "order_" + op)(k)
                elif op in ("before", "after"):
                    ops.append(["order_" + op, k, r])
                    i, j = find(model, k), find(model, r)
                    if k.lower() == r.lower():
                        exp_exc = ValueError
                    elif i < 0 or j < 0:
                        exp_exc = KeyError
                    else:
                        e = model.pop(i)
                        j = find(model, r)
                        model.insert(j if op == "before" else j + 1, e)
                    getattr(d, "order_" + op)(k, r)
                elif op == "sort":
                    ops.append(["sort_fields"])
                    model.sort(key=lambda e: e[0].lower())
                    d.sort_fields()
                elif op == "sortkey":
                    ops.append(["sort_fields", "key=reverse-lower"])
                    model.sort(key=lambda e: [-ord(c) for c in e[0].lower()])
                    d.sort_fields(key=lambda s: [-ord(c) for c in s.lower()])
                elif op == "sortraise" and model:
                    # a key function that fails on the n-th name: the error reaches the caller, the order stays as it was
                    fail_at = rng.randint(1, len(model))
                    calls = {"n": 0}

                    def kf_raise(nm, calls=calls, fail_at=fail_at):
                        calls["n"] += 1
                        if calls["n"] >= fail_at:
                            raise KeyError("no rank for %s" % nm)
                        return nm.lower()
                    ops.append(["sort_fields", "key raises KeyError at call %d" % fail_at])
                    exp_exc = KeyError
                    d.sort_fields(key=kf_raise)
                elif op == "sorttie":
                    # a key function with many ties: sorting is stable (same semantics as sorted())
                    ops.append(["sort_fields", "key=len"])
                    model.sort(key=lambda e: len(e[0]))
                    d.sort_fields(key=len)
                elif op == "copy":
                    ops.append(["copy"])
                    c = d.copy()
                    if not same(c, model):
                        t.failed("copy() differs from the model", operations=ops, copy_keys=list(c.keys()))
                        break
                    # the copy must be independent
                    c["zz"] = "1"
                    if "zz" in d:
                        t.failed("copy() is not independent of the original", operations=ops)
                        break
                    # a copy taken now keeps what it holds, whatever happens to the original afterwards
                    frozen.append((d.copy(), [tuple(e) for e in model], len(ops)))
                    if rng.random() < 0.5:
                        del c["zz"]
                        d = c
                else:
                    ops.append(["dump + re-parse"])
                    if hasattr(d, "dump"):
                        d = Deb822(d.dump())
                if exp_exc is not None:
                    t.failed("expected %s was not raised" % exp_exc.__name__, operations=ops)
                    break
            except (KeyError, ValueError) as ex:
                if exp_exc is None or not isinstance(ex, exp_exc):
                    t.failed("unexpected %r" % (ex,), operations=ops)
                    break
                if snapshot(d) != before:
                    t.failed("mapping changed although the operation raised %s" % type(ex).__name__, operations=ops,
                             before=before, after=snapshot(d))
                    break
            except Exception as ex:
                t.failed("unexpected %r" % (ex,), operations=ops)
                break
            if not same(d, model):
                t.failed("mapping differs from the reference model", operations=ops, keys=list(d.keys()),
                         items=[list(x) for x in d.items()], model=[list(x) for x in model])
                break
            stale = None
            for c_, m_, at_ in frozen:
                try:
                    ok_ = same(c_, [list(e) for e in m_]) and (not hasattr(c_, "dump") or isinstance(c_.dump(), str))
                except Exception as ex:
                    ok_ = False
                if not ok_:
                    stale = (m_, at_)
                    break
            if stale is not None:
                t.failed("a copy taken earlier changed when the original was edited afterwards", operations=ops,
                         copy_taken_after_operation=stale[1], copy_should_hold=[list(e) for e in stale[0]])
                break
        if t.fail:
            break
        if not t.fail and [(k_, bystander[k_]) for k_ in bystander.keys()] != [("Zed", "1"), ("a", "2"), ("XY", "3")]:
            t.failed("operations on one mapping changed another mapping (shared state)", operations=ops,
                     bystander=[(k_, bystander[k_]) for k_ in bystander.keys()])
            break
        t.case(key=str(ops), sample=ops if len(ops) > 4 else None)
    if not t.fail:
        # sizes no small example reaches (hundreds / thousands of fields, dumps beyond every buffer size): same statement
        from props import C02 as _c02
        _c02.large_instances(real, t)
    t.done()
    ctx.level = "other"
    ctx.explanation = ("PROVED from the AST of the real debian._util (array heap for nodes, ghost node sequence + position map, "
                       "quantified representation invariant; AUFLIA obligations, each confirmed by two back ends): every LinkedList "
                       "operation (append, insert_at_head, insert_before/after, insert_node_before/after, remove_node, pop, __len__, "
                       "__bool__) preserves the doubly-linked-list invariant and changes the abstract sequence exactly as a list "
                       "insert / delete at the stated index, leaving all other node values alone; every OrderedSet operation (add, "
                       "remove, extend, __contains__, __len__, order_first / order_last / order_before / order_after with _reorder inlined) "
                       "preserves 'table and list hold the same items, each once' and realises the reference list model: membership "
                       "unchanged by re-ordering, the item moved to the stated place, every other item keeping its relative order; "
                       "KeyError / ValueError exactly in the stated cases with nothing modified. The key class the mappings file their names "
                       "under (_CaseInsensitiveString): == / != compare the lower-cased texts, hash() is the hash of the lower-cased "
                       "text, str() the text as written (its slots with the constructor's invariant as precondition). NOT proved: the iteration "
                       "generators and the Deb822Dict layer on top (how it uses the key objects, value "
                       "dictionary, sort_fields, copy) - BOUNDED part: operation histories on real Deb822 mappings against a "
                       "reference list model.")


def replay(ctx, data):
    return True
