"""C06  ar members are exact, isolated, file-like views of the archive.

Contracts (sidecar) on the real debian.arfile functions; the file object is the speclib model
BinaryIO = (data, pos); the specification of every member operation is "io.BytesIO over
data[offset:end]" written as spec functions below (native twins validated against io.BytesIO).
"""
import io
import os
import sys

import z3

from vf.pyvc.speclib import SpecLib, F_FILEDATA, F_FIND
from vf.pyvc.world import World, Contract
from vf.pyvc.interp import LoopSpec
from vf.pyvc.values import VObj, VInt, VBool, VSeq, VOpt, NONE, VFunc, fresh, fresh_name, SeqI, VBox
from vf.pyvc.driver import verify_contracts

MOD = "debian.arfile"


# ------------------------------------------------------------------------------------------------
# spec functions: io.BytesIO(m) at position p.  One text, two readings: executed symbolically by the
# VC generator on views, and natively by CPython (selftest compares them with the real io.BytesIO).

def bio_read(m, p, size):
    if size is None or size < 0:
        return m[p:]
    return m[p:p + size]


def bio_read_pos(m, p, size):
    n = len(m)
    if p >= n:
        return p
    if size is None or size < 0:
        return n
    if p + size > n:
        return n
    return p + size


def bio_readline(m, p, size):
    n = len(m)
    if p >= n:
        return m[n:n]
    k = first_at(m, 10, p)
    e = n
    if k >= 0:
        e = k + 1
    if size is not None and size >= 0 and p + size < e:
        e = p + size
    return m[p:e]


def bio_seek_pos(n, p, offset, whence):
    if whence == 0:
        return offset
    if whence == 1:
        return p + offset
    return n + offset


def bio_readlines(m, p):
    ln = bio_readline(m, p, None)
    if len(ln) == 0:
        return []
    return [ln] + bio_readlines(m, p + len(ln))


def bio_readlines_step(m, p):       # one unfolding of bio_readlines (a lemma, proved as such)
    ln = bio_readline(m, p, None)
    if len(ln) == 0:
        return []
    return [ln] + bio_readlines(m, p + len(ln))


def first_at(m, c, p):          # native twin of the speclib search primitive
    return m.find(bytes([c]), p)


# ------------------------------------------------------------------------------------------------

def _first_at_sym(ex, a, kw):
    """first_at on a view: search in the underlying buffer, clipped to the view (speclib law)."""
    m, c, p = a
    sl = ex.world.speclib
    if m.view is not None:
        buf, L, H = m.view
    else:
        buf, L, H = m.t, z3.IntVal(0), z3.Length(m.t)
    pt = p.t
    start = z3.If(pt < 0, z3.If(pt + (H - L) < 0, 0, pt + (H - L)), pt)
    k = sl.first_at(ex, buf, c.t, L + start)
    return VInt(z3.If(z3.And(k >= 0, k < H), k - L, -1))


class MemberState:
    """symbolic ArMember over an archive `data`; mode 'shared' (fp given, no fname),
    'byname' (fname, fp None) or 'opened' (fname and fp opened by name)."""

    def build(self, ex, mode):
        sl = ex.world.speclib
        fname = NONE
        if mode == "shared":
            D = z3.Const(fresh_name("data"), SeqI)
        else:
            fn = fresh("str", "fname")
            ex.assume(fn.length() > 0)
            D = F_FILEDATA(fn.t)
            fname = VOpt(z3.BoolVal(False), fn)
        data = VSeq("bytes", "int", D)
        sl.range_facts(ex, data)
        fp = NONE
        self.fppos = None
        if mode in ("shared", "opened"):
            pos = z3.Int(fresh_name("fppos"))
            ex.assume(pos >= 0)
            self.fppos = pos
            fpo = VObj("BinaryIO", {"data": data, "pos": VInt(pos), "closed": VBool(False)}, "fp")
            fp = VOpt(z3.BoolVal(False), fpo)
        off, end, cur = (z3.Int(fresh_name(n)) for n in ("offset", "end", "cur"))
        f = {
            "_ArMember__name": fresh(("opt", "str"), "name"), "_ArMember__mtime": fresh(("opt", "int"), "mtime"),
            "_ArMember__owner": fresh(("opt", "int"), "owner"), "_ArMember__group": fresh(("opt", "int"), "group"),
            "_ArMember__fmode": fresh(("opt", "bytes"), "fmode"), "_ArMember__size": fresh(("opt", "int"), "size"),
            "_ArMember__fname": fname, "_ArMember__fp": fp,
            "_ArMember__offset": VInt(off), "_ArMember__end": VInt(end), "_ArMember__cur": VInt(cur),
            "ghost_data": data,
        }
        self.D, self.off, self.end, self.cur = D, off, end, cur
        return VObj("ArMember", f, "self")


INV = "0 <= self.__offset and self.__offset <= self.__end and self.__end <= len(self.ghost_data) " \
      "and self.__offset <= self.__cur"
MEM = "self.ghost_data[self.__offset:self.__end]"
P0 = "(old(self.__cur) - self.__offset)"
FP_OK = "self.__fp is not None and self.__fp.data == self.ghost_data"


class MemberContract(Contract):
    mode = "shared"
    modifies = ("self.__cur", "self.__fp", "self.__fp.pos")
    field_types = {"_ArMember__fp": ("opt", ("obj", "BinaryIO"))}

    def setup(self, ex):
        st = MemberState()
        self.st = st
        me = st.build(ex, self.mode)
        params = {"self": me}
        params.update(self.more_params(ex))
        self.model_vars = [str(x) for x in (st.off, st.end, st.cur)] + ([str(st.fppos)] if st.fppos is not None else [])
        self.model_vars.append(st.D.sexpr())
        self.model_vars += [str(v) for v in self.extra_model_vars]
        return params

    extra_model_vars = ()

    def more_params(self, ex):
        return {}


def variants(base, **kw):
    out = []
    for mode in ("shared", "byname", "opened"):
        out.append(type("%s_%s" % (base.__name__, mode), (base,), dict(mode=mode, **kw))())
    return out


class Tell(MemberContract):
    target = MOD + ":ArMember.tell"
    modifies = ()
    requires = (INV,)
    ensures = ("result == self.__cur - self.__offset",)
    returns = "int"


class Read(MemberContract):
    target = MOD + ":ArMember.read"
    requires = (INV,)
    # ArMember's documented convention: size <= 0 (default 0) means "to the end"
    ensures = (
        "result == bio_read(%s, %s, None if size <= 0 else size)" % (MEM, P0),
        "self.__cur - self.__offset == bio_read_pos(%s, %s, None if size <= 0 else size)" % (MEM, P0),
        FP_OK,
    )
    returns = "bytes"

    def more_params(self, ex):
        s = z3.Int(fresh_name("size"))
        self.extra_model_vars = [s]
        return {"size": VInt(s)}


class ReadDefault(Read):
    def more_params(self, ex):
        self.extra_model_vars = []
        return {"size": VInt(0)}


class Readline(MemberContract):
    target = MOD + ":ArMember.readline"
    requires = (INV,)
    ensures = (
        "result == bio_readline(%s, %s, size)" % (MEM, P0),
        "self.__cur - self.__offset == %s + len(result)" % P0,
        FP_OK,
    )
    returns = "bytes"

    def more_params(self, ex):
        s = z3.Int(fresh_name("size"))
        none = z3.Bool(fresh_name("size_is_none"))
        self.extra_model_vars = [s, none]
        return {"size": VOpt(none, VInt(s))}


class Readlines(MemberContract):
    locals_order = ['self', 'sizehint', 'buf', 'lines']
    target = MOD + ":ArMember.readlines"
    requires = (INV,)
    ensures = (
        "result == bio_readlines(%s, %s)" % (MEM, P0),
        "self.__cur - self.__offset == bio_read_pos(%s, %s, None)" % (MEM, P0),
    )
    loops = {0: LoopSpec(
        invariants=(
            INV,
            "lines + bio_readlines(%s, self.__cur - self.__offset) == bio_readlines(%s, %s)" % (MEM, MEM, P0),
            "self.__cur >= old(self.__cur)",
            "self.__cur <= self.__end or self.__cur == old(self.__cur)",
            # unfolding lemma instance at the current position (valid by definition; it is an
            # obligation of its own at establish / preserve and a hint where it is assumed)
            "bio_readlines(%s, self.__cur - self.__offset) == bio_readlines_step(%s, self.__cur - self.__offset)" % (MEM, MEM),
        ),
        modifies=("self.__cur", "self.__fp", "self.__fp.pos"),
        decreases="self.__end - self.__cur",
        var_types={"buf": ("opt", "bytes"), "lines": ("list", "bytes")})}

    def more_params(self, ex):
        h = z3.Int(fresh_name("sizehint"))
        self.extra_model_vars = [h]
        return {"sizehint": VInt(h)}


class Seek(MemberContract):
    target = MOD + ":ArMember.seek"
    modifies = ("self.__cur",)
    # domain of the property: non-negative target positions, the three documented whences
    requires = (INV, "whence == 0 or whence == 1 or whence == 2",
                "bio_seek_pos(self.__end - self.__offset, self.__cur - self.__offset, offset, whence) >= 0")
    ensures = (
        "self.__cur - self.__offset == bio_seek_pos(self.__end - self.__offset, %s, offset, whence)" % P0,
        "result is None",
    )

    def more_params(self, ex):
        o, w = z3.Int(fresh_name("seek_offset")), z3.Int(fresh_name("whence"))
        self.extra_model_vars = [o, w]
        return {"offset": VInt(o), "whence": VInt(w)}


def build_world():
    sl = SpecLib()
    w = World(sl)
    for f in (bio_read, bio_read_pos, bio_readline, bio_seek_pos):
        w.spec_func(f)
    w.spec_func(bio_readlines_step)
    w.spec_func(bio_readlines, rec=dict(args=["view:bytes", "int"], ret=("list", "bytes")))
    w.spec_env["first_at"] = VFunc("builtin", "first_at", fn=_first_at_sym)
    return w


def contracts():
    cs = []
    cs += variants(Tell)
    cs += variants(Read)
    cs += variants(Readline)
    cs += variants(Seek)
    cs += variants(Readlines)
    return cs


# ------------------------------------------------------------------------------------------------
# replay of solver counterexamples on the real code

def _real_member(data, off, end, cur, fppos, mode):
    from debian import arfile
    m = arfile.ArMember()
    m._ArMember__offset, m._ArMember__end, m._ArMember__cur = off, end, cur
    m._ArMember__size = end - off
    if mode == "shared":
        fp = io.BytesIO(data)
        fp.seek(max(fppos or 0, 0))
        m._ArMember__fp = fp
        m._ArMember__fname = None
    else:
        import tempfile
        fd, path = tempfile.mkstemp(prefix="verif-c06-", dir="/dev/shm" if os.path.isdir("/dev/shm") else None)
        os.write(fd, data)
        os.close(fd)
        m._ArMember__fname = path
        m._ArMember__fp = None
        if mode == "opened":
            m._ArMember__fp = open(path, "rb")
            m._ArMember__fp.seek(max(fppos or 0, 0))
    return m


def replay_member(model, obl, c):
    st = c.st
    g = lambda t, d=0: d if t is None else model.get(t.sexpr() if not z3.is_const(t) else str(t), d)
    data = bytes(x & 255 for x in (g(st.D, []) or []))
    off, end, cur, fppos = g(st.off), g(st.end), g(st.cur), g(st.fppos)
    if not (0 <= off <= end <= len(data) and off <= cur):
        return {"confirmed": False, "note": "model outside precondition", "model": model}
    m = _real_member(data, off, end, cur, fppos, c.mode)
    oracle = io.BytesIO(data[off:end])
    oracle.seek(cur - off)
    op = c.qualname.split(".")[1]
    args = []
    if op == "read":
        size = g(c.extra_model_vars[0]) if c.extra_model_vars else 0
        args = [size]
        exp = oracle.read(-1 if size <= 0 else size)
    elif op == "readline":
        size = None if g(c.extra_model_vars[1], False) else g(c.extra_model_vars[0])
        args = [size]
        exp = oracle.readline(-1 if size is None else size)
    elif op == "seek":
        o, wh = g(c.extra_model_vars[0]), g(c.extra_model_vars[1])
        args = [o, wh]
        oracle.seek(o, wh)
        exp = None
    elif op == "tell":
        exp = oracle.tell()
    else:
        return {"confirmed": False}
    try:
        got = getattr(m, op)(*args)
        err = None
    except Exception as e:
        got, err = None, repr(e)
    bad = err is not None or got != exp or m.tell() != oracle.tell()
    atell = m.tell() if err is None else None
    if c.mode != "shared":
        if m._ArMember__fp is not None:
            m._ArMember__fp.close()
        os.unlink(m._ArMember__fname)
    return {"confirmed": bool(bad), "function": "ArMember." + op, "archive_bytes": list(data), "offset": off,
            "end": end, "cur": cur, "fp_pos": fppos, "args": args, "expected": repr(exp), "actual": repr(got),
            "error": err, "expected_tell": oracle.tell(), "actual_tell": atell, "mode": c.mode}


def run(ctx):
    w = build_world()
    cs = contracts()
    for c in cs:
        w.add_contract(c)
    # one contract object per (function, mode); World keeps the last registered per function for
    # modular calls, verification iterates over all variants
    reps = {c.qualname: replay_member for c in cs}
    verify_contracts(ctx, w, cs, reps)
    ctx.solve()
    ev, nt, samples = bounded_arfile(ctx)
    ctx.bounded("B-06 ArFile(listing, getmember, header fields) + interleaved member operations vs io.BytesIO",
                ev, len(nt), "archives of 0..3 members over 7 contents (empty, odd/even sizes, with/without final "
                "newline, duplicate names), opened by file object and by file name; seeded interleaved operation "
                "sequences; non-trivial = distinct (non-empty archive, open mode)",
                "members <= 3, 7 contents, %d operations per archive" % (6 if ctx.tier == "quick" else 12), samples,
                exhaustive=(ctx.tier != "quick"))
    ctx.level = "other"
    ctx.explanation = (
        "PROVED (for all archives, positions, sizes, incoming file positions; three open modes): ArMember.read, "
        "readline, readlines, seek, tell against 'io.BytesIO over data[offset:end]' - every obligation generated from "
        "the AST of the real arfile.py and discharged by SMT. BOUNDED ONLY (not proved): ArFile.__collect_members, "
        "ArMember.from_file, getmember/getnames (header walk, padding, header field slicing) - checked on generated "
        "archives against an independent serializer and io.BytesIO oracles.")
    ctx.assumptions += ["A-SEM: pyvc's encoding of the Python subset is faithful (cross-checked by replay and mutants)",
                        "A-INT: Python int is mathematical", "open(name,'rb') returns the archive's bytes and does not fail",
                        "ArMember.read: size <= 0 means 'to the end' (documented convention), compared with BytesIO.read(-1)"]


def replay(ctx, data):
    return True


# ------------------------------------------------------------------------------------------------
# Bounded stand-in for the part not yet under contract (ArFile.__collect_members / from_file /
# getmember / getnames) and, as an independent cross-check of the engine, for interleaved member
# operations.  Labelled bounded; never counted as proved.

def _serialize(members):
    out = bytearray(b"!<arch>\n")
    for name, data, mtime, owner, group, mode in members:
        hdr = b"%-16s%-12d%-6d%-6d%-8s%-10d`\n" % (name + b"/", mtime, owner, group, mode, len(data))
        assert len(hdr) == 60, hdr
        out += hdr + data
        if len(data) % 2:
            out += b"\n"
    return bytes(out)


def _archives(tier, rng):
    contents = [b"", b"a", b"ab", b"a\nb", b"x\n", b"\n\n", b"abc\nde"]
    names = [b"m1", b"m2", b"m1"]
    import itertools
    for n in range(0, 4):
        for combo in itertools.product(range(len(contents)), repeat=n):
            if tier == "quick" and n == 3 and rng.random() > 0.25:
                continue
            yield [(names[i], contents[c], 1000 + i, 10 * i, 7 + i, b"100644") for i, c in enumerate(combo)]


def bounded_arfile(ctx):
    import random
    from debian import arfile
    rng = random.Random(ctx.seed)
    evals = 0
    nontrivial = set()
    samples = []
    import tempfile
    for members in _archives(ctx.tier, rng):
        raw = _serialize(members)
        for mode in ("fileobj", "filename"):
            path = None
            try:
                if mode == "fileobj":
                    af = arfile.ArFile(fileobj=io.BytesIO(raw))
                else:
                    fd, path = tempfile.mkstemp(prefix="verif-c06-", dir="/dev/shm" if os.path.isdir("/dev/shm") else None)
                    os.write(fd, raw)
                    os.close(fd)
                    af = arfile.ArFile(filename=path)
                evals += 1
                exp_names = [m[0].decode() for m in members]
                got = af.getmembers()
                problems = []
                if af.getnames() != exp_names or [m.name for m in got] != exp_names:
                    problems.append("names: expected %r got %r" % (exp_names, af.getnames()))
                else:
                    for m, (nm, data, mtime, owner, group, mode_) in zip(got, members):
                        if (m.size, m.mtime, m.owner, m.group) != (len(data), mtime, owner, group):
                            problems.append("header fields of %s: %r" % (m.name, (m.size, m.mtime, m.owner, m.group)))
                    for nm in set(exp_names):
                        last = max(i for i, x in enumerate(exp_names) if x == nm)
                        if af.getmember(nm) is not got[last]:
                            problems.append("getmember(%r) is not the last member of that name" % nm)
                    # interleaved operations across members against io.BytesIO oracles
                    oracles = [io.BytesIO(m[1]) for m in members]
                    ops = []
                    for step in range(6 if ctx.tier == "quick" else 12):
                        if not members:
                            break
                        i = rng.randrange(len(members))
                        op = rng.choice(["read", "readn", "readline", "readlinen", "readlines", "seek0", "seek1", "seek2", "tell"])
                        n = len(members[i][1])
                        if op == "read":
                            a, b = got[i].read(), oracles[i].read()
                        elif op == "readn":
                            k = rng.randint(1, 3)
                            a, b = got[i].read(k), oracles[i].read(k)
                        elif op == "readline":
                            a, b = got[i].readline(), oracles[i].readline()
                        elif op == "readlinen":
                            k = rng.randint(0, 3)
                            a, b = got[i].readline(k), oracles[i].readline(k)
                        elif op == "readlines":
                            a, b = got[i].readlines(), oracles[i].readlines()
                        elif op == "seek0":
                            k = rng.randint(0, n + 2)
                            got[i].seek(k)
                            oracles[i].seek(k)
                            a = b = None
                        elif op == "seek1":
                            k = rng.randint(-oracles[i].tell(), 2)
                            got[i].seek(k, 1)
                            oracles[i].seek(k, 1)
                            a = b = None
                        elif op == "seek2":
                            k = rng.randint(-n, 1)
                            got[i].seek(k, 2)
                            oracles[i].seek(k, 2)
                            a = b = None
                        else:
                            a, b = got[i].tell(), oracles[i].tell()
                        ops.append((i, op))
                        if a != b or got[i].tell() != oracles[i].tell():
                            problems.append("op sequence %r: member %d %s gave %r (tell %d), BytesIO gave %r (tell %d)"
                                            % (ops, i, op, a, got[i].tell(), b, oracles[i].tell()))
                            break
                    for m in got:
                        m.close()
                if len(members) >= 1:
                    nontrivial.add((tuple((m[0], m[1]) for m in members), mode))
                if len(samples) < 3 and members:
                    samples.append({"archive": [[m[0].decode(), list(m[1])] for m in members], "opened_by": mode})
                if problems:
                    ctx.violation("B-06 ArFile listing / member isolation", "B-06 bounded: ArFile over generated archives",
                                  problems[0], inputs={"archive_bytes": list(raw), "opened_by": mode,
                                                       "members": [[m[0].decode(), list(m[1])] for m in members],
                                                       "problems": problems[:3]}, confirmed=True)
                    return evals, nontrivial, samples
            except Exception as e:
                ctx.violation("B-06 ArFile listing / member isolation", "B-06 bounded: ArFile over generated archives",
                              "exception %r" % (e,), inputs={"archive_bytes": list(raw), "opened_by": mode}, confirmed=True)
                return evals, nontrivial, samples
            finally:
                if path:
                    os.unlink(path)
    return evals, nontrivial, samples
