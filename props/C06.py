"""C06  ar members are exact, isolated, file-like views of the archive.

Contracts (sidecar) on the real debian.arfile functions; the file object is the speclib model
BinaryIO = (data, pos); the specification of every member operation is "io.BytesIO over
data[offset:end]" written as spec functions below (native twins validated against io.BytesIO).
"""
import io
import os
import sys

import z3

from vf.pyvc.speclib import SpecLib, F_FILEDATA, F_FIND
from vf.pyvc.world import World, Contract
from vf.pyvc.interp import LoopSpec
from vf.pyvc.values import VObj, VInt, VBool, VSeq, VOpt, NONE, VFunc, fresh, fresh_name, SeqI, VBox, sort_of
from vf.pyvc.driver import verify_contracts, verify_lemmas, Lemma

MOD = "debian.arfile"


# ------------------------------------------------------------------------------------------------
# spec functions: io.BytesIO(m) at position p.  One text, two readings: executed symbolically by the
# VC generator on views, and natively by CPython (selftest compares them with the real io.BytesIO).

def bio_read(m, p, size):
    if size is None or size < 0:
        return m[p:]
    return m[p:p + size]


def bio_read_pos(m, p, size):
    n = len(m)
    if p >= n:
        return p
    if size is None or size < 0:
        return n
    if p + size > n:
        return n
    return p + size


def bio_readline(m, p, size):
    n = len(m)
    if p >= n:
        return m[n:n]
    k = first_at(m, 10, p)
    e = n
    if k >= 0:
        e = k + 1
    if size is not None and size >= 0 and p + size < e:
        e = p + size
    return m[p:e]


def bio_seek_pos(n, p, offset, whence):
    if whence == 0:
        return offset
    if whence == 1:
        return p + offset
    return n + offset


def bio_readlines(m, p):
    ln = bio_readline(m, p, None)
    if len(ln) == 0:
        return []
    return [ln] + bio_readlines(m, p + len(ln))


def bio_readlines_step(m, p):       # one unfolding of bio_readlines (a lemma, proved as such)
    ln = bio_readline(m, p, None)
    if len(ln) == 0:
        return []
    return [ln] + bio_readlines(m, p + len(ln))


def first_at(m, c, p):          # native twin of the speclib search primitive
    return m.find(bytes([c]), p)


# ------------------------------------------------------------------------------------------------

def _first_at_sym(ex, a, kw):
    """first_at on a view: search in the underlying buffer, clipped to the view (speclib law)."""
    m, c, p = a
    sl = ex.world.speclib
    if m.view is not None:
        buf, L, H = m.view
    else:
        buf, L, H = m.t, z3.IntVal(0), z3.Length(m.t)
    pt = p.t
    start = z3.If(pt < 0, z3.If(pt + (H - L) < 0, 0, pt + (H - L)), pt)
    k = sl.first_at(ex, buf, c.t, L + start)
    return VInt(z3.If(z3.And(k >= 0, k < H), k - L, -1))


class MemberState:
    """symbolic ArMember over an archive `data`; mode 'shared' (fp given, no fname),
    'byname' (fname, fp None) or 'opened' (fname and fp opened by name)."""

    def build(self, ex, mode):
        sl = ex.world.speclib
        fname = NONE
        if mode == "shared":
            D = z3.Const(fresh_name("data"), SeqI)
        else:
            fn = fresh("str", "fname")
            ex.assume(fn.length() > 0)
            D = F_FILEDATA(fn.t)
            fname = VOpt(z3.BoolVal(False), fn)
        data = VSeq("bytes", "int", D)
        sl.range_facts(ex, data)
        fp = NONE
        self.fppos = None
        if mode in ("shared", "opened"):
            pos = z3.Int(fresh_name("fppos"))
            ex.assume(pos >= 0)
            self.fppos = pos
            fpo = VObj("BinaryIO", {"data": data, "pos": VInt(pos), "closed": VBool(False)}, "fp")
            fp = VOpt(z3.BoolVal(False), fpo)
        off, end, cur = (z3.Int(fresh_name(n)) for n in ("offset", "end", "cur"))
        f = {
            "_ArMember__name": fresh(("opt", "str"), "name"), "_ArMember__mtime": fresh(("opt", "int"), "mtime"),
            "_ArMember__owner": fresh(("opt", "int"), "owner"), "_ArMember__group": fresh(("opt", "int"), "group"),
            "_ArMember__fmode": fresh(("opt", "bytes"), "fmode"), "_ArMember__size": fresh(("opt", "int"), "size"),
            "_ArMember__fname": fname, "_ArMember__fp": fp,
            "_ArMember__offset": VInt(off), "_ArMember__end": VInt(end), "_ArMember__cur": VInt(cur),
            "ghost_data": data,
        }
        self.D, self.off, self.end, self.cur = D, off, end, cur
        return VObj("ArMember", f, "self")


INV = "0 <= self.__offset and self.__offset <= self.__end and self.__end <= len(self.ghost_data) " \
      "and self.__offset <= self.__cur"
MEM = "self.ghost_data[self.__offset:self.__end]"
P0 = "(old(self.__cur) - self.__offset)"
FP_OK = "self.__fp is not None and self.__fp.data == self.ghost_data"


class MemberContract(Contract):
    mode = "shared"
    modifies = ("self.__cur", "self.__fp", "self.__fp.pos")
    field_types = {"_ArMember__fp": ("opt", ("obj", "BinaryIO"))}

    def setup(self, ex):
        st = MemberState()
        self.st = st
        me = st.build(ex, self.mode)
        params = {"self": me}
        params.update(self.more_params(ex))
        self.model_vars = [str(x) for x in (st.off, st.end, st.cur)] + ([str(st.fppos)] if st.fppos is not None else [])
        self.model_vars.append(st.D.sexpr())
        self.model_vars += [str(v) for v in self.extra_model_vars]
        return params

    extra_model_vars = ()

    def more_params(self, ex):
        return {}


def variants(base, **kw):
    out = []
    for mode in ("shared", "byname", "opened"):
        out.append(type("%s_%s" % (base.__name__, mode), (base,), dict(mode=mode, **kw))())
    return out


class Tell(MemberContract):
    target = MOD + ":ArMember.tell"
    modifies = ()
    requires = (INV,)
    ensures = ("result == self.__cur - self.__offset",)
    returns = "int"


class Read(MemberContract):
    target = MOD + ":ArMember.read"
    requires = (INV,)
    # ArMember's documented convention: size <= 0 (default 0) means "to the end"
    ensures = (
        "result == bio_read(%s, %s, None if size <= 0 else size)" % (MEM, P0),
        "self.__cur - self.__offset == bio_read_pos(%s, %s, None if size <= 0 else size)" % (MEM, P0),
        FP_OK,
    )
    returns = "bytes"

    def more_params(self, ex):
        s = z3.Int(fresh_name("size"))
        self.extra_model_vars = [s]
        return {"size": VInt(s)}


class ReadDefault(Read):
    def more_params(self, ex):
        self.extra_model_vars = []
        return {"size": VInt(0)}


class Readline(MemberContract):
    target = MOD + ":ArMember.readline"
    requires = (INV,)
    ensures = (
        "result == bio_readline(%s, %s, size)" % (MEM, P0),
        "self.__cur - self.__offset == %s + len(result)" % P0,
        FP_OK,
    )
    returns = "bytes"

    def more_params(self, ex):
        s = z3.Int(fresh_name("size"))
        none = z3.Bool(fresh_name("size_is_none"))
        self.extra_model_vars = [s, none]
        return {"size": VOpt(none, VInt(s))}


class Readlines(MemberContract):
    locals_order = ['self', 'sizehint', 'buf', 'lines']
    target = MOD + ":ArMember.readlines"
    requires = (INV,)
    ensures = (
        "result == bio_readlines(%s, %s)" % (MEM, P0),
        "self.__cur - self.__offset == bio_read_pos(%s, %s, None)" % (MEM, P0),
    )
    loops = {0: LoopSpec(
        invariants=(
            INV,
            "lines + bio_readlines(%s, self.__cur - self.__offset) == bio_readlines(%s, %s)" % (MEM, MEM, P0),
            "self.__cur >= old(self.__cur)",
            "self.__cur <= self.__end or self.__cur == old(self.__cur)",
        ),
        modifies=("self.__cur", "self.__fp", "self.__fp.pos"),
        decreases="self.__end - self.__cur",
        var_types={"buf": ("opt", "bytes"), "lines": ("list", "bytes")})}

    def more_params(self, ex):
        h = z3.Int(fresh_name("sizehint"))
        self.extra_model_vars = [h]
        return {"sizehint": VInt(h)}


class Seek(MemberContract):
    target = MOD + ":ArMember.seek"
    modifies = ("self.__cur",)
    # domain of the property: non-negative target positions, the three documented whences
    requires = (INV, "whence == 0 or whence == 1 or whence == 2",
                "bio_seek_pos(self.__end - self.__offset, self.__cur - self.__offset, offset, whence) >= 0")
    ensures = (
        "self.__cur - self.__offset == bio_seek_pos(self.__end - self.__offset, %s, offset, whence)" % P0,
        "result is None",
    )

    def more_params(self, ex):
        o, w = z3.Int(fresh_name("seek_offset")), z3.Int(fresh_name("whence"))
        self.extra_model_vars = [o, w]
        return {"offset": VInt(o), "whence": VInt(w)}


def hdr_name(h, enc, errs):
    """member name recorded in a 60-byte header: bytes before the first '/', blanks stripped, decoded"""
    return h[0:16].split(b"/")[0].strip().decode(enc, errs)


HDR = "old(fp.data)[old(fp.pos):old(fp.pos) + 60]"


class FromFile(Contract):
    target = MOD + ":ArMember.from_file"
    modular = False
    requires = ()
    ensures = (
        "(result is None) == (old(fp.pos) >= len(fp.data))",
        "implies(result is not None, len(fp.data) >= old(fp.pos) + 60 and %s[58:60] == FILE_MAGIC)" % HDR,
        "implies(result is not None, result.__name == hdr_name(%s, fs_encoding() if encoding is None else encoding, "
        "'surrogateescape' if errors is None else errors))" % HDR,
        "implies(result is not None, result.__mtime == int(%s[16:28]) and result.__owner == int(%s[28:34]) "
        "and result.__group == int(%s[34:40]) and result.__fmode == %s[40:48] and result.__size == int(%s[48:58]))"
        % (HDR, HDR, HDR, HDR, HDR),
        "implies(result is not None, result.__offset == old(fp.pos) + 60 and result.__end == result.__offset + result.__size "
        "and result.__cur == result.__offset and fp.pos == old(fp.pos) + 60)",
        "implies(result is not None, result.__fname == fname)",
        "implies(result is not None, (result.__fp is None) == bool(fname))",
        "implies(result is None, fp.pos == old(fp.pos))",
    )
    raises = {
        "OSError": ("old(fp.pos) < len(fp.data)",
                    "len(fp.data) < old(fp.pos) + 60 or %s[58:60] != FILE_MAGIC" % HDR),
        # a numeric header field is not a numeral
        "ValueError": ("len(fp.data) >= old(fp.pos) + 60",
                       "not (is_int(%s[16:28]) and is_int(%s[28:34]) and is_int(%s[34:40]) and is_int(%s[48:58]))"
                       % (HDR, HDR, HDR, HDR)),
    }
    returns = ("opt", ("obj", "ArMember"))
    modifies = ("fp.pos",)
    raises_modifies = {"OSError": ("fp.pos",), "ValueError": ("fp.pos",)}

    def __init__(self, with_fname):
        self.with_fname = with_fname

    def setup(self, ex):
        sl = ex.world.speclib
        D = z3.Const(fresh_name("data"), SeqI)
        pos = z3.Int(fresh_name("fppos"))
        ex.assume(pos >= 0)
        fp = VObj("BinaryIO", {"data": VSeq("bytes", "int", D), "pos": VInt(pos), "closed": VBool(False)}, "fp")
        if self.with_fname:
            fn = fresh(("opt", "str"), "fname")
        else:
            fn = NONE
        self.model_vars = [str(D), str(pos)]
        return {"fp": fp, "fname": fn, "encoding": fresh(("opt", "str"), "encoding"), "errors": fresh(("opt", "str"), "errors")}


class FromFileWellFormed(FromFile):
    """on a well-formed header from_file cannot fail and the new member satisfies the invariant every
    member operation requires (this links the archive level to the member level)"""
    requires = ("fp.pos >= 0", "hdr_ok(fp.data, fp.pos)")
    ensures = ("result is not None",
               "0 <= result.__offset and result.__offset <= result.__end and result.__end <= len(fp.data) "
               "and result.__offset <= result.__cur")
    raises = {}


class FromFileIdentity(FromFile):
    """the one clause about object identity (not expressible for callers that keep members by value)"""
    ensures = ("implies(result is not None and not fname, result.__fp is fp)",)
    raises = {"OSError": (), "ValueError": ()}


# ---- archive level: spec functions over the archive bytes d and the member index k -------------------

def member_at(d, p, fname, enc, errs):
    """the member described by the 60-byte header at position p"""
    return mk_member(hdr_name(d[p:p + 60], enc, errs), int(d[p + 16:p + 28]), int(d[p + 28:p + 34]), int(d[p + 34:p + 40]),
                     d[p + 40:p + 48], int(d[p + 48:p + 58]), fname, bool(fname), p + 60, p + 60 + int(d[p + 48:p + 58]), p + 60)


def hdr_ok(d, p):
    return (p + 60 <= len(d) and d[p + 58:p + 60] == FILE_MAGIC and is_int(d[p + 16:p + 28]) and is_int(d[p + 28:p + 34])
            and is_int(d[p + 34:p + 40]) and is_int(d[p + 48:p + 58]) and int(d[p + 48:p + 58]) >= 0
            and p + 60 + int(d[p + 48:p + 58]) <= len(d))          # the member's data is complete


def hdr_pos(d, k):
    """position of the header of member k: after the global header, each member occupies
    60 + size bytes, padded to an even length"""
    if k <= 0:
        return 8
    return hdr_pos(d, k - 1) + 60 + int(d[hdr_pos(d, k - 1) + 48:hdr_pos(d, k - 1) + 58]) \
        + int(d[hdr_pos(d, k - 1) + 48:hdr_pos(d, k - 1) + 58]) % 2


def hdr_pos_step(d, k):
    if k <= 0:
        return 8
    return hdr_pos(d, k - 1) + 60 + int(d[hdr_pos(d, k - 1) + 48:hdr_pos(d, k - 1) + 58]) \
        + int(d[hdr_pos(d, k - 1) + 48:hdr_pos(d, k - 1) + 58]) % 2


def ar_wf(d, k, n):
    """members k .. n-1 have complete, well-formed headers and the data ends where header n would start"""
    if k >= n:
        return hdr_pos(d, n) >= len(d)
    return hdr_ok(d, hdr_pos(d, k)) and ar_wf(d, k + 1, n)


def ar_wf_step(d, k, n):
    if k >= n:
        return hdr_pos(d, n) >= len(d)
    return hdr_ok(d, hdr_pos(d, k)) and ar_wf(d, k + 1, n)


def members_spec(d, k, fname, enc, errs):
    if k <= 0:
        return no_members()
    return members_spec(d, k - 1, fname, enc, errs) + [member_at(d, hdr_pos(d, k - 1), fname, enc, errs)]


def members_spec_step(d, k, fname, enc, errs):
    if k <= 0:
        return no_members()
    return members_spec(d, k - 1, fname, enc, errs) + [member_at(d, hdr_pos(d, k - 1), fname, enc, errs)]


def dict_spec(d, k, fname, enc, errs):
    """name -> member after k members have been indexed: later members replace earlier ones"""
    if k <= 0:
        return no_members_dict()
    return dict_store(dict_spec(d, k - 1, fname, enc, errs), hdr_name(d[hdr_pos(d, k - 1):hdr_pos(d, k - 1) + 60], enc, errs),
                      member_at(d, hdr_pos(d, k - 1), fname, enc, errs))


def dict_spec_step(d, k, fname, enc, errs):
    if k <= 0:
        return no_members_dict()
    return dict_store(dict_spec(d, k - 1, fname, enc, errs), hdr_name(d[hdr_pos(d, k - 1):hdr_pos(d, k - 1) + 60], enc, errs),
                      member_at(d, hdr_pos(d, k - 1), fname, enc, errs))


def last_idx(d, k, name, enc, errs):
    """index of the last of the first k members whose name is `name`, or -1"""
    if k <= 0:
        return -1
    if hdr_name(d[hdr_pos(d, k - 1):hdr_pos(d, k - 1) + 60], enc, errs) == name:
        return k - 1
    return last_idx(d, k - 1, name, enc, errs)


ARGS = "fp.data, {k}, self.__fname, self.__encoding, self.__errors"
LP = (("d", "bytes"), ("k", "int"), ("name", "str"), ("fname", ("opt", "str")), ("enc", "str"), ("errs", "str"))


class LemLen(Lemma):
    name = "members_spec has k elements"
    function = "spec:members_spec"
    params = LP
    requires = ("k >= 0",)
    claim = "len(members_spec(d, k, fname, enc, errs)) == k"
    induction = ({"k": "k - 1"},)
    measure = "k"


class LemIdx(Lemma):
    name = "last_idx is -1 or a valid index"
    function = "spec:last_idx"
    params = LP
    requires = ("k >= 0",)
    claim = "-1 <= last_idx(d, k, name, enc, errs) and last_idx(d, k, name, enc, errs) < k"
    induction = ({"k": "k - 1"},)
    measure = "k"


class LemLastKey(Lemma):
    name = "a name is in the index iff some member has it"
    function = "spec:dict_spec"
    params = LP
    requires = ("k >= 0",)
    claim = "(name in dict_spec(d, k, fname, enc, errs)) == (last_idx(d, k, name, enc, errs) >= 0)"
    induction = ({"k": "k - 1"},)
    measure = "k"


class LemLast(Lemma):
    name = "lookup by name returns the last member of that name"
    function = "spec:dict_spec"
    params = LP
    requires = ("k >= 0", "last_idx(d, k, name, enc, errs) >= 0",
                "law_nth_append(members_spec(d, k - 1, fname, enc, errs), member_at(d, hdr_pos(d, k - 1), fname, enc, errs), "
                "last_idx(d, k, name, enc, errs))")
    claim = ("dict_spec(d, k, fname, enc, errs)[name] == members_spec(d, k, fname, enc, errs)[last_idx(d, k, name, enc, errs)]")
    induction = ({"k": "k - 1"},)
    measure = "k"
    uses = ((LemLen, {"k": "k - 1"}), (LemIdx, {"k": "k - 1"}))


class GetNames(Contract):
    target = MOD + ":ArFile.getnames"
    modular = False
    ensures = ("len(result) == len(self.__members)", "result == comp(0, self.__members)")
    modifies = ()

    def setup(self, ex):
        me, _ = _arfile_obj(ex)
        return {"self": me}


class IndexArchive(Contract):
    """__index_archive: opens the named file or uses the given file object, then indexes it"""
    target = MOD + ":ArFile.__index_archive"
    modular = False
    modifies = ("self.__members", "self.__members_dict", "self.__fileobj.pos")

    def __init__(self, by_name):
        self.by_name = by_name
        data = "file_data(self.__fname)" if by_name else "self.__fileobj.data"
        self.requires = ("%s[0:8] == GLOBAL_HEADER" % data, "n >= 0", "ar_wf(%s, 0, n)" % data,
                         "len(self.__members) == 0", "self.__members_dict == no_members_dict()") + \
            (() if by_name else ("self.__fileobj.pos == 0",))
        a = "%s, n, self.__fname, self.__encoding, self.__errors" % data
        self.ensures = ("self.__members == members_spec(%s)" % a, "self.__members_dict == dict_spec(%s)" % a)

    def setup(self, ex):
        me, _ = _arfile_obj(ex)
        from vf.pyvc.values import empty_dict, DictVal
        if self.by_name:
            fn = fresh("str", "fname")
            ex.assume(fn.length() > 0)
            me.fields["_ArFile__fname"] = VOpt(z3.BoolVal(False), fn)
        else:
            me.fields["_ArFile__fname"] = fresh(("opt", "str"), "fname")
            fnm = me.fields["_ArFile__fname"]
            ex.assume(z3.Or(fnm.isnone, fnm.val.length() == 0))
            D = z3.Const(fresh_name("data"), SeqI)
            me.fields["_ArFile__fileobj"] = VOpt(z3.BoolVal(False), VObj("BinaryIO", {
                "data": VSeq("bytes", "int", D), "pos": VInt(z3.Int(fresh_name("fppos"))), "closed": VBool(False)}, "fileobj"))
        n = z3.Int(fresh_name("n"))
        return {"self": me, "n": VInt(n)}


class CollectMembers(Contract):
    locals_order = ['self', 'fp', 'newmember']
    target = MOD + ":ArFile.__collect_members"
    modular = False
    ghosts = ("n",)
    requires = ("fp.pos == 0", "fp.data[0:8] == GLOBAL_HEADER", "n >= 0", "ar_wf(fp.data, 0, n)",
                "len(self.__members) == 0", "self.__members_dict == no_members_dict()")
    ensures = ("self.__members == members_spec(%s)" % ARGS.format(k="n"),
               "self.__members_dict == dict_spec(%s)" % ARGS.format(k="n"))
    modifies = ("fp.pos", "self.__members", "self.__members_dict")
    loops = {0: LoopSpec(
        invariants=(
            "len(self.__members) <= n",
            "fp.pos == hdr_pos(fp.data, len(self.__members))",
            "self.__members == members_spec(%s)" % ARGS.format(k="len(self.__members)"),
            "self.__members_dict == dict_spec(%s)" % ARGS.format(k="len(self.__members)"),
            "ar_wf(fp.data, len(self.__members), n)",
            # one-step unfoldings used by the preservation proof (each is an obligation of its own)
            "mention(hdr_pos(fp.data, len(self.__members) + 1))",
            "mention(members_spec(%s))" % ARGS.format(k="len(self.__members) + 1"),
            "mention(dict_spec(%s))" % ARGS.format(k="len(self.__members) + 1"),
        ),
        modifies=("fp.pos", "self.__members", "self.__members_dict"),
        decreases="n - len(self.__members) + 1",
        var_types={"newmember": ("opt", ("obj", "ArMember"))})}

    def setup(self, ex):
        D = z3.Const(fresh_name("data"), SeqI)
        fp = VObj("BinaryIO", {"data": VSeq("bytes", "int", D), "pos": VInt(z3.Int(fresh_name("fppos"))),
                               "closed": VBool(False)}, "fp")
        from vf.pyvc.values import VBox as _VBox
        members = _VBox("list", VSeq("list", ("rec", "ArMember"), z3.Const(fresh_name("members"), sort_of(("list", ("rec", "ArMember"))))), "members")
        from vf.pyvc.values import empty_dict, DictVal
        mdict = _VBox("dict", empty_dict("str", ("rec", "ArMember")), "members_dict")
        d = mdict.val
        mdict.val = DictVal(d.kty, d.vty, z3.Const(fresh_name("mdict_keys"), d.keys.sort()), z3.Const(fresh_name("mdict_vals"), d.vals.sort()))
        me = VObj("ArFile", {"_ArFile__members": members, "_ArFile__members_dict": mdict,
                             "_ArFile__fname": fresh(("opt", "str"), "fname"), "_ArFile__fileobj": NONE,
                             "_ArFile__encoding": fresh("str", "encoding"), "_ArFile__errors": fresh("str", "errors")}, "self")
        n = z3.Int(fresh_name("n"))
        self.model_vars = [str(D), str(n)]
        return {"self": me, "fp": fp, "n": VInt(n)}


class GetMember(Contract):
    target = MOD + ":ArFile.getmember"
    modular = False
    requires = ("name in self.__members_dict",)
    ensures = ("result == self.__members_dict[name]",)
    modifies = ()

    def setup(self, ex):
        me, _ = _arfile_obj(ex)
        return {"self": me, "name": fresh("str", "name")}


class GetMemberMissing(Contract):
    target = MOD + ":ArFile.getmember"
    modular = False
    requires = ("name not in self.__members_dict",)
    ensures = ("False",)
    raises = {"KeyError": ("name not in self.__members_dict",)}
    modifies = ()

    def setup(self, ex):
        me, _ = _arfile_obj(ex)
        return {"self": me, "name": fresh("str", "name")}


class GetItem(GetMember):
    """archive[name]: the same member getmember(name) gives (the last of that name)"""
    target = MOD + ":ArFile.__getitem__"


class GetItemMissing(GetMemberMissing):
    target = MOD + ":ArFile.__getitem__"


class GetMembers(Contract):
    target = MOD + ":ArFile.getmembers"
    modular = False
    ensures = ("result == self.__members",)
    modifies = ()

    def setup(self, ex):
        me, _ = _arfile_obj(ex)
        return {"self": me}


def _arfile_obj(ex):
    from vf.pyvc.values import VBox as _VBox, empty_dict, DictVal
    members = _VBox("list", VSeq("list", ("rec", "ArMember"), z3.Const(fresh_name("members"), sort_of(("list", ("rec", "ArMember"))))), "members")
    d = empty_dict("str", ("rec", "ArMember"))
    mdict = _VBox("dict", DictVal(d.kty, d.vty, z3.Const(fresh_name("mdict_keys"), d.keys.sort()),
                                  z3.Const(fresh_name("mdict_vals"), d.vals.sort())), "members_dict")
    me = VObj("ArFile", {"_ArFile__members": members, "_ArFile__members_dict": mdict,
                         "_ArFile__fname": fresh(("opt", "str"), "fname"), "_ArFile__fileobj": NONE,
                         "_ArFile__encoding": fresh("str", "encoding"), "_ArFile__errors": fresh("str", "errors")}, "self")
    return me, members


class Init(Contract):
    target = MOD + ":ArFile.__init__"
    modular = False
    modifies = ("self.__members", "self.__members_dict", "self.__fname", "self.__fileobj", "self.__encoding", "self.__errors",
                "fileobj.pos")

    def __init__(self, by_name):
        self.by_name = by_name
        data = "file_data(filename)" if by_name else "fileobj.data"
        self.requires = ("%s[0:8] == GLOBAL_HEADER" % data, "n >= 0", "ar_wf(%s, 0, n)" % data) + \
            (() if by_name else ("fileobj.pos == 0",))
        a = "%s, n, filename, fs_encoding() if encoding is None else encoding, 'surrogateescape' if errors is None else errors" % data
        self.ensures = ("self.__members == members_spec(%s)" % a, "self.__members_dict == dict_spec(%s)" % a)

    def setup(self, ex):
        me = VObj("ArFile", {}, "self")
        if self.by_name:
            fn = fresh("str", "filename")
            ex.assume(fn.length() > 0)
            filename, fileobj = fn, NONE
        else:
            filename = NONE
            D = z3.Const(fresh_name("data"), SeqI)
            fileobj = VObj("BinaryIO", {"data": VSeq("bytes", "int", D), "pos": VInt(z3.Int(fresh_name("fppos"))),
                                        "closed": VBool(False)}, "fileobj")
        enc = fresh(("opt", "str"), "encoding")
        ex.assume(z3.Or(enc.isnone, enc.val.length() > 0))
        from vf.pyvc.values import lift
        return {"self": me, "filename": filename, "mode": lift("r"), "fileobj": fileobj, "encoding": enc,
                "errors": fresh(("opt", "str"), "errors"), "n": VInt(z3.Int(fresh_name("n")))}


MEMBER_FIELDS = [("_ArMember__name", ("opt", "str")), ("_ArMember__mtime", ("opt", "int")), ("_ArMember__owner", ("opt", "int")),
                 ("_ArMember__group", ("opt", "int")), ("_ArMember__fmode", ("opt", "bytes")), ("_ArMember__size", ("opt", "int")),
                 ("_ArMember__fname", ("opt", "str")), ("_ArMember__fp", "objnone"), ("_ArMember__offset", "int"),
                 ("_ArMember__end", "int"), ("_ArMember__cur", "int")]


def _mk_member(ex, a, kw):
    name, mtime, owner, group, fmode, size, fname, fpnone, off, end, cur = a
    from vf.pyvc.values import VPy
    return VObj("ArMember", {"_ArMember__name": name, "_ArMember__mtime": mtime, "_ArMember__owner": owner,
                             "_ArMember__group": group, "_ArMember__fmode": fmode, "_ArMember__size": size,
                             "_ArMember__fname": fname, "_ArMember__fp": VOpt(ex.truth(fpnone), VPy("<fp>")),
                             "_ArMember__offset": off, "_ArMember__end": end, "_ArMember__cur": cur}, "spec-member")


def build_world():
    sl = SpecLib()
    w = World(sl)
    for f in (bio_read, bio_read_pos, bio_readline, bio_seek_pos):
        w.spec_func(f)
    w.spec_func(bio_readlines_step)
    w.spec_func(bio_readlines, rec=dict(args=["view:bytes", "int"], ret=("list", "bytes")))
    w.spec_env["first_at"] = VFunc("builtin", "first_at", fn=_first_at_sym)
    w.spec_func(hdr_name)
    from vf.pyvc import values as _vals
    from vf.pyvc.speclib import F_ISINT
    _vals.REC_CLASSES["ArMember"] = MEMBER_FIELDS
    REC = ("rec", "ArMember")
    w.spec_env["mk_member"] = VFunc("builtin", "mk_member", fn=_mk_member)
    w.spec_env["is_int"] = VFunc("builtin", "is_int", fn=lambda ex, a, kw: VBool(F_ISINT(a[0].t)))
    w.spec_env["no_members"] = VFunc("builtin", "no_members",
                                     fn=lambda ex, a, kw: VSeq("list", REC, z3.Empty(sort_of(("list", REC)))))
    w.spec_env["no_members_dict"] = VFunc("builtin", "no_members_dict",
                                          fn=lambda ex, a, kw: _vals.VBox("dict", _vals.empty_dict("str", REC), "empty"))

    def _dict_store(ex, a, kw):
        d, k, v = a
        box = _vals.VBox("dict", d.val if isinstance(d, _vals.VBox) else d, "tmp")
        sl.dict_set(ex, box, k, v)
        return box
    w.spec_env["dict_store"] = VFunc("builtin", "dict_store", fn=_dict_store)
    w.spec_env["GLOBAL_HEADER"] = _vals.lift(w.module(MOD).real().GLOBAL_HEADER)
    for f in (member_at, hdr_ok, hdr_pos_step, ar_wf_step, members_spec_step, dict_spec_step):
        w.spec_func(f)
    w.spec_func(hdr_pos, rec=dict(args=["bytes", "int"], ret="int"))
    w.spec_func(ar_wf, rec=dict(args=["bytes", "int", "int"], ret="bool"))
    w.spec_func(members_spec, rec=dict(args=["bytes", "int", "opt:str", "str", "str"], ret=("list", REC)))
    w.spec_func(dict_spec, rec=dict(args=["bytes", "int", "opt:str", "str", "str"], ret=("dict", "str", REC)))
    w.spec_func(last_idx, rec=dict(args=["bytes", "int", "str", "str", "str"], ret="int"))
    w.spec_env["file_data"] = VFunc("builtin", "file_data",
                                    fn=lambda ex, a, kw: VSeq("bytes", "int", F_FILEDATA((a[0].val if isinstance(a[0], VOpt) else a[0]).t)))
    w.spec_env["fs_encoding"] = VFunc("builtin", "fs_encoding",
                                      fn=lambda ex, a, kw: VSeq("str", "int", z3.Const("fs_encoding", SeqI)))
    from vf.pyvc.values import lift
    w.spec_env["FILE_MAGIC"] = lift(w.module(MOD).real().FILE_MAGIC)
    return w


def contracts():
    cs = []
    cs += variants(Tell)
    cs += variants(Read)
    cs += variants(Readline)
    cs += variants(Seek)
    cs += variants(Readlines)
    for wf in (False, True):
        for base in (FromFile, FromFileIdentity, FromFileWellFormed):
            c = base(wf)
            c.__class__ = type("%s_%s" % (base.__name__, "fname" if wf else "nofname"), (base,), {})
            cs.append(c)
    cs += [CollectMembers(), GetMember(), GetMemberMissing(), GetItem(), GetItemMissing(), GetMembers(), GetNames()]
    for by_name in (False, True):
        for base in (IndexArchive, Init):
            c = base(by_name)
            c.__class__ = type("%s_%s" % (base.__name__, "byname" if by_name else "fileobj"), (base,), {})
            cs.append(c)
    return cs


# ------------------------------------------------------------------------------------------------
# replay of solver counterexamples on the real code

def _real_member(data, off, end, cur, fppos, mode):
    from debian import arfile
    m = arfile.ArMember()
    m._ArMember__offset, m._ArMember__end, m._ArMember__cur = off, end, cur
    m._ArMember__size = end - off
    if mode == "shared":
        fp = io.BytesIO(data)
        fp.seek(max(fppos or 0, 0))
        m._ArMember__fp = fp
        m._ArMember__fname = None
    else:
        import tempfile
        fd, path = tempfile.mkstemp(prefix="verif-c06-", dir="/dev/shm" if os.path.isdir("/dev/shm") else None)
        os.write(fd, data)
        os.close(fd)
        m._ArMember__fname = path
        m._ArMember__fp = None
        if mode == "opened":
            m._ArMember__fp = open(path, "rb")
            m._ArMember__fp.seek(max(fppos or 0, 0))
    return m


def replay_member(model, obl, c):
    st = c.st
    g = lambda t, d=0: d if t is None else model.get(t.sexpr() if not z3.is_const(t) else str(t), d)
    data = bytes(x & 255 for x in (g(st.D, []) or []))
    off, end, cur, fppos = g(st.off), g(st.end), g(st.cur), g(st.fppos)
    if not (0 <= off <= end <= len(data) and off <= cur):
        return {"confirmed": False, "note": "model outside precondition", "model": model}
    m = _real_member(data, off, end, cur, fppos, c.mode)
    oracle = io.BytesIO(data[off:end])
    oracle.seek(cur - off)
    op = c.qualname.split(".")[1]
    args = []
    if op == "read":
        size = g(c.extra_model_vars[0]) if c.extra_model_vars else 0
        args = [size]
        exp = oracle.read(-1 if size <= 0 else size)
    elif op == "readline":
        size = None if g(c.extra_model_vars[1], False) else g(c.extra_model_vars[0])
        args = [size]
        exp = oracle.readline(-1 if size is None else size)
    elif op == "seek":
        o, wh = g(c.extra_model_vars[0]), g(c.extra_model_vars[1])
        args = [o, wh]
        oracle.seek(o, wh)
        exp = None
    elif op == "tell":
        exp = oracle.tell()
    else:
        return {"confirmed": False}
    try:
        got = getattr(m, op)(*args)
        err = None
    except Exception as e:
        got, err = None, repr(e)
    bad = err is not None or got != exp or m.tell() != oracle.tell()
    atell = m.tell() if err is None else None
    if c.mode != "shared":
        if m._ArMember__fp is not None:
            m._ArMember__fp.close()
        os.unlink(m._ArMember__fname)
    return {"confirmed": bool(bad), "function": "ArMember." + op, "archive_bytes": list(data), "offset": off,
            "end": end, "cur": cur, "fp_pos": fppos, "args": args, "expected": repr(exp), "actual": repr(got),
            "error": err, "expected_tell": oracle.tell(), "actual_tell": atell, "mode": c.mode}


def verify_archive_layer(ctx, members_only=False):
    """the contracts of debian.arfile; members_only: ArMember (read / readline / readlines / seek / tell / from_file) without the
    ArFile index - the part other properties' code reads package parts through (used by C07)"""
    w = build_world()
    cs = contracts()
    for c in cs:
        if not isinstance(c, (FromFile, CollectMembers, GetMember, GetMemberMissing, GetMembers, GetNames, IndexArchive, Init)):
            w.add_contract(c)
    cm = CollectMembers()
    cm.modular = True
    w.add_contract(cm)
    caller_view = FromFile(True)
    caller_view.modular = True
    w.add_contract(caller_view)
    w.module(MOD)
    # one contract object per (function, mode); World keeps the last registered per function for
    # modular calls, verification iterates over all variants
    reps = {c.qualname: replay_member for c in cs if isinstance(c, MemberContract)}
    if members_only:
        cs = [c for c in cs if isinstance(c, (MemberContract, FromFile))]
    verify_contracts(ctx, w, cs, reps)
    if not members_only:
        verify_lemmas(ctx, w, [LemLen(), LemIdx(), LemLastKey(), LemLast()])
    ctx.solve()


def run(ctx):
    verify_archive_layer(ctx)
    ev, nt, samples = bounded_arfile(ctx)
    ctx.bounded("B-06 ArFile(listing, getmember, header fields) + interleaved member operations vs io.BytesIO",
                ev, len(nt), "archives of 0..3 members over 9 contents (empty, odd/even sizes, lone CR, CRLF, NUL/VT/FF/high bytes, with/without final "
                "newline, duplicate names), opened by file object and by file name; seeded interleaved operation "
                "sequences; non-trivial = distinct (non-empty archive, open mode)",
                "members <= 3, 9 contents, %d operations per archive" % (6 if ctx.tier == "quick" else 12), samples,
                exhaustive=(ctx.tier != "quick"))
    ctx.level = "other"
    ctx.explanation = (
        "NOT a full proof any more: the header walk ArFile.__collect_members has four kinds of OPEN obligations (OPEN_OBLIGATIONS: "
        "exception freedom of from_file inside the loop and the preservation of two invariants at a symbolic member count - the "
        "back ends time out; an earlier run had discharged them only because the loop havoc of the generator forgot containers "
        "held in fields, so the loop body was checked from the entry state alone; found by a seeded change that capped the walk "
        "at 1024 members, fixed, and the obligations that no longer discharge are recorded as open). Its other obligations, "
        "and everything else below, are discharged; the walk is covered by the bounded cross-check (archives of 0-3 and of 1500 "
        "members). PROVED for all inputs (every obligation generated from the AST of the real arfile.py and discharged by SMT): "
        "ArMember.read / readline / readlines / seek / tell behave as io.BytesIO over data[offset:end] in the three ways a "
        "member gets its file object and for every incoming position of a shared file object; ArMember.from_file decodes the "
        "60-byte header (all outcomes: end of data, short header, bad magic, non-numeric field) and on a well-formed header "
        "yields a member satisfying the invariant the member operations require; ArFile.__collect_members walks the headers "
        "(padding of odd sizes) and builds exactly members_spec / dict_spec of the archive (loop invariant, termination); "
        "__index_archive and __init__ for file name and file object; getmember / getmembers / getnames; lemmas by guarded "
        "induction: members_spec(k) has k elements, and lookup by name in dict_spec returns the LAST member of that name. "
        "The bounded part (generated archives + interleaved operations against io.BytesIO) is kept as an independent "
        "cross-check of the engine, not as part of the claim. 'The members present in an archive' is defined by the header "
        "walk of the ar format (hdr_pos / ar_wf); int() of a header field and bytes.decode are uninterpreted functions shared "
        "by code and specification.")
    ctx.assumptions += ["A-SEM: pyvc's encoding of the Python subset is faithful (cross-checked by replay and mutants)",
                        "A-INT: Python int is mathematical", "open(name,'rb') returns the archive's bytes and does not fail",
                        "ArMember.read: size <= 0 means 'to the end' (documented convention), compared with BytesIO.read(-1)"]


def replay(ctx, data):
    return True


# ------------------------------------------------------------------------------------------------
# Bounded stand-in for the part not yet under contract (ArFile.__collect_members / from_file /
# getmember / getnames) and, as an independent cross-check of the engine, for interleaved member
# operations.  Labelled bounded; never counted as proved.

def _serialize(members):
    out = bytearray(b"!<arch>\n")
    for name, data, mtime, owner, group, mode in members:
        hdr = b"%-16s%-12d%-6d%-6d%-8s%-10d`\n" % (name + b"/", mtime, owner, group, mode, len(data))
        assert len(hdr) == 60, hdr
        out += hdr + data
        if len(data) % 2:
            out += b"\n"
    return bytes(out)


def _archives(tier, rng):
    contents = [b"", b"a", b"ab", b"a\nb", b"x\n", b"\n\n", b"abc\nde", b"a\rb\r\nc", b"\x00\x0b\x0cd\x1c\x85\n\xff"]
    names = [b"m1", b"m2", b"m1"]
    import itertools
    for n in range(0, 4):
        for combo in itertools.product(range(len(contents)), repeat=n):
            if tier == "quick" and n == 3 and rng.random() > 0.12:
                continue
            # header fields of every width, including ones that fill all their columns (12 / 6 / 6 digits)
            yield [(names[i], contents[c], (1000 + i, 999999999999, 0)[(i + n) % 3], (10 * i, 999999, 165536)[(i + c) % 3],
                    (7 + i, 123456, 0)[(c + n) % 3], b"100644") for i, c in enumerate(combo)]
    # sizes no small example reaches: thousands of members (a duplicated name whose last occurrence is far down), members and
    # single lines beyond every read buffer (8 KiB, 64 KiB)
    many = [(b"f%04d" % (i % 1400), b"c%d\n" % i if i % 3 else b"", 7, 0, 0, b"100644") for i in range(1500)]
    yield many
    long_line = b"L" * 70001 + b"\n" + b"short\n" + b"M" * 9000
    yield [(b"big", long_line, 1, 2, 3, b"100644"), (b"rnd", bytes(range(256)) * 300, 1, 2, 3, b"100644"), (b"tail", b"t\n", 1, 2, 3, b"100644")]


class _NamedBytesIO(io.BytesIO):
    name = "/nonexistent/verif-c06-not-this-file.ar"


def bounded_arfile(ctx):
    import random
    from debian import arfile
    rng = random.Random(ctx.seed)
    previous = None
    evals = 0
    nontrivial = set()
    samples = []
    import tempfile
    for members in _archives(ctx.tier, rng):
        raw = _serialize(members)
        for mode in ("fileobj", "fileobj with a misleading .name", "filename"):
            path = None
            try:
                if mode == "fileobj":
                    af = arfile.ArFile(fileobj=io.BytesIO(raw))
                elif mode.startswith("fileobj"):
                    # the archive IS the bytes of the given file object, whatever attributes that object carries
                    af = arfile.ArFile(fileobj=_NamedBytesIO(raw))
                else:
                    fd, path = tempfile.mkstemp(prefix="verif-c06-", dir="/dev/shm" if os.path.isdir("/dev/shm") else None)
                    os.write(fd, raw)
                    os.close(fd)
                    af = arfile.ArFile(filename=path)
                evals += 1
                exp_names = [m[0].decode() for m in members]
                got = af.getmembers()
                problems = []
                if af.getnames() != exp_names or [m.name for m in got] != exp_names:
                    problems.append("names: expected %r got %r" % (exp_names, af.getnames()))
                else:
                    for m, (nm, data, mtime, owner, group, mode_) in zip(got, members):
                        if (m.size, m.mtime, m.owner, m.group) != (len(data), mtime, owner, group):
                            problems.append("header fields of %s: %r" % (m.name, (m.size, m.mtime, m.owner, m.group)))
                    for nm in set(exp_names):
                        last = max(i for i, x in enumerate(exp_names) if x == nm)
                        if af.getmember(nm) is not got[last]:
                            problems.append("getmember(%r) is not the last member of that name" % nm)
                    # the aliases: subscripting, iteration, the `members` property
                    for nm in set(exp_names):
                        if af[nm] is not af.getmember(nm):
                            problems.append("archive[%r] is not getmember(%r)" % (nm, nm))
                    if list(af) != got or list(af.members) != got:
                        problems.append("iterating the archive / the members property do not give getmembers()")
                    for nm in ("m1", "m2", "absent"):
                        if nm not in exp_names:
                            try:
                                af[nm]
                                problems.append("archive[%r] on an archive without that name did not raise KeyError" % nm)
                            except KeyError:
                                pass
                            try:
                                af.getmember(nm)
                                problems.append("getmember(%r) on an archive without that name did not raise KeyError" % nm)
                            except KeyError:
                                pass
                    # an archive opened earlier in the same process is not affected by this one
                    if previous is not None:
                        paf, pnames, pgot = previous
                        for nm in set(pnames):
                            last = max(i for i, x in enumerate(pnames) if x == nm)
                            if paf.getmember(nm) is not pgot[last]:
                                problems.append("after opening another archive, getmember(%r) of the earlier archive changed" % nm)
                        for nm in ("m1", "m2"):
                            if nm not in pnames:
                                try:
                                    paf.getmember(nm)
                                    problems.append("after opening another archive, the earlier archive knows the foreign name %r" % nm)
                                except KeyError:
                                    pass
                    if mode == "fileobj":
                        previous = (af, exp_names, got)
                    # interleaved operations across members against io.BytesIO oracles
                    oracles = [io.BytesIO(m[1]) for m in members]
                    ops = []
                    # members beyond the usual buffer sizes get a fixed plan first (whole-line, sized and whole reads)
                    plan = []
                    for bi, m_ in enumerate(members[:8]):
                        if len(m_[1]) > 8000:
                            plan += [(bi, "readline"), (bi, "readbig"), (bi, "rewind"), (bi, "read"), (bi, "rewind"), (bi, "readlines")]
                    for step in range(len(plan) + (6 if ctx.tier == "quick" else 12)):
                        if not members:
                            break
                        if step < len(plan):
                            i, op = plan[step]
                        else:
                            i = rng.randrange(min(len(members), 40))
                            op = rng.choice(["read", "readn", "readline", "readlinen", "readlines", "seek0", "seek1", "seek2", "tell"])
                        n = len(members[i][1])
                        if op == "readbig":
                            a, b = got[i].read(66000), oracles[i].read(66000)
                        elif op == "rewind":
                            got[i].seek(0)
                            oracles[i].seek(0)
                            a = b = None
                        elif op == "read":
                            a, b = got[i].read(), oracles[i].read()
                        elif op == "readn":
                            k = rng.randint(1, 3)
                            a, b = got[i].read(k), oracles[i].read(k)
                        elif op == "readline":
                            a, b = got[i].readline(), oracles[i].readline()
                        elif op == "readlinen":
                            k = rng.randint(0, 3)
                            a, b = got[i].readline(k), oracles[i].readline(k)
                        elif op == "readlines":
                            a, b = got[i].readlines(), oracles[i].readlines()
                        elif op == "seek0":
                            k = rng.randint(0, n + 2)
                            got[i].seek(k)
                            oracles[i].seek(k)
                            a = b = None
                        elif op == "seek1":
                            k = rng.randint(-oracles[i].tell(), 2)
                            got[i].seek(k, 1)
                            oracles[i].seek(k, 1)
                            a = b = None
                        elif op == "seek2":
                            k = rng.randint(-n, 1)
                            got[i].seek(k, 2)
                            oracles[i].seek(k, 2)
                            a = b = None
                        else:
                            a, b = got[i].tell(), oracles[i].tell()
                        ops.append((i, op))
                        if a != b or got[i].tell() != oracles[i].tell():
                            short = lambda v: v if v is None or isinstance(v, int) or len(v) <= 60 else \
                                ("%d items / bytes, starting %r" % (len(v), v[:1] if isinstance(v, list) else v[:40]))
                            problems.append("op sequence %r: member %d %s gave %r (tell %d), BytesIO gave %r (tell %d)"
                                            % (ops, i, op, short(a), got[i].tell(), short(b), oracles[i].tell()))
                            break
                    for m in got:
                        m.close()
                if len(members) >= 1:
                    nontrivial.add((tuple((m[0], m[1]) for m in members), mode))
                if len(samples) < 3 and members:
                    samples.append({"archive": [[m[0].decode(), list(m[1])] for m in members], "opened_by": mode})
                if problems:
                    ctx.violation("B-06 ArFile listing / member isolation", "B-06 bounded: ArFile over generated archives",
                                  problems[0], inputs={"archive_bytes": list(raw), "opened_by": mode,
                                                       "members": [[m[0].decode(), list(m[1])] for m in members],
                                                       "problems": problems[:3]}, confirmed=True)
                    return evals, nontrivial, samples
            except Exception as e:
                ctx.violation("B-06 ArFile listing / member isolation", "B-06 bounded: ArFile over generated archives",
                              "exception %r" % (e,), inputs={"archive_bytes": list(raw), "opened_by": mode}, confirmed=True)
                return evals, nontrivial, samples
            finally:
                if path:
                    os.unlink(path)
    return evals, nontrivial, samples
