#!/bin/bash
# tools/harmless.sh [name-prefix]: run the checks that cover the touched files against every stored behaviour-preserving
# refactoring (mutants/harmless/*.diff, written by independent sub-agents); any VIOLATION line is a false alarm of the machinery
cd "$(dirname "$0")/.."
for d in mutants/harmless/${1:-}*.diff; do
  checks=""
  grep -q '^+++ b/lib/debian/debian_support.py' $d && checks="$checks C03 C14 C18 C19"
  grep -q '^+++ b/lib/debian/arfile.py' $d && checks="$checks C06 C07"
  grep -q '^+++ b/lib/debian/debfile.py' $d && checks="$checks C07"
  grep -q '^+++ b/lib/debian/_util.py' $d && checks="$checks C09"
  grep -q '^+++ b/lib/debian/deb822.py' $d && checks="$checks C02 C08 C12"
  grep -q '^+++ b/lib/debian/copyright.py' $d && checks="$checks C16 C17"
  grep -q '^+++ b/lib/debian/changelog.py' $d && checks="$checks C04 C15"
  grep -q '^+++ b/lib/debian/debtags.py' $d && checks="$checks C20"
  for c in $(echo $checks | tr ' ' '\n' | sort -u); do
    out="$(timeout 1500 bin/with-patch $d $c 2>&1)"
    if echo "$out" | grep -q "VIOLATION\|FAULT"; then echo "FALSE-ALARM $(basename $d) $c :: $(echo "$out" | grep -E 'VIOLATION|FAULT' | head -2 | cut -c1-200)"; else echo "quiet $(basename $d) $c $(echo "$out" | grep -c UNPROVED) unproved"; fi
  done
done
