#!/bin/bash
# tools/confirm_seed.sh <seed-out-dir> <property> : confirm a seeded change in a scratch worktree
# (demo passes without the patch; with it the full test suite still passes and the demo fails),
# then store it under /verif/seeded/<name>/.
set -u
D="$(realpath "$1")"; PID="$2"; NAME="$(basename "$D")"
WT="$(mktemp -d /tmp/wt-confirm.XXXXXX)"; rmdir "$WT"
git -C /repo worktree add -q "$WT" HEAD || exit 3
cleanup() { git -C /repo worktree remove --force "$WT" >/dev/null 2>&1; rm -rf "$WT"; }
trap cleanup EXIT
cd "$WT"
PYTHONPATH="$WT/lib" /venv/bin/python "$D/demo.py" >/dev/null 2>&1; base=$?
git apply "$D/patch.diff" || { echo "$NAME: patch does not apply"; exit 2; }
tests="$(PYTHONPATH="$WT/lib" /venv/bin/python -m pytest -q -p no:cacheprovider 2>&1 | tail -1)"
PYTHONPATH="$WT/lib" /venv/bin/python "$D/demo.py" >"$WT/demo.out" 2>&1; with=$?
echo "$NAME: demo without patch=$base, with patch=$with, tests: $tests"
if [ "$base" = 0 ] && [ "$with" = 1 ] && echo "$tests" | grep -q "^234 passed"; then
  mkdir -p "/verif/seeded/$NAME"
  cp "$D/patch.diff" "$D/demo.py" "/verif/seeded/$NAME/"
  [ -f "$D/notes.md" ] && cp "$D/notes.md" "/verif/seeded/$NAME/"
  python3 - "$NAME" "$PID" "$tests" "$WT/demo.out" <<'PY'
import json,sys,os
name,pid,tests,out=sys.argv[1:5]
notes=open('/verif/seeded/%s/notes.md'%name).read() if os.path.exists('/verif/seeded/%s/notes.md'%name) else ''
meta=dict(property=pid, name=name, breaks=pid, needs_to_manifest=notes[:1500],
          confirmed=dict(demo_exit_without_patch=0, demo_exit_with_patch=1, test_suite_with_patch=tests,
                         demo_output_with_patch=open(out).read()[:800]),
          ran=["git worktree add <scratch> HEAD", "python demo.py (unpatched) -> 0", "git apply patch.diff",
               "python -m pytest -q -p no:cacheprovider -> "+tests, "python demo.py (patched) -> 1"],
          source="independent sub-agent given only the property text and a scratch worktree")
json.dump(meta, open('/verif/seeded/%s/meta.json'%name,'w'), indent=1)
PY
  echo "$NAME: KEPT"
else
  echo "$NAME: REJECTED"
fi
