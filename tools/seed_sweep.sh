#!/bin/bash
# tools/seed_sweep.sh <tier> <seed>... : run every check on the unchanged tree under other seeds (no evidence written);
# prints only the lines that are not clean
cd "$(dirname "$0")/.."
tier="$1"; shift
for seed in "$@"; do
  for i in 01 02 03 04 05 06 07 08 09 10 11 12 13 14 15 16 17 18 19 20; do
    out="$(VERIF_SEED=$seed timeout 3000 bin/check C$i --tier $tier --no-evidence 2>&1)"; rc=$?
    last="$(echo "$out" | tail -1)"
    if [ "$rc" != 0 ] || echo "$out" | grep -q "VIOLATION\|UNPROVED\|FAULT"; then
      echo "seed=$seed C$i rc=$rc :: $(echo "$out" | grep -E 'VIOLATION|UNPROVED|FAULT' | head -2 | cut -c1-200) :: $last"
    else
      echo "seed=$seed C$i ok $(echo "$last" | grep -o '[0-9.]*s$')"
    fi
  done
done
