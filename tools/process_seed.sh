#!/bin/bash
# tools/process_seed.sh <name> [property] : confirm a delivered seeded change (/tmp/seed-out/<name>) and run the property's check on it
N="$1"; P="${2:-${N:0:3}}"
/verif/tools/confirm_seed.sh /tmp/seed-out/$N $P 2>&1 | tail -2
if [ -d /verif/seeded/$N ]; then
  ( time timeout 1500 /verif/bin/with-patch /verif/seeded/$N/patch.diff $P ) 2>&1 | grep -E "VIOLATION|^$P|real|FAULT|UNPROVED" | cut -c1-230
fi
