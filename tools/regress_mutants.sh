#!/bin/bash
# tools/regress_mutants.sh [pattern] : run every stored seeded change and reverse patch through its property's check
# (scratch copies, nothing written to evidence/); prints one line per mutant: DETECTED / MISSED / NOAPPLY
cd "$(dirname "$0")/.."
pat="${1:-}"
for d in seeded/*/ mutants/fixrev/*.patch; do
  case "$d" in
    seeded/*) n="$(basename "$d")"; p="${n:0:3}"; f="$d/patch.diff";;
    *) n="$(basename "$d" .patch)"; p="${n:0:3}"; f="$d";;
  esac
  [ -n "$pat" ] && [[ "$n" != $pat* ]] && continue
  out="$(timeout 2400 bin/with-patch "$f" "$p" 2>&1)"; rc=$?
  if echo "$out" | grep -q "patch failed\|FAILED"; then echo "$n NOAPPLY"; continue; fi
  v="$(echo "$out" | grep -c '^VIOLATION')"
  last="$(echo "$out" | tail -1 | cut -c1-120)"
  if [ "$rc" = 1 ] && [ "$v" -gt 0 ]; then echo "$n DETECTED ($v) rc=$rc :: $last"; else echo "$n MISSED rc=$rc :: $last"; fi
done
