#!/usr/bin/env python3
"""Regenerates MANIFEST.json from the table below (kept in one place so it is always valid)."""
import json, os
HERE = os.path.dirname(os.path.abspath(__file__))
PROPS = [json.loads(l)["id"] for l in open(os.path.join(HERE, "properties.jsonl"))]

CHECKS = {
 "C06": dict(
   category="other",
   text="The functions the property depends on in debian/arfile.py are under contract, for all archives, positions, "
        "sizes and operation interleavings: the five member operations == io.BytesIO over data[offset:end] (three ways of "
        "obtaining the file object, every incoming position of a shared file object, so interleaving is a corollary), from_file "
        "(all outcomes), __index_archive, __init__, getmember / archive[name] / getmembers / getnames, plus induction lemmas (k "
        "members listed; lookup returns the last member of a name) - all discharged. The header walk __collect_members (padding, "
        "loop invariant, termination) is only partly discharged: exception freedom of from_file inside the loop and the "
        "preservation of three invariants at a symbolic member count are OPEN (the back ends time out; listed in OPEN_OBLIGATIONS, "
        "nothing is concluded from them), so the listing clause rests on the bounded cross-check (archives of 0-3 and of 1500 members, "
        "long lines, large members) and the level is not 'proof'. "
        "VCs are generated from the AST of the real file on every run and discharged by z3 4.8.12 / cvc5 / z3 5.1.",
   design="DESIGN.md §5 C06 and Build status",
   note="Trusted: speclib models of binary file objects, first-occurrence search, bytes.split/strip/decode and int() of header fields "
        "as uninterpreted functions, open(name,'rb') yields the file's bytes and cannot fail, objects appended to the member list are "
        "kept by value (they are not mutated afterwards), well-definedness of the recursive spec functions, the VC generator's "
        "encoding of the Python subset (A-SEM; cross-checked by replayed counterexamples, mutants and the bounded part).",
   technique="contract-based deductive verification: AST->VC symbolic executor with loop invariants, recursive spec functions, induction lemmas; SMT"),
 "C18": dict(
   category="other",
   text="patches_from_ed_script and patch_lines are verified against recursive specification functions (spec parser of the ed "
        "script incl. shared-iterator text blocks, fold of slice assignments) for all scripts and line lists, str and bytes: "
        "loop invariants, exceptional postcondition 'ValueError iff malformed/unterminated'; the command patterns _patch_re / "
        "_patch_re_b accept exactly digits[,digits](a|c|d)[newline] (regex-to-SMT on the real pattern objects). The end-to-end clause against an "
        "independent diff is a bounded stand-in (difflib and diff -e).",
   design="DESIGN.md §5 C18",
   note="Trusted: speclib models (iterators, list slice assignment, re.match as uninterpreted matches?/groups functions with the "
        "stated group facts), well-definedness of the recursive spec functions, A-SEM, A-GEN. Bounded part: stated alphabet/bounds.",
   technique="contract-based deductive verification (loop invariants + recursive spec functions, SMT) with a bounded stand-in for the diff-derived clause"),
 "C14": dict(
   category="other",
   text="The set of strings the Version constructor accepts is proved equal to the valid-version language for ALL strings: the "
        "real compiled re_valid_version (exact Unicode character sets from the running interpreter, '$' vs '\\Z' semantics) plus the "
        "colon rule are turned into a regular language and compared with the Policy grammar by SMT; ':' and '-' are proved absent "
        "from the revision group. The functions around the pattern (_set_full_version, _update_full_version, __setattr__ for every "
        "magic attribute incl. 'ValueError leaves all four fields unchanged', __getattr__, __str__) are verified from their AST "
        "with the pattern's groups as uninterpreted functions. That the groups equal the property's decomposition, str() identity "
        "and assignment histories end to end are a bounded stand-in over the pattern's minterm alphabet.",
   design="DESIGN.md §5 C14",
   note="Trusted: CPython's re implements the language of its parse tree; a greedy optional group at the start participates iff a match "
        "with it exists. Bounded: strings up to length 4/5 over the minterm alphabet, seeded setter histories. upstream_version=None is "
        "outside the domain.",
   technique="regex-to-SMT language equivalence on the real pattern object (z3/cvc5 RegLan, minterm-compressed Unicode) + bounded stand-in"),
 "C16": dict(
   category="other",
   text="For each enumerated pattern list the solver decides for ALL file names that FilesParagraph.matches - the real regex text from "
        "the real globs_to_re under the call matches() really makes - equals the glob semantics of the property (star incl. '/', "
        "'?', the three escapes, format errors). Unbounded in names, bounded in pattern structure. _SpaceSeparated.to_str - what "
        "assigning a pattern list to `files` stores - is verified from its AST: the values, stripped, joined by exactly one blank, "
        "in order; format error iff a value is empty or contains whitespace. find_files_paragraph and the "
        "pattern cache are covered by bounded histories.",
   design="DESIGN.md §5 C16",
   note="Trusted: rx translation of re parse trees (DOTALL, MULTILINE, \\Z, alternation with continuation), character sets from the "
        "running interpreter. Bounded: pattern lists (all globs of <= 2 tokens over 16 tokens, sampled beyond), histories.",
   technique="regex-to-SMT language equivalence per pattern list (all names), bounded enumeration of pattern structure and histories"),
}

def bounded_only(what, design, extra=""):
    return dict(
        category="other",
        text="In this revision the property is decided by a BOUNDED stand-in only (labelled bounded, not proved): " + what +
             " The contract-based obligations planned for it in DESIGN.md are not generated yet" + (extra and "; " + extra or "") + ".",
        design=design,
        note="Bounded: the enumeration bounds and generators stated in the evidence file (coverage.bounded_stand_ins[*].rule / .bound). "
             "The reference models are independent re-implementations written from the property statement.",
        technique="bounded stand-in (reference-model comparison over enumerated / seeded inputs); deductive obligations pending")

CHECKS.update({
 "C01": dict(bounded_only("all sequences of <= 3/4 lines over 26 line-class representatives in three termination modes are parsed, dumped and "
        "tokenised and compared with the input;", "DESIGN.md §5 C01"),
        text="Two regex lemmas about the real _RE_FIELD_LINE / _RE_WHITESPACE_LINE (every prefix match of a line is a whole-line match) are "
             "proved for all lines by SMT; the losslessness of tokenizer + parser + dump is decided by a bounded stand-in over all sequences "
             "of <= 3/4 lines of 26 line-class representatives in three termination modes.",
        technique="regex-to-SMT lemmas on the real patterns + bounded stand-in (sequence enumeration)"),
 "C03": dict(bounded_only("", "DESIGN.md §5 C03"),
        text="Proved for all inputs from the real AST: _order against the character order of the property (ASCII), _version_cmp_string against "
             "the recursive specification lexpad (loop invariant, comprehensions as recursive functions, termination), lexpad's range / "
             "reflexivity / antisymmetry / transitivity by guarded induction, _compare's combination of epoch, upstream and revision and "
             "the six rich comparisons, and the loop of _version_cmp_part against a recursive specification over the token lists (padding "
             "with '0', numeric vs string comparison, first difference decides, termination, no ValueError; re.findall as an "
             "uninterpreted tokenizer). Agreement of the whole order with dpkg and hash consistency are decided by a bounded stand-in (all pairs of generated versions vs a "
             "Policy-level spec validated against dpkg's algorithm and binary).",
        technique="contract-based deductive verification (loop invariants, recursive spec functions, induction lemmas; SMT) + bounded stand-in"),
 "C03-old": bounded_only("all ordered pairs of ~700-3000 generated valid versions are compared with a Policy-level specification, itself validated "
        "against a transliteration of dpkg's verrevcmp and the dpkg binary; operators, symmetry, transitivity on triples and hash consistency;",
        "DESIGN.md §5 C03"),
 "C05": dict(bounded_only("", "DESIGN.md §5 C05"),
        text="The containers the edits are built on (LinkedList and OrderedSet of debian._util) are proved from the real AST against "
             "an abstract sequence (same contracts as C09: representation invariant preserved, each operation a list insert / delete / "
             "move). The element and token classes of _deb822_repro that use them are decided by a bounded stand-in: generated valid documents x histories of set/add/delete (also through a non-default view, and emptying a paragraph before adding to it), checked byte-wise against spans from an independent scanner and read back.",
        technique="contract-based deductive verification of the underlying containers (heap as arrays; SMT) + bounded stand-in "
                  "(reference-model comparison over generated documents and histories)"),
 "C09": dict(bounded_only("", "DESIGN.md §5 C09"),
        text="The ordering machinery under Deb822 mappings is proved from the real AST of debian._util: every LinkedList operation "
             "preserves a quantified doubly-linked-list invariant over an array heap and acts on the abstract node sequence as a list "
             "insert / delete; every OrderedSet operation (add, remove, membership, length, order_first/last/before/after) keeps table "
             "and list consistent and realises the reference list model (membership unchanged by re-ordering, the item at the stated "
             "place, all other items in their relative order), raising KeyError / ValueError exactly in the stated cases without "
             "modifying anything; the key class _CaseInsensitiveString compares and hashes by the lower-cased text and prints the text as "
             "written. The Deb822Dict layer on top (its use of the key objects, value dictionary, sort_fields, copy, "
             "iteration) is decided by a bounded stand-in: operation histories on real Deb822 mappings from five kinds of starting "
             "state against a reference list model.",
        technique="contract-based deductive verification (heap as arrays, ghost sequence and position map, representation invariants; "
                  "SMT, two back ends per obligation) + bounded stand-in (operation histories)"),
 "C10": dict(bounded_only("", "DESIGN.md §5 C10"),
        text="The ordering machinery the structural edits are built on is proved from the real AST of debian._util (same contracts as "
             "C09): the OrderedSet that IS the field order of a paragraph without duplicated fields (its order_* methods delegate to "
             "OrderedSet.order_*) and the LinkedList under it and under the element lists move exactly the named item and keep every "
             "other item's relative order. The paragraph / file element classes themselves (duplicate-field relocation, index "
             "semantics, set / remove / insert / append, separators and final newlines) are decided by a bounded stand-in: generated "
             "documents with unique / duplicated names x histories of order_*, sort_fields, indexed and unindexed set/delete, "
             "insert/append, compared byte-wise and structurally with a reference model of field texts.",
        technique="contract-based deductive verification of the ordering containers (heap as arrays, representation invariants; SMT) + "
                  "bounded stand-in (reference-model comparison over generated documents and histories)"),
 "C20": dict(bounded_only("", "DESIGN.md §5 C20"),
        text="Only the simplest functions are under contract (has_package, has_tag, package_count, tag_count, reverse(): membership / "
             "size of the right index, the same dictionary objects swapped). The property itself - the two indexes stay mutually "
             "inverse and the queries agree with a reference relation - is about dictionaries of shared mutable set objects; it is decided "
             "by a bounded stand-in: histories of read / insert / derivations are run on the real DB and on a reference model that shares "
             "and copies set objects as documented; every live collection is compared after every step, every query method and a pickle "
             "round trip are compared with the relation; the recorded findings are re-demonstrated by their specific histories.",
        technique="bounded stand-in (sharing-aware reference model over operation histories) + contracts on the elementary queries"),
 "C02": dict(bounded_only("", "DESIGN.md §5 C02"),
        text="Lemmas about the real line patterns are proved for all lines by SMT (dumped 'Key: first' / 'Key:' lines match _single / _multi "
             "and the groups capture exactly key and first line; continuation lines never start a field and are kept; encoded field lines "
             "are never armor, separator or initial-blank lines), and split_gpg_and_payload is verified from its AST to pass exactly the given lines on as payload whenever none of them matches the armor or separator pattern; the field-collecting loop of _internal_parser is verified against a recursive specification over the payload lines. Comment skipping, decoding, the input forms, armor stripping, comments and "
             "iter_paragraphs are decided by a bounded stand-in: generated paragraphs and multi-paragraph documents are dumped and "
             "re-parsed in six input forms x {plain, clearsigned} x {comments interleaved or not}.",
        technique="regex-to-SMT match and capture lemmas on the real patterns + bounded stand-in (generated documents)"),
 "C04": dict(bounded_only("", "DESIGN.md §5 C04"),
        text="Language lemmas about the real changelog patterns are proved for all lines by SMT (well-formed headers match topline, topline "
             "matches contain ';', trailer head and date are accepted by endline's parts, change / blank / header / trailer lines cannot be "
             "confused), and ChangeBlock._format is verified from its AST to write header, change lines, trailer and trailing lines exactly "
             "from the stored components; Changelog._format (what str() and write_to_open_file produce) is verified from its AST to write "
             "the leading blank lines, each with its newline, then the text of every block in order with the flag passed on - the "
             "block formatter used through an abstract contract (modular call); ChangeBlock.add_trailing_line appends the line as it is and leaves the rest of the block alone. The parser state machine (byte-identical round trip, exposed components) is decided by a bounded "
             "stand-in on texts generated from the deb-changelog(5) grammar.",
        technique="contract-based deductive verification of ChangeBlock._format and Changelog._format (AST -> SMT) + regex-to-SMT language lemmas on the real patterns + bounded stand-in (grammar-generated texts)"),
 "C04-old": bounded_only("texts generated from the deb-changelog(5) grammar with known components are parsed strictly with warnings as errors; "
        "str() must be byte-identical and the blocks must expose the written components;", "DESIGN.md §5 C04"),
 "C07": dict(bounded_only("", "DESIGN.md §5 C07"),
        text="The rejection clause is proved for all member-name lists from the AST of the real DebFile.__init__ (part discovery with the "
             "nested compressed_part_name; sets as finite conditional sets): it returns normally exactly when debian-binary and exactly one "
             "candidate per part are present, raises DebError otherwise, never KeyError, and stores members with a candidate name - "
             "relative to assumed contracts of the ArFile interface which are what C06 proves; the ArMember layer the parts are read "
             "through (read / readline / readlines / seek / tell == io.BytesIO over the member's bytes for every position of the shared "
             "file object; from_file) is re-verified here with C06's contracts. Reading back control fields, scripts, "
             "md5sums and contents in the three spellings goes through tarfile and the compressors (external) and is decided by a bounded "
             "stand-in: .deb files assembled in memory over 5x5 compressions, member orders, script subsets, names with spaces, binary "
             "contents; structurally defective member sets.",
        technique="contract-based deductive verification of the part-discovery code (path-wise VCs from the real AST, SMT) + bounded stand-in"),
 "C08": dict(bounded_only("", "DESIGN.md §5 C08"),
        text="validate_input (exactly which values it accepts, ValueError otherwise) and Deb822.__setitem__ (a rejected value leaves the "
             "paragraph unchanged) are verified from their AST. The anti-drift lemmas between the value validator and the parser's patterns are PROVED for all lines of the stated character "
             "domain by SMT on the real pattern objects (an accepted continuation line never matches _single/_multi/_gpgre/the empty-line "
             "pattern, a non-blank one matches _multidata and never the whitespace paragraph separator). The composition validator -> dump "
             "-> parser is decided by a bounded stand-in: every value of length <= 5/6 over {a, ':', '#', space, TAB, CR, LF}. Also verified from "
             "their ASTs: _dump_format / get_as_string (one entry per key, the value as stored), split_gpg_and_payload and the "
             "field-collecting loop of _internal_parser, and the containers an accepted name is filed in (LinkedList / OrderedSet of "
             "debian._util with C09's contracts: an operation that fails leaves table and order consistent).",
        technique="contract-based deductive verification of validator, writer, reader loop and containers (path-wise VCs from the real AST, "
                  "SMT) + regex-to-SMT language lemmas on the real patterns + bounded stand-in (exhaustive short values)"),
 "C11": dict(bounded_only("", "DESIGN.md §5 C11"),
        text="The containers the edits are built on (LinkedList and OrderedSet of debian._util) are proved from the real AST against "
             "an abstract sequence (same contracts as C09: representation invariant preserved, each operation a list insert / delete / "
             "move). The element and token classes of _deb822_repro that use them are decided by a bounded stand-in: generated whitespace- and comma-separated list fields (layouts, line breaks, comment lines, trailing separators, values starting with '#') x histories of append / remove / replace / reference edits against an independent split of the field text.",
        technique="contract-based deductive verification of the underlying containers (heap as arrays; SMT) + bounded stand-in "
                  "(reference-model comparison over generated documents and histories)"),
 "C12": dict(bounded_only("", "DESIGN.md §5 C12"),
        text="Proved from the real ASTs (path-wise verification conditions, nested loop invariants, discharged by z3 / cvc5) for all "
             "record lists, class tables and keys: _multivalued.get_as_string returns the documented field text (leading newline "
             "unless a single record; per record ' ' + component in table order; the size component left-padded to the width the "
             "class's table gives; trailing newlines stripped; ValueError for a newline inside a component); Release / "
             "PdiffIndex._fixed_field_lengths hold {'size': w} exactly for the present structured fields (pdiff: lists of records "
             "only) and _get_size_field_length gives w = 16 (apt-ftparchive) or the maximum size length. Also proved on the real "
             "patterns: a record line is never taken for a PGP armor line or a paragraph separator; split_gpg_and_payload passes "
             "exactly the given lines on when none matches those patterns. The line -> record conversion of _multivalued.__init__, "
             "sub-field names, the composition dump -> parse, absent optional fields and isolation between objects are decided by a "
             "bounded stand-in: for every class with structured fields x subsets of those fields x record lists (incl. token triples "
             "that look like armor lines, a second dump after a record was replaced, another Release object configured the other "
             "way), the dump must be exactly the documented text and re-parse to the same records.",
        technique="contract verification of the real AST (loop invariants over a recursive specification, SMT) + regex-to-SMT lemmas on "
                  "the real patterns + bounded stand-in (reference-model comparison over generated records)"),
 "C13": dict(bounded_only("", "DESIGN.md §5 C13"),
        text="Proved for all formatted atoms by SMT on the real __dep_RE: every atom that PkgRelation.str can write matches the pattern "
             "(no 'cannot parse' fallback) and each of the six named groups captures exactly the part that was written, absent when it "
             "was not written (capture lemmas over every way the pattern can match). The splitting at ',' and '|', the architecture and "
             "restriction sub-parsers and the printer are decided by a bounded stand-in: generated relation structures covering every "
             "combination of the optional parts are formatted, parsed back (no warning allowed), re-formatted, and re-parsed after the "
             "first result was edited.",
        technique="regex-to-SMT match and capture lemmas on the real pattern + bounded stand-in (generated structures)"),
 "C15": dict(bounded_only("", "DESIGN.md §5 C15"),
        text="Strictness consistency is established deductively: an AST data-flow check shows that `strict` reaches nothing but the second "
             "argument of _parse_error in the real parse_changelog, and _parse_error is verified to raise when strict and to warn exactly "
             "once otherwise. Totality of the lenient parser and the normal-form clause are decided by a bounded stand-in: well-formed "
             "changelogs mutated by inserting/deleting/duplicating lines from a pool of 26 line kinds, allow_empty_author on/off, plus "
             "editing histories.",
        technique="AST data-flow (taint) check + contract-based verification of _parse_error (SMT) + bounded stand-in"),
 "C15-old": bounded_only("well-formed changelogs mutated by inserting/deleting/duplicating lines from a pool of 26 line kinds, with allow_empty_author on "
        "and off: lenient never raises, strict raises iff lenient warns, str() is a normal form; plus editing histories;", "DESIGN.md §5 C15"),
 "C17": dict(bounded_only("", "DESIGN.md §5 C17"),
        text="format_multiline_lines is verified from its AST against the per-line encoding (loop invariant), and the per-line round-trip "
             "lemma (decode(encode(line)) == line unless the line is whitespace-only or a lone '.') is proved for all lines; the list "
             "writers _SpaceSeparated.to_str (pattern lists) and _LineBased.to_str are verified from their ASTs against recursive "
             "specifications (values stripped, in order, joined by one blank / on lines of their own; format error exactly for "
             "empty values, values with whitespace resp. newlines); the decoder parse_multiline_as_lines is verified from its AST against "
             "the recursive per-line decoding of s.splitlines() (in-place edit while enumerating; format error exactly when a later "
             "line lacks the leading blank; str.splitlines uninterpreted), and the entry points format_multiline / parse_multiline are verified "
             "against the contracts of these two (modular calls; None stays None), License.to_str likewise; "
             "the join/splitlines law and whole copyright documents (dump -> strict parse -> dump) are decided by a bounded stand-in: "
             "all line lists of length <= 3/4 over 14 line kinds and seeded documents.",
        technique="contract-based deductive verification of encoder, decoder and list writers + round-trip lemma (SMT) and a bounded stand-in for the join/splitlines law and documents"),
 "C17-old": bounded_only("the multiline codec is checked on all line lists of length <= 3/4 over 14 line kinds, and seeded copyright documents are "
        "dumped, strictly re-parsed and re-dumped;", "DESIGN.md §5 C17"),
 "C19": dict(bounded_only("", "DESIGN.md §5 C19"),
        text="replace_file is verified from its AST against a ghost file system in which open, every write, close and rename may fail: "
             "normal exit => exactly the joined lines in the local file, no temporary file, nothing else changed; every exceptional exit "
             "(any failure point, the i-th write via one loop invariant) => local file untouched and no temporary file. update_file, "
             "download_file and the hash / index logic are decided by a bounded stand-in on real file:// mirrors (histories of 1-4 "
             "versions, local copy in every state, unusable indexes, garbled patches, injected open / write / rename faults).",
        technique="contract-based deductive verification with ghost file-system state and exceptional postconditions (SMT) + bounded stand-in"),
 "C19-old": bounded_only("real file:// mirrors for seeded histories (SHA1 index, gz, ed patches from an independent differ) with the local copy in every "
        "state, unusable indexes, garbled/truncated patches and injected open / i-th write / rename failures;", "DESIGN.md §5 C19",
        "fault injection patches module attributes from /verif, not /repo"),
})

NOT_YET = "check not built yet in this revision of /verif (see DESIGN.md §7 for the order of construction)"

def main():
    checks = []
    for pid in PROPS:
        if pid not in CHECKS:
            continue
        c = CHECKS[pid]
        checks.append(dict(
            property_id=pid,
            quick_cmd="bin/check %s --tier quick" % pid,
            thorough_cmd="bin/check %s --tier thorough" % pid,
            evidence_file="evidence/%s.json" % pid,
            replay_cmd_template="bin/check %s --replay {path}" % pid,
            engine="pyvc",
            level_claimed=dict(category=c["category"], text=c["text"], design_ref=c["design"]),
            level_note=c["note"],
            technique=c["technique"]))
    man = dict(
        version=1,
        setup_cmd="bin/setup",
        hooks=dict(guard="PYTHON_DEBIAN_VERIF", enable="none needed: contracts are sidecars in /verif, /repo carries no hooks",
                   baseline_off_cmd="cd /repo && /venv/bin/python -m pytest -ra -q -p no:cacheprovider --timeout=900 --continue-on-collection-errors",
                   source_commits=[], add_only=True),
        engines=[dict(name="pyvc", path="vf/pyvc", serves_properties=sorted(k for k in CHECKS if not k.endswith("-old")),
                      kind_free_text="verification-condition generator over the Python ast of the real source (path-wise "
                                     "symbolic execution with contracts, loop invariants, ghost state) + regex-to-SMT "
                                     "translator; back ends z3 5.1, z3 4.8.12, cvc5 1.0.3")],
        checks=checks,
        not_applicable=[dict(property_id=p, reason=NOT_YET) for p in PROPS if p not in CHECKS],
        notes="Known findings and repaired defects: KNOWN_FINDINGS. Design: DESIGN.md.")
    json.dump(man, open(os.path.join(HERE, "MANIFEST.json"), "w"), indent=1)
    print("MANIFEST.json: %d checks, %d not applicable" % (len(checks), len(man["not_applicable"])))

if __name__ == "__main__":
    main()
